(* C18/Props.v -- pinned property theorems; nothing but statements closed by `exact`. *)
From NV.Common Require Import Base.
From NV.C18 Require Import Model Proofs Dijkstra Inst.
From NV.gen Require Import Gen_C18.
Open Scope N_scope.

(* find_path (BFS as the code does it, with the neighbour rule regenerated from the source):
   a returned path is a walk from `from` to `to` in the current graph that follows every directed
   edge forwards, uses only edges passing the edge filter and enters only nodes passing the node
   filter (the requested end excepted), and no such walk has fewer hops; PathNotFound is answered
   exactly when no such walk exists; NodeNotFound exactly for a missing endpoint; the search never
   runs out of fuel. *)
Theorem C18_find_path_real_and_shortest : forall g f from to,
  match find_path_with gen_fp_neighbor g f from to with
  | POk ns es =>
      node_exists g from = true /\ node_exists g to = true /\
      exists steps, ns = from :: map fst steps /\ es = map snd steps /\
        rwalk (qstep g f to) from steps to /\
        forall steps', rwalk (qstep g f to) from steps' to -> (length steps <= length steps')%nat
  | PNotFound =>
      node_exists g from = true /\ node_exists g to = true /\
      forall steps, ~ rwalk (qstep g f to) from steps to
  | PNoNode n => (node_exists g from = false /\ n = from) \/ (node_exists g from = true /\ node_exists g to = false /\ n = to)
  | PErr => False
  | PFuel => False
  end.
Proof. exact (find_path_correct gen_fp_neighbor gen_fp_spec). Qed.

(* non-vacuity: a directed chain 1->2->3 plus 3->1; forwards 2 hops, backwards the long way round,
   and a filtered query with no qualifying path *)
Example C18_find_path_example :
  let g := G [(1, Some 0); (2, Some 1); (3, Some 0)]
             [E 1 1 2 true 0 None None; E 2 2 3 true 0 None None; E 3 3 1 true 0 None None] in
  find_path_with gen_fp_neighbor g no_filt 1 3 = POk [1; 2; 3] [1; 2]
  /\ find_path_with gen_fp_neighbor g no_filt 2 1 = POk [2; 3; 1] [2; 3]
  /\ find_path_with gen_fp_neighbor g (F [(0, 0)] []) 1 3 = PNotFound.
Proof. vm_compute. repeat split. Qed.

(* find_variable_paths: every returned path is a qualifying walk (each step an existing edge of an
   allowed type that passes the edge filter, followed in the configured direction; entered nodes
   pass the node filter, the destination excepted; no node entered twice unless cycles are allowed)
   with a hop count inside [min_hops, max_hops]; and, unless the max_paths cap was reached, every
   such walk is returned: the enumeration is exact. *)
Theorem C18_variable_paths_exact : forall g c from to,
  match find_variable_paths g c from to with
  | VOk ps =>
      node_exists g from = true /\ node_exists g to = true /\
      (forall p, In p ps ->
         exists steps, vmin c <= N.of_nat (length steps) /\ N.of_nat (length steps) <= vmax c
           /\ qwalk g c to (if vcycles c then [] else [from]) from steps /\ end_of from steps = to
           /\ p = (from :: map fst steps, map snd steps)) /\
      ((length ps < N.to_nat (vmaxpaths c))%nat ->
       forall p,
         (exists steps, vmin c <= N.of_nat (length steps) /\ N.of_nat (length steps) <= vmax c
           /\ qwalk g c to (if vcycles c then [] else [from]) from steps /\ end_of from steps = to
           /\ p = (from :: map fst steps, map snd steps)) -> In p ps)
  | VNoNode n => (node_exists g from = false /\ n = from) \/ (node_exists g from = true /\ node_exists g to = false /\ n = to)
  | VErr => False
  end.
Proof. exact var_paths_exact. Qed.

(* ... and without allow_cycles those walks are simple paths (no node repeated, the start included) *)
Theorem C18_variable_paths_simple : forall g c to from steps, vcycles c = false ->
  qwalk g c to [from] from steps -> NoDup (from :: map fst steps).
Proof.
  exact (fun g c to from steps Hcy Hq =>
           NoDup_cons from (fun Hin => proj2 (qwalk_simple g c to Hcy steps [from] from Hq) from Hin (or_introl eq_refl))
                      (proj1 (qwalk_simple g c to Hcy steps [from] from Hq))).
Qed.

Example C18_variable_paths_example :
  let g := G [(1, Some 0); (2, Some 1); (3, Some 0)]
             [E 1 1 2 true 0 None None; E 2 2 3 false 0 None None; E 3 1 3 true 1 None None; E 4 1 2 true 0 None None] in
  find_variable_paths g (VC 1 2 0 None 1000 false None) 1 3
  = VOk [([1; 3], [3]); ([1; 2; 3], [1; 2]); ([1; 2; 3], [4; 2])].
Proof. vm_compute. reflexivity. Qed.

(* find_weighted_path (the binary-heap Dijkstra as the code does it: lazy deletion of stale entries,
   strict improvement, exit when the target is popped; outgoing-list neighbour rule regenerated from
   the source): a returned path is a real walk from `from` to `to` that follows every directed edge
   forwards, its reported total is the sum of its edge weights (property w, default 1), and no such
   walk is lighter; PathNotFound is answered only when no such walk exists.
   _partial: the model's fuel bound (2+2|E|)^2 is not proved sufficient (WFuel => True); the harness
   compares the model with the real engine on every case, where WFuel would be a mismatch. Weights
   are naturals: negative-weight errors and f64 rounding are outside the model. *)
Theorem C18_weighted_path_real_and_optimal_partial : forall g from to,
  match find_weighted_path_with gen_wp_neighbor g from to with
  | WOk ns es total =>
      node_exists g from = true /\ node_exists g to = true /\
      exists steps, ns = from :: map nbr steps /\ es = map sid steps /\
        rww (wstep g) from steps to /\ wsum steps = total /\
        forall steps', rww (wstep g) from steps' to -> total <= wsum steps'
  | WNotFound =>
      node_exists g from = true /\ node_exists g to = true /\
      forall steps, ~ rww (wstep g) from steps to
  | WNoNode n => (node_exists g from = false /\ n = from) \/ (node_exists g from = true /\ node_exists g to = false /\ n = to)
  | WErr => False
  | WFuel => True
  end.
Proof. exact (weighted_path_correct gen_wp_neighbor gen_wp_spec). Qed.

(* non-vacuity: parallel edges of different weight, a zero-weight undirected edge, a heavier direct edge *)
Example C18_weighted_path_example :
  let g := G [(1, None); (2, None); (3, None)]
             [E 1 1 2 true 0 (Some 5) None; E 2 1 2 true 0 (Some 2) None; E 3 3 2 false 0 (Some 0) None; E 4 1 3 true 0 (Some 4) None] in
  find_weighted_path_with gen_wp_neighbor g 1 3 = WOk [1; 2; 3] [2; 3] 2
  /\ find_weighted_path_with gen_wp_neighbor g 3 1 = WNotFound.
Proof. vm_compute. split; reflexivity. Qed.

(* traverse (model: level-synchronous search; the code's queue order depends on HashSet iteration, so
   results are compared as sets): the reported nodes are exactly the nodes within max_depth hops of
   the start -- each hop an existing edge of the requested type that passes the edge filter, followed
   in the requested direction -- that pass the node filter, plus the start itself. *)
Theorem C18_traverse_exact : forall g dir depth ty fo start,
  match traverse g (dir, depth, ty, fo) start with
  | TOk _ ns =>
      node_exists g start = true /\
      forall v, In v ns <->
        (v = start \/ node_ok g (match fo with Some f => f | None => no_filt end) v = true)
        /\ exists n, (n <= N.to_nat depth)%nat
                     /\ rnw (tstep g dir ty (match fo with Some f => f | None => no_filt end)) start n v
  | TNoNode n => node_exists g start = false /\ n = start
  | TErr => False
  end.
Proof. exact traverse_exact. Qed.

Example C18_traverse_example :
  let g := G [(1, Some 0); (2, Some 1); (3, Some 0); (4, Some 0)]
             [E 1 1 2 true 0 None None; E 2 2 3 false 0 None None; E 3 4 3 true 0 None None] in
  traverse g (0, 2, None, None) 1 = TOk true [1; 2; 3]
  /\ traverse g (2, 3, None, Some (F [(0, 0)] [])) 1 = TOk true [1; 3; 4].
Proof. vm_compute. split; reflexivity. Qed.

Print Assumptions C18_find_path_real_and_shortest.
Print Assumptions C18_variable_paths_exact.
Print Assumptions C18_variable_paths_simple.
Print Assumptions C18_weighted_path_real_and_optimal_partial.
Print Assumptions C18_traverse_exact.
