(* C18/Run.v -- executable entry points of the correspondence check: the property oracles
   (evaluated on what the REAL engine returned) and the model comparison.  Depends on Model and the
   regenerated neighbour rules only (not on the proofs).
   The oracles are written independently of the model's search code: they scan `gedges` directly
   (never the derived adjacency lists) and use level-synchronous reference searches. *)
From NV.Common Require Import Base.
From NV.C18 Require Import Model.
From NV.gen Require Import Gen_C18.
Open Scope N_scope.

(* ---------------------------------------------------------------- verdict combination *)
Definition vrank (v : N) : N := match v with 0 => 0 | 2 => 5 | 1 => 4 | 9 => 2 | _ => 3 end.
Definition vworse (a b : N) : N := if N.ltb (vrank a) (vrank b) then b else a.
Definition vall (l : list N) : N := fold_left vworse l 0.

Definition lN_eqb := list_eqb N.eqb.
Definition path_eqb (a b : list N * list N) : bool := lN_eqb (fst a) (fst b) && lN_eqb (snd a) (snd b).

(* ---------------------------------------------------------------- walks *)
Definition find_edge (g : graph) (i : N) : option edge := find (fun e => N.eqb (eid e) i) (gedges g).
(* e may be traversed from u to v respecting its direction *)
Definition fwd (e : edge) (u v : N) : bool :=
  (N.eqb (efrom e) u && N.eqb (eto e) v) || (negb (edir e) && N.eqb (eto e) u && N.eqb (efrom e) v).
(* direction parameter of the queries: 0 Outgoing, 1 Incoming, 2 Both *)
Definition fwd_dir (dir : N) (e : edge) (u v : N) : bool :=
  match dir with 0 => fwd e u v | 1 => fwd e v u | _ => fwd e u v || fwd e v u end.

Fixpoint walk_ok (g : graph) (ok : edge -> N -> N -> bool) (u : N) (ns es : list N) : bool :=
  match ns, es with
  | [], [] => true
  | v :: ns', i :: es' =>
      match find_edge g i with
      | Some e => ok e u v && walk_ok g ok v ns' es'
      | None => false
      end
  | _, _ => false
  end.
Definition path_ok (g : graph) (ok : edge -> N -> N -> bool) (from to : N) (ns es : list N) : bool :=
  match ns with
  | n0 :: r => N.eqb n0 from && walk_ok g ok from r es && N.eqb (last ns from) to
  | [] => false
  end.

(* reference hop distance: level-synchronous search over an arbitrary one-step function *)
Fixpoint ref_levels (step : N -> list N) (to : N) (fuel : nat) (seen frontier : list N) (d : N) : option N :=
  if mem to frontier then Some d
  else match fuel with
       | O => None
       | S f => let '(seen', nw) := add_new seen (flat_map step frontier) in
                match nw with [] => None | _ => ref_levels step to f seen' nw (d + 1) end
       end.
Definition ref_dist (g : graph) (step : N -> list N) (from to : N) : option N :=
  ref_levels step to (S (length (gnodes g))) [from] [from] 0.

(* one step of the relation the property demands for find_path: direction respected, edge filter on
   the edge, node filter on every node entered except the requested end *)
Definition fp_ok (g : graph) (f : filt) (to : N) (e : edge) (u v : N) : bool :=
  edge_ok f e && fwd e u v && (N.eqb v to || node_ok g f v).
Definition steps_of (g : graph) (ok : edge -> N -> N -> bool) (u : N) : list N :=
  flat_map (fun e => (if ok e u (eto e) then [eto e] else []) ++ (if ok e u (efrom e) then [efrom e] else [])) (gedges g).

(* ---------------------------------------------------------------- find_path *)
Definition pres_eqb (a b : pres) : bool :=
  match a, b with
  | POk n1 e1, POk n2 e2 => lN_eqb n1 n2 && lN_eqb e1 e2
  | PNotFound, PNotFound => true
  | PNoNode x, PNoNode y => N.eqb x y
  | PErr, PErr => true
  | _, _ => false
  end.

Definition nonode_ok (g : graph) (from to n : N) : bool :=
  if negb (node_exists g from) then N.eqb n from else negb (node_exists g to) && N.eqb n to.

Definition bfs_oracle (g : graph) (f : filt) (from to : N) (r : pres) : bool :=
  match r with
  | POk ns es =>
      node_exists g from && node_exists g to && path_ok g (fp_ok g f to) from to ns es
      && option_eqb N.eqb (ref_dist g (steps_of g (fp_ok g f to)) from to) (Some (N.of_nat (length es)))
  | PNotFound =>
      node_exists g from && node_exists g to
      && match ref_dist g (steps_of g (fp_ok g f to)) from to with None => true | Some _ => false end
  | PNoNode n => nonode_ok g from to n
  | _ => false
  end.

Definition bfs_case := (graph * filt * list (N * N * pres))%type.
Definition check_bfs_item (g : graph) (f : filt) (it : N * N * pres) : N :=
  let '(from, to, r) := it in
  if negb (bfs_oracle g f from to r) then V_VIOLATION
  else if pres_eqb (find_path_with gen_fp_neighbor g f from to) r then V_OK else V_MISMATCH.
Definition check_bfs (c : bfs_case) : N :=
  let '(g, f, items) := c in vall (map (check_bfs_item g f) items).

(* ---------------------------------------------------------------- weighted paths *)
Definition wres_eqb (a b : wres) : bool :=
  match a, b with
  | WOk n1 e1 t1, WOk n2 e2 t2 => lN_eqb n1 n2 && lN_eqb e1 e2 && N.eqb t1 t2
  | WNotFound, WNotFound => true
  | WNoNode x, WNoNode y => N.eqb x y
  | WErr, WErr => true
  | _, _ => false
  end.

(* reference: Bellman-Ford rounds over the raw edge list *)
Definition bf_relax1 (d : list (N * N)) (u v w : N) : list (N * N) :=
  match aget d u with
  | Some du => match aget d v with
               | Some dv => if N.ltb (du + w) dv then aset d v (du + w) else d
               | None => aset d v (du + w)
               end
  | None => d
  end.
Definition bf_round (g : graph) (dir : N) (d : list (N * N)) : list (N * N) :=
  fold_left (fun d e =>
               let d1 := if fwd_dir dir e (efrom e) (eto e) then bf_relax1 d (efrom e) (eto e) (weight e) else d in
               if fwd_dir dir e (eto e) (efrom e) then bf_relax1 d1 (eto e) (efrom e) (weight e) else d1)
            (gedges g) d.
Fixpoint iter {A} (n : nat) (f : A -> A) (x : A) : A := match n with O => x | S k => iter k f (f x) end.
Definition ref_wdists (g : graph) (dir : N) (from : N) : list (N * N) :=
  iter (S (length (gnodes g))) (bf_round g dir) [(from, 0)].

Fixpoint walk_weight (g : graph) (es : list N) : N :=
  match es with
  | [] => 0
  | i :: r => match find_edge g i with Some e => weight e + walk_weight g r | None => 0 end
  end.

Definition wpath_oracle (g : graph) (dir : N) (from to : N) (r : wres) : bool :=
  match r with
  | WOk ns es total =>
      node_exists g from && node_exists g to && path_ok g (fwd_dir dir) from to ns es
      && N.eqb (walk_weight g es) total
      && option_eqb N.eqb (aget (ref_wdists g dir from) to) (Some total)
  | WNotFound =>
      node_exists g from && node_exists g to
      && match aget (ref_wdists g dir from) to with None => true | Some _ => false end
  | WNoNode n => nonode_ok g from to n
  | _ => false
  end.

Definition wpath_case := (graph * list (N * N * wres))%type.
Definition check_wpath_item (g : graph) (it : N * N * wres) : N :=
  let '(from, to, r) := it in
  if negb (wpath_oracle g 0 from to r) then V_VIOLATION
  else if wres_eqb (find_weighted_path_with gen_wp_neighbor g from to) r then V_OK else V_MISMATCH.
Definition check_wpath (c : wpath_case) : N :=
  let '(g, items) := c in vall (map (check_wpath_item g) items).

(* ---------------------------------------------------------------- all shortest paths *)
Definition paths_eqb := list_eqb path_eqb.
Definition ares_eqb (a b : ares) : bool :=
  match a, b with
  | AOk h1 p1, AOk h2 p2 => N.eqb h1 h2 && paths_eqb p1 p2
  | ANotFound, ANotFound => true
  | ANoNode x, ANoNode y => N.eqb x y
  | AErr, AErr => true
  | _, _ => false
  end.
Fixpoint nodup_paths (l : list (list N * list N)) : bool :=
  match l with
  | [] => true
  | p :: r => negb (existsb (path_eqb p) r) && nodup_paths r
  end.
(* number of walks with exactly k hops from `from` to every node (with edge multiplicity) *)
Definition count_round (g : graph) (cnt : list (N * N)) : list (N * N) :=
  fold_left (fun acc e =>
               let add acc u v := match aget cnt u with
                                  | Some c => aset acc v (c + match aget acc v with Some x => x | None => 0 end)
                                  | None => acc end in
               let acc1 := if fwd e (efrom e) (eto e) then add acc (efrom e) (eto e) else acc in
               if negb (edir e) && negb (N.eqb (efrom e) (eto e)) then add acc1 (eto e) (efrom e) else acc1)
            (gedges g) [].
Definition count_walks (g : graph) (from to : N) (k : N) : N :=
  match aget (iter (N.to_nat k) (count_round g) [(from, 1)]) to with Some c => c | None => 0 end.

Definition allp_oracle (g : graph) (from to : N) (r : ares) : bool :=
  match r with
  | AOk hops ps =>
      node_exists g from && node_exists g to
      && option_eqb N.eqb (ref_dist g (steps_of g fwd) from to) (Some hops)
      && forallb (fun p => path_ok g fwd from to (fst p) (snd p) && N.eqb (N.of_nat (length (snd p))) hops) ps
      && nodup_paths ps
      && N.eqb (N.of_nat (length ps)) (N.min 1000 (count_walks g from to hops))
  | ANotFound =>
      node_exists g from && node_exists g to
      && match ref_dist g (steps_of g fwd) from to with None => true | Some _ => false end
  | ANoNode n => nonode_ok g from to n
  | _ => false
  end.
Definition allp_case := (graph * list (N * N * ares))%type.
Definition check_allp_item (g : graph) (it : N * N * ares) : N :=
  let '(from, to, r) := it in
  if negb (allp_oracle g from to r) then V_VIOLATION
  else if ares_eqb (find_all_paths_with gen_ap_neighbor g 1000 100 from to) r then V_OK else V_MISMATCH.
Definition check_allp (c : allp_case) : N :=
  let '(g, items) := c in vall (map (check_allp_item g) items).

(* ---------------------------------------------------------------- variable-length paths *)
Definition vres_eqb (a b : vres) : bool :=
  match a, b with
  | VOk p1, VOk p2 => paths_eqb p1 p2
  | VNoNode x, VNoNode y => N.eqb x y
  | VErr, VErr => true
  | _, _ => false
  end.
(* one step of the relation a variable-length match may take *)
Definition vp_ok (g : graph) (c : vcfg) (to : N) (e : edge) (u v : N) : bool :=
  type_ok (vtypes c) e && edge_ok (vfilt_of c) e && fwd_dir (vdir c) e u v
  && (N.eqb v to || node_ok g (vfilt_of c) v).
(* reference enumeration: all walks (reversed node/edge lists) with exactly k hops from `from` *)
Definition extend_walks (g : graph) (c : vcfg) (to : N) (ws : list (list N * list N)) : list (list N * list N) :=
  flat_map (fun w =>
              let u := hd 0 (fst w) in
              flat_map (fun e =>
                          let ext v := if vp_ok g c to e u v && (vcycles c || negb (mem v (fst w)))
                                       then [(v :: fst w, eid e :: snd w)] else [] in
                          ext (eto e) ++ (if N.eqb (efrom e) (eto e) then [] else ext (efrom e)))
                       (gedges g)) ws.
Fixpoint walks_upto (g : graph) (c : vcfg) (to : N) (k : nat) (ws : list (list N * list N)) : list (list (list N * list N)) :=
  ws :: match k with O => [] | S k' => walks_upto g c to k' (extend_walks g c to ws) end.
Definition ref_var_paths (g : graph) (c : vcfg) (from to : N) : list (list N * list N) :=
  let levels := walks_upto g c to (N.to_nat (vmax c)) [([from], [])] in
  flat_map (fun kl =>
              let '(k, ws) := kl in
              if N.leb (vmin c) k && N.leb k (vmax c) then
                map (fun w => (rev (fst w), rev (snd w))) (filter (fun w => N.eqb (hd 0 (fst w)) to) ws)
              else [])
           (combine (N_seq (N.succ (vmax c))) levels).
Definition subset_paths (a b : list (list N * list N)) : bool := forallb (fun p => existsb (path_eqb p) b) a.

Definition varp_oracle (g : graph) (c : vcfg) (from to : N) (r : vres) : bool :=
  match r with
  | VOk ps =>
      node_exists g from && node_exists g to &&
      let ref := ref_var_paths g c from to in
      subset_paths ps ref
      && (if N.ltb (N.of_nat (length ps)) (vmaxpaths c) then subset_paths ref ps else true)
  | VNoNode n => nonode_ok g from to n
  | _ => false
  end.
Definition varp_case := (graph * vcfg * list (N * N * vres))%type.
Definition check_varp_item (g : graph) (c : vcfg) (it : N * N * vres) : N :=
  let '(from, to, r) := it in
  if negb (varp_oracle g c from to r) then V_VIOLATION
  else if vres_eqb (find_variable_paths g c from to) r then V_OK else V_MISMATCH.
Definition check_varp (c : varp_case) : N :=
  let '(g, cfg, items) := c in vall (map (check_varp_item g cfg) items).

(* ---------------------------------------------------------------- traverse *)
Definition tres_eqb (a b : tres) : bool :=
  match a, b with
  | TOk f1 n1, TOk f2 n2 => Bool.eqb f1 f2 && lN_eqb n1 n2
  | TNoNode x, TNoNode y => N.eqb x y
  | TErr, TErr => true
  | _, _ => false
  end.
(* oracle: exactly the nodes within `depth` hops (edge type, edge filter and direction respected);
   the node filter selects which reached nodes are reported, the start is always reported *)
Definition trav_oracle (g : graph) (c : tcfg) (start : N) (r : tres) : bool :=
  let '(dir, depth, ty, fo) := c in
  let f := match fo with Some f => f | None => no_filt end in
  let ok e u v := match ty with Some t => N.eqb (ety e) t | None => true end && edge_ok f e && fwd_dir dir e u v in
  match r with
  | TOk first ns =>
      node_exists g start && first &&
      forallb (fun v =>
                 Bool.eqb (mem v ns)
                   (N.eqb v start ||
                    (node_ok g f v &&
                     match ref_dist g (steps_of g ok) start v with Some d => N.leb d depth | None => false end)))
              (map fst (gnodes g))
      && forallb (fun v => node_exists g v) ns
  | TNoNode n => negb (node_exists g start) && N.eqb n start
  | _ => false
  end.
Definition trav_case := (graph * tcfg * list (N * tres))%type.
Definition check_trav_item (g : graph) (c : tcfg) (it : N * tres) : N :=
  let '(start, r) := it in
  if negb (trav_oracle g c start r) then V_VIOLATION
  else if tres_eqb (traverse g c start) r then V_OK else V_MISMATCH.
Definition check_trav (c : trav_case) : N :=
  let '(g, cfg, items) := c in vall (map (check_trav_item g cfg) items).

(* ---------------------------------------------------------------- A* (zero heuristic): oracle only.
   astar_path reports a missing endpoint as "no path". *)
Definition astar_oracle (g : graph) (dir : N) (from to : N) (r : wres) : bool :=
  if N.eqb from to then match r with WOk [n] [] 0 => N.eqb n from | _ => false end
  else if negb (node_exists g from && node_exists g to) then match r with WNotFound => true | _ => false end
  else wpath_oracle g dir from to r.
Definition astar_case := (graph * N * list (N * N * wres))%type.
Definition check_astar_item (g : graph) (dir : N) (it : N * N * wres) : N :=
  let '(from, to, r) := it in
  if negb (astar_oracle g dir from to r) then V_VIOLATION else V_OK.
Definition check_astar (c : astar_case) : N :=
  let '(g, dir, items) := c in vall (map (check_astar_item g dir) items).

(* ---------------------------------------------------------------- algorithm library: textbook specs *)
Definition node_ids (g : graph) : list N := map fst (gnodes g).
Fixpoint dedup (l : list N) : list N :=
  match l with [] => [] | x :: r => if mem x r then dedup r else x :: dedup r end.
(* successors used by SCC (Direction::Outgoing of `neighbors`): direction respected *)
Definition succ_nodes (g : graph) (u : N) : list N := steps_of g fwd u.
(* neighbours in the underlying simple undirected graph (no self) *)
Definition und_nbrs (g : graph) (u : N) : list N :=
  sort_N (dedup (filter (fun v => negb (N.eqb v u)) (steps_of g (fun e a b => fwd e a b || fwd e b a) u))).
Definition closure (g : graph) (step : N -> list N) (u : N) : list N :=
  tr_levels step (S (length (gnodes g))) [u] [u].

(* classes of an equivalence given by `rel u` = the class of u; canonical: each class sorted, classes by minimum *)
Definition classes (g : graph) (cls : N -> list N) : list (list N) :=
  flat_map (fun u => let c := sort_N (cls u) in match c with m :: _ => if N.eqb m u then [c] else [] | [] => [] end)
           (sort_N (node_ids g)).
Definition scc_spec (g : graph) : list (list N) :=
  let tbl := map (fun u => (u, closure g (succ_nodes g) u)) (node_ids g) in
  let reach u := match aget tbl u with Some l => l | None => [] end in
  classes g (fun u => filter (fun v => mem u (reach v)) (reach u)).
Definition wcc_of (g : graph) (nbrs : N -> list N) : list (list N) :=
  classes g (fun u => closure g nbrs u).
Definition wcc_spec (g : graph) : list (list N) := wcc_of g (und_nbrs g).
Definition llN_eqb := list_eqb lN_eqb.

(* minimum spanning forest weight by textbook Kruskal on component labels *)
Fixpoint insert_edge (e : edge) (l : list edge) : list edge :=
  match l with [] => [e] | y :: r => if N.leb (weight e) (weight y) then e :: l else y :: insert_edge e r end.
Definition label_of (lab : list (N * N)) (u : N) : N := match aget lab u with Some x => x | None => u end.
Definition kruskal_weight (g : graph) : N :=
  let sorted := fold_right insert_edge [] (gedges g) in
  snd (fold_left (fun st e =>
                    let '(lab, tot) := st in
                    let a := label_of lab (efrom e) in let b := label_of lab (eto e) in
                    if N.eqb a b then st
                    else (map (fun p => if N.eqb (snd p) b then (fst p, a) else p) lab, tot + weight e))
                 sorted (map (fun u => (u, u)) (node_ids g), 0)).
Definition mst_out := (list (N * N * N * N) * N * N * list N)%type.   (* edges (id, from, to, w), total, trees, nodes *)
Definition mst_oracle (g : graph) (r : mst_out) : bool :=
  let '(es, total, trees, ns) := r in
  let nbrs u := flat_map (fun x => let '(_, a, b, _) := x in (if N.eqb a u then [b] else []) ++ (if N.eqb b u then [a] else [])) es in
  let comps := wcc_spec g in
  lN_eqb ns (sort_N (node_ids g))
  && forallb (fun x => let '(i, a, b, w) := x in
                       match find_edge g i with
                       | Some e => N.eqb (efrom e) a && N.eqb (eto e) b && N.eqb (weight e) w
                       | None => false end) es
  && N.eqb (fold_left (fun s x => s + snd x) es 0) total
  && N.eqb trees (N.of_nat (length comps))
  && N.eqb (N.of_nat (length es) + N.of_nat (length comps)) (N.of_nat (length (gnodes g)))   (* |F| = |V| - c *)
  && llN_eqb (wcc_of g nbrs) comps                                                              (* F connects what G connects *)
  && N.eqb total (kruskal_weight g).

(* k-core: the k-core is what remains after repeatedly deleting nodes of degree < k.
   The neighbour table and the k-cores for k = 0..|V|+1 are computed once per graph. *)
Definition nbr_table (g : graph) : list (N * list N) := map (fun v => (v, und_nbrs g v)) (node_ids g).
Definition prune_once (tbl : list (N * list N)) (k : N) (s : list N) : list N :=
  filter (fun v => N.leb k (N.of_nat (length (filter (fun w => mem w s)
                                                   (match aget tbl v with Some l => l | None => [] end))))) s.
Definition kcore_set_t (g : graph) (tbl : list (N * list N)) (k : N) : list N :=
  iter (length (gnodes g)) (prune_once tbl k) (node_ids g).
Definition kcore_set (g : graph) (k : N) : list N := kcore_set_t g (nbr_table g) k.
Definition kcore_table (g : graph) : list (N * list N) :=
  let tbl := nbr_table g in
  map (fun k => (k, sort_N (kcore_set_t g tbl k))) (N_seq (N.of_nat (length (gnodes g)) + 2)).
Definition core_spec_t (g : graph) (kt : list (N * list N)) : list (N * N) :=
  map (fun v => (v, fold_left (fun best kc => if mem v (snd kc) then N.max best (fst kc) else best) kt 0))
      (sort_N (node_ids g)).
Definition core_spec (g : graph) : list (N * N) := core_spec_t g (kcore_table g).
Definition pairs_eqb := list_eqb (pair_eqb N.eqb N.eqb).
(* k-core outputs: core numbers, degeneracy (kcore_decomposition and degeneracy()), whether the
   `cores` grouping matches the core numbers, and for every k = 0..|V|: kcore_subgraph(k), shell(k) *)
Definition kcore_out := (list (N * N) * N * N * bool * list (N * list N * list N))%type.
Definition kcore_oracle_t (g : graph) (kt : list (N * list N)) (r : kcore_out) : bool :=
  let '(cs, dg, dg2, grouped, perk) := r in
  let spec := core_spec_t g kt in
  let dspec := fold_left (fun m p => N.max m (snd p)) spec 0 in
  let kc k := match aget kt k with Some l => l | None => [] end in
  pairs_eqb cs spec && N.eqb dg dspec && N.eqb dg2 dspec && grouped
  && lN_eqb (map (fun x => fst (fst x)) perk) (N_seq (N.succ (N.of_nat (length (gnodes g)))))
  && forallb (fun x => let '(k, sub, shell) := x in
                       (* the k-core by its definition: what is left after repeatedly deleting nodes of degree < k *)
                       lN_eqb sub (kc k)
                       && lN_eqb shell (filter (fun v => negb (mem v (kc (k + 1)))) (kc k)))
             perk.
Definition kcore_oracle (g : graph) (r : kcore_out) : bool := kcore_oracle_t g (kcore_table g) r.

(* triangles of the underlying simple graph *)
Definition tri_list (g : graph) : list (N * N * N) :=
  let ns := sort_N (node_ids g) in
  flat_map (fun a => flat_map (fun b => if N.ltb a b && mem b (und_nbrs g a) then
                                          flat_map (fun c => if N.ltb b c && mem c (und_nbrs g a) && mem c (und_nbrs g b) then [(a, b, c)] else [])
                                                   (und_nbrs g a)
                                        else []) (und_nbrs g a)) ns.
Definition tri_oracle (g : graph) (r : N * list (N * N)) : bool :=
  let ts := tri_list g in
  N.eqb (fst r) (N.of_nat (length ts))
  && pairs_eqb (snd r)
       (map (fun v => (v, N.of_nat (length (filter (fun t => let '(a, b, c) := t in N.eqb a v || N.eqb b v || N.eqb c v) ts))))
            (sort_N (node_ids g))).

(* articulation points and bridges of the underlying simple graph, by definition *)
Definition ncomp (g : graph) (nbrs : N -> list N) (alive : list N) : N :=
  N.of_nat (length (flat_map (fun u => match sort_N (tr_levels nbrs (S (length (gnodes g))) [u] [u]) with
                                        | m :: _ => if N.eqb m u then [u] else [] | [] => [] end) alive)).
Definition ap_spec (g : graph) : list N :=
  let all := sort_N (node_ids g) in
  let base := ncomp g (und_nbrs g) all in
  filter (fun x => N.ltb base (ncomp g (fun u => filter (fun w => negb (N.eqb w x)) (und_nbrs g u))
                                      (filter (fun w => negb (N.eqb w x)) all))) all.
Definition simple_edges (g : graph) : list (N * N) :=
  flat_map (fun a => map (fun b => (a, b)) (filter (fun b => N.ltb a b) (und_nbrs g a))) (sort_N (node_ids g)).
Definition bridge_spec (g : graph) : list (N * N) :=
  filter (fun ab => let '(a, b) := ab in
                    negb (mem b (closure g (fun u => filter (fun w => negb ((N.eqb u a && N.eqb w b) || (N.eqb u b && N.eqb w a))) (und_nbrs g u)) a)))
         (simple_edges g).
(* blocks: two edges meeting in x belong together iff their other ends stay connected without x;
   biconnected components are the classes of the transitive closure *)
Definition block_spec (g : graph) : list (list (N * N)) :=
  let es := simple_edges g in
  let idx := N_seq (N.of_nat (length es)) in
  let nth_e i := nth (N.to_nat i) es (0, 0) in
  let avoid x u := filter (fun w => negb (N.eqb w x)) (und_nbrs g u) in
  let tbl := map (fun x => (x, map (fun a => (a, closure g (avoid x) a)) (filter (fun a => negb (N.eqb a x)) (node_ids g)))) (node_ids g) in
  let conn x a b := N.eqb a b || match aget tbl x with
                                 | Some t => match aget t a with Some l => mem b l | None => false end
                                 | None => false end in
  let other e x := if N.eqb (fst e) x then snd e else fst e in
  let related i j :=
      let e := nth_e i in let f := nth_e j in
      let share x := (N.eqb (fst f) x || N.eqb (snd f) x) && conn x (other e x) (other f x) in
      share (fst e) || share (snd e) in
  let step i := filter (related i) idx in
  let cls i := sort_N (tr_levels step (S (length es)) [i] [i]) in
  flat_map (fun i => match cls i with m :: _ => if N.eqb m i then [map nth_e (cls i)] else [] | [] => [] end) idx.

Definition bicon_out := (list N * list (N * N) * list (list (N * N)))%type.
Definition bicon_points_ok (g : graph) (r : bicon_out) : bool :=
  let '(aps, brs, _) := r in lN_eqb aps (ap_spec g) && pairs_eqb brs (bridge_spec g).
Fixpoint insert_pairs (x : list (N * N)) (l : list (list (N * N))) : list (list (N * N)) :=
  match l with
  | [] => [x]
  | y :: r => match x, y with
              | (a, b) :: _, (c, d) :: _ => if N.ltb a c || (N.eqb a c && N.leb b d) then x :: l else y :: insert_pairs x r
              | _, _ => x :: l
              end
  end.
Definition bicon_blocks_ok (g : graph) (r : bicon_out) : bool :=
  let '(_, _, comps) := r in
  list_eqb pairs_eqb (fold_right insert_pairs [] comps) (fold_right insert_pairs [] (block_spec g)).

(* algo case: graph and the canonicalised outputs of the six algorithms (None = error/panic) *)
Definition algo_case :=
  (graph * option (list (list N) * bool) * option (list (list N) * bool) * option mst_out
   * option kcore_out * option (N * list (N * N)) * option bicon_out * option kcore_out)%type.
Definition check_algo (c : algo_case) : N :=
  let '(g, scc, wcc, mst, kc, tri, bic, kcd) := c in
  let kt := kcore_table g in
  vall [
    (* k-core with the default config: the definition is on the undirected graph either way *)
    match kcd with Some r => if kcore_oracle_t g kt r then V_OK else V_VIOLATION | None => V_VIOLATION end;
    match scc with Some (ms, okc) => if okc && llN_eqb ms (scc_spec g) then V_OK else V_VIOLATION | None => V_VIOLATION end;
    match wcc with Some (ms, okc) => if okc && llN_eqb ms (wcc_spec g) then V_OK else V_VIOLATION | None => V_VIOLATION end;
    match mst with Some r => if mst_oracle g r then V_OK else V_VIOLATION | None => V_VIOLATION end;
    match kc with Some r => if kcore_oracle_t g kt r then V_OK else V_VIOLATION | None => V_VIOLATION end;
    match tri with Some r => if tri_oracle g r then V_OK else V_VIOLATION | None => V_VIOLATION end;
    match bic with Some r => if bicon_points_ok g r && bicon_blocks_ok g r then V_OK else V_VIOLATION | None => V_VIOLATION end
  ].

(* ---------------------------------------------------------------- all minimum-weight paths: oracle only.
   Every returned path is a real direction-respecting walk whose weights sum to its own and to the
   reported total; the total is the minimum (reference Bellman-Ford); no path is returned twice;
   and (unless the max_paths cap was reached) every SIMPLE minimum-weight path -- enumerated by
   brute force -- is returned.  With zero-weight cycles there are infinitely many minimum-weight
   walks; non-simple ones may or may not be returned. *)
Inductive xres := XOk (total : N) (ps : list (list N * list N * N)) | XNotFound | XNoNode (n : N) | XErr.
(* all simple paths from `from` (reversed node/edge lists), by extension *)
Fixpoint simple_ext (g : graph) (k : nat) (ws : list (list N * list N)) : list (list N * list N) :=
  ws ++ match k with
        | O => []
        | S k' =>
            simple_ext g k'
              (flat_map (fun w =>
                           let u := hd 0 (fst w) in
                           flat_map (fun e =>
                                       let ext v := if fwd e u v && negb (mem v (fst w)) then [(v :: fst w, eid e :: snd w)] else [] in
                                       ext (eto e) ++ (if N.eqb (efrom e) (eto e) then [] else ext (efrom e)))
                                    (gedges g)) ws)
        end.
Fixpoint simple_levels (g : graph) (k : nat) (ws : list (list N * list N)) : list (list N * list N) :=
  match k with
  | O => ws
  | S k' =>
      let next := flat_map (fun w =>
                    let u := hd 0 (fst w) in
                    flat_map (fun e =>
                                let ext v := if fwd e u v && negb (mem v (fst w)) then [(v :: fst w, eid e :: snd w)] else [] in
                                ext (eto e) ++ (if N.eqb (efrom e) (eto e) then [] else ext (efrom e)))
                             (gedges g)) ws in
      ws ++ match next with [] => [] | _ => simple_levels g k' next end
  end.
Definition simple_min_paths (g : graph) (from to total : N) : list (list N * list N) :=
  map (fun w => (rev (fst w), rev (snd w)))
      (filter (fun w => N.eqb (hd 0 (fst w)) to && N.eqb (walk_weight g (snd w)) total)
              (simple_levels g (length (gnodes g)) [([from], [])])).

Definition allw_oracle (g : graph) (from to : N) (r : xres) : bool :=
  match r with
  | XOk total ps =>
      node_exists g from && node_exists g to
      && option_eqb N.eqb (aget (ref_wdists g 0 from) to) (Some total)
      && forallb (fun p => let '(ns, es, t) := p in
                           path_ok g fwd from to ns es && N.eqb (walk_weight g es) t && N.eqb t total) ps
      && nodup_paths (map fst ps)
      && (if N.ltb (N.of_nat (length ps)) 1000
          then subset_paths (simple_min_paths g from to total) (map fst ps) else true)
  | XNotFound =>
      node_exists g from && node_exists g to
      && match aget (ref_wdists g 0 from) to with None => true | Some _ => false end
  | XNoNode n => nonode_ok g from to n
  | XErr => false
  end.
Definition allw_case := (graph * list (N * N * xres))%type.
Definition check_allw (c : allw_case) : N :=
  let '(g, items) := c in
  vall (map (fun it => let '(from, to, r) := it in if allw_oracle g from to r then V_OK else V_VIOLATION) items).

(* ---------------------------------------------------------------- variable-length PATTERN matching: oracle only.
   (n_from)-[p:*min..max]->(n_to) must bind p to exactly the simple paths within the hop bounds that
   follow edges of the requested type in the requested direction (order-insensitive, none twice) *)
Definition pat_oracle (g : graph) (c : vcfg) (from to : N) (r : vres) : bool :=
  match r with
  | VOk ps =>
      node_exists g from && node_exists g to &&
      let ref := ref_var_paths g c from to in
      subset_paths ps ref && subset_paths ref ps && nodup_paths ps
  | _ => false
  end.
Definition check_pat (c : varp_case) : N :=
  let '(g, cfg, items) := c in
  vall (map (fun it => let '(from, to, r) := it in if pat_oracle g cfg from to r then V_OK else V_VIOLATION) items).
