(* C19/Inst.v -- PER-RUN OBLIGATIONS over gen/Gen_C19.v (regenerated from tensor_blob's sources on
   every run): what the proofs consume about the decision expressions of gc.rs / integrity.rs. *)
From NV.Common Require Import Base.
From NV.C19 Require Import Model Proofs.
From NV.gen Require Import Gen_C19.
Open Scope N_scope.

(* gc_cycle deletes a chunk only when its reference count is zero *)
Lemma gen_collectable_spec : forall r c m, gen_collectable r c m = true -> r = 0.
Proof. intros r c m. unfold gen_collectable. lia. Qed.

(* ... and only when it is strictly older than now - min_age (saturating) *)
Lemma gen_collectable_age : forall r c now age,
  gen_collectable r c (gen_min_created now age) = true -> c < now - age.
Proof. intros r c now age. unfold gen_collectable, gen_min_created. lia. Qed.

Lemma gen_rdec_spec : forall r, gen_rdec r = r - 1.
Proof. intros r. unfold gen_rdec. lia. Qed.

Lemma gen_rinc_spec : forall r, gen_rinc r = r + 1.
Proof. intros r. unfold gen_rinc. lia. Qed.

(* full_gc and repair count the chunks registered by unfinished writers (F-C19-inflight repaired) *)
Lemma gen_fgc_spec : gen_fgc_counts_writers = true.
Proof. vm_compute. reflexivity. Qed.
Lemma gen_rep_spec : gen_repair_counts_writers = true.
Proof. vm_compute. reflexivity. Qed.

(* every read-modify-write of chunk records runs under chunk_lock (F-C19-rc repaired): store_chunk,
   the publish step of finish, delete_artifact, gc_cycle's per-chunk test-and-delete, full_gc, repair *)
Lemma gen_locked_spec : forall f, In f [0; 1; 2; 3; 4; 5] -> gen_locked f = true.
Proof.
  intros f Hf. cbn [In] in Hf. repeat (destruct Hf as [<-|Hf]); [..|contradiction]; vm_compute; reflexivity.
Qed.

(* ------------------------------------------------------------------ the main theorems of Proofs.v,
   instantiated with the regenerated definitions (Props.v pins these statements) *)
Notation grun hash cs min_age :=
  (run hash gen_collectable gen_min_created gen_rdec gen_rinc gen_fgc_counts_writers gen_repair_counts_writers cs min_age).
Notation gstep hash cs min_age :=
  (step hash gen_collectable gen_min_created gen_rdec gen_rinc gen_fgc_counts_writers gen_repair_counts_writers cs min_age).

Ltac gen_hyps := first [exact gen_collectable_spec | exact gen_rdec_spec | exact gen_rinc_spec | exact gen_fgc_spec | exact gen_rep_spec | assumption].

Lemma g_inv hash cs min_age ops : (0 < cs)%nat ->
  Inv hash (grun hash cs min_age init ops).
Proof. intros Hcs. eapply run_inv; try gen_hyps. apply Inv_init. Qed.

Lemma g_refine hash cs min_age ops : (0 < cs)%nat ->
  CollIn hash (seen (grun hash cs min_age init ops)) \/ Ref hash cs (srun sinit ops) (grun hash cs min_age init ops).
Proof. intros Hcs. eapply refine_run; try gen_hyps; [apply Inv_init|apply Ref_init]. Qed.

Lemma g_reads hash cs min_age ops : (0 < cs)%nat ->
  let s := grun hash cs min_age init ops in
  (exists x y, In x (seen s) /\ In y (seen s) /\ x <> y /\ hash x = hash y)
  \/ forall id,
       get s id = sget (srun sinit ops) id /\
       verify hash s id = match aget (sarts (srun sinit ops)) id with Some _ => RBool true | None => RErr E_NOTFOUND end.
Proof.
  intros Hcs s. destruct (g_refine hash cs min_age ops Hcs) as [Hc|R]; [left; exact Hc|right].
  intros id. split; [eapply get_refines|eapply verify_refines]; eassumption.
Qed.

Lemma g_spec_put ops0 x d :
  sget (srun sinit (ops0 ++ [OPut (x :: d)])) (snext (srun sinit ops0)) = RBytes (x :: d).
Proof. rewrite srun_app. apply spec_put. Qed.

Lemma g_spec_stream ops0 (ws : list (list N)) :
  let n := snext (srun sinit ops0) in
  sget (srun sinit (ops0 ++ OOpen :: map (OWrite n) ws ++ [OFinish n])) n = RBytes (concat ws).
Proof. intros n. rewrite srun_app. apply spec_stream. Qed.

Lemma g_refcount hash cs min_age ops : (0 < cs)%nat ->
  let s := grun hash cs min_age init ops in
  (forall k c, aget (chunks s) k = Some c -> crefs c = count k (art_refs s) + count k (wr_refs s)) /\
  (forall k, 0 < count k (art_refs s) + count k (wr_refs s) -> aget (chunks s) k <> None) /\
  NoDup (map fst (chunks s)).
Proof.
  intros Hcs s. pose proof (g_inv hash cs min_age ops Hcs) as I. fold s in I.
  split; [|split]; [exact (i_refs hash _ I)|exact (i_live hash _ I)|exact (i_nd_c hash _ I)].
Qed.

Lemma g_delete hash cs min_age s id id' :
  id <> id' -> get (fst (gstep hash cs min_age s (ODelete id))) id' = get s id'.
Proof. intros H. eapply delete_leaves_others; try gen_hyps. Qed.

Lemma g_collect_keeps hash cs min_age ops o id ar k : (0 < cs)%nat -> is_collect o = true ->
  let s := grun hash cs min_age init ops in
  aget (arts s) id = Some ar -> In k (achunks ar) ->
  exists c c', aget (chunks s) k = Some c /\ aget (chunks (fst (gstep hash cs min_age s o))) k = Some c' /\ cdata c' = cdata c.
Proof.
  intros Hcs Ho s Ha Hin. eapply collect_keeps_referenced; try gen_hyps; try eassumption.
  apply g_inv. exact Hcs.
Qed.

Lemma g_collect_reads hash cs min_age ops o id : (0 < cs)%nat -> is_collect o = true ->
  let s := grun hash cs min_age init ops in
  get (fst (gstep hash cs min_age s o)) id = get s id.
Proof.
  intros Hcs Ho s. eapply collect_preserves_reads; try gen_hyps; try eassumption.
  apply g_inv. exact Hcs.
Qed.

Lemma g_full_gc_empties hash cs min_age s :
  arts s = [] -> writers s = [] -> chunks (fst (gstep hash cs min_age s OFullGc)) = [].
Proof. intros. eapply full_gc_empties; gen_hyps. Qed.

Lemma g_verify_alter hash cs min_age ops id d cks' : (0 < cs)%nat ->
  let s := grun hash cs min_age init ops in
  (exists x y, In x (seen s) /\ In y (seen s) /\ x <> y /\ hash x = hash y) \/
  (aget (sarts (srun sinit ops)) id = Some d ->
   let s' := St cks' (arts s) (writers s) (next_id s) (clock s) (seen s) in
   verify hash s' id = RBool true ->
   get s' id = RBytes d \/ exists rb, get s' id = RBytes rb /\ rb <> d /\ hash rb = hash d).
Proof.
  intros Hcs s. destruct (g_refine hash cs min_age ops Hcs) as [Hc|R]; [left; exact Hc|right].
  intros Hd. eapply verify_detects_alteration; eassumption.
Qed.

Lemma g_verify_missing (hash : list N -> N) s id ar k :
  aget (arts s) id = Some ar -> In k (achunks ar) -> verify hash (remove_chunk s k) id = RErr E_CHUNKMISSING.
Proof. exact (verify_reports_missing hash (fun _ _ => 0) 0 s id ar k). Qed.

(* every schedule of every set of client programs: an instance of g_reads *)
Lemma g_any_schedule hash cs min_age (threads : list (list op)) (sched : list nat) : (0 < cs)%nat ->
  let ops := interleave threads sched in
  let s := grun hash cs min_age init ops in
  (exists x y, In x (seen s) /\ In y (seen s) /\ x <> y /\ hash x = hash y)
  \/ forall id,
       get s id = sget (srun sinit ops) id /\
       verify hash s id = match aget (sarts (srun sinit ops)) id with Some _ => RBool true | None => RErr E_NOTFOUND end.
Proof. intros Hcs. exact (g_reads hash cs min_age (interleave threads sched) Hcs). Qed.
