(* C19/Model.v -- executable model of the blob store (tensor_blob/src/{lib,streaming,chunker,gc,
   integrity}.rs).  Definitions only.

   What is modelled, following the code:
     * Chunker::chunk = data.chunks(chunk_size)                         -> split
     * BlobWriter { buffer, chunks, hasher+total_size }                  -> writer (wbuf, wchunks, wall)
       write = extend buffer, drain every full chunk through store_chunk -> w_write
       finish = flush the remainder, put the artifact record             -> finish
     * store_chunk: key = hash data; exists -> increment_chunk_refs, else put (data, refs 1, now)
     * delete_artifact: decrement_chunk_refs per listed chunk key (missing chunk skipped), drop record
     * BlobReader::read_all / verify_artifact: NotFound / ChunkMissing / bytes (hash compare)
     * GarbageCollector::gc_cycle over an explicit list of examined keys (scan order and batch are
       a universally quantified input), full_gc, integrity::repair
   The wall clock (seconds) is the explicit `clock` of the state; uuid artifact ids are a counter
   (ids are only ever compared for equality).  SHA-256 is the Section variable `hash`, with NO
   hypothesis: the theorems are stated in collision-or form over the chunk contents actually
   stored in the run (`seen`, a ghost field no operation reads).

   The decision expressions come from the translator (gen/Gen_C19.v) on every run:
     collectable refs created min_created   gc_cycle's test;  mincr now min_age = min_created
     rdec / rinc                              decrement/increment_chunk_refs arithmetic
     fgc_w / rep_w                            do full_gc / repair count the chunks of in-flight writers *)
From NV.Common Require Import Base.
Open Scope N_scope.

Record chunk := Ch { cdata : list N; crefs : N; ccreated : N }.
Record art := Art { achunks : list N; asize : N; asum : N }.
(* wall = every byte written so far (the state of the streaming hasher and total_size) *)
Record writer := Wr { wbuf : list N; wchunks : list N; wall : list N }.
Record st := St {
  chunks : list (N * chunk);
  arts : list (N * art);
  writers : list (N * writer);
  next_id : N;
  clock : N;
  seen : list (list N)       (* ghost: every byte string ever passed to store_chunk *)
}.
Definition init : st := St [] [] [] 0 1000000 [].

Definition E_NOTFOUND : N := 1.
Definition E_CHUNKMISSING : N := 2.
Definition E_EMPTY : N := 3.
Definition E_NOWRITER : N := 9.     (* harness never produces it: writer handles are linear *)

Inductive out :=
| RUnit
| RId (id : N)
| RErr (e : N)
| RBytes (d : list N)
| RBool (b : bool)
| RNums (l : list N).

Inductive op :=
| OPut (d : list N)
| OOpen
| OWrite (w : N) (d : list N)
| OFinish (w : N)
| ODelete (id : N)
| OGet (id : N)
| OExists (id : N)
| OGc (examined : list N)     (* the keys gc_cycle looks at: first batch_size keys of a scan *)
| OFullGc
| OVerify (id : N)
| ORepair
| OAdvance (secs : N)
| OStats.

(* ---------------------------------------------------------------- chunker *)
Fixpoint split_fuel (fuel n : nat) (d : list N) : list (list N) :=
  match fuel with
  | O => []
  | S f => match d with
           | [] => []
           | _ => firstn n d :: split_fuel f n (skipn n d)
           end
  end.
(* Chunker::chunk *)
Definition split (n : nat) (d : list N) : list (list N) := split_fuel (length d) n d.

(* the `while buffer.len() >= chunk_size { drain(..chunk_size) }` loop of BlobWriter::write *)
Fixpoint drain (fuel n : nat) (buf : list N) : list (list N) * list N :=
  match fuel with
  | O => ([], buf)
  | S f => if Nat.leb n (length buf)
           then let '(c, r) := drain f n (skipn n buf) in (firstn n buf :: c, r)
           else ([], buf)
  end.

Fixpoint count (k : N) (l : list N) : N :=
  match l with
  | [] => 0
  | x :: r => (if N.eqb x k then 1 else 0) + count k r
  end.
Definition mem (k : N) (l : list N) : bool := existsb (N.eqb k) l.

Section Model.
Variable hash : list N -> N.
Variable collectable : N -> N -> N -> bool.
Variable mincr : N -> N -> N.
Variable rdec rinc : N -> N.
Variable fgc_w rep_w : bool.
Variable cs : nat.
Variable min_age : N.

(* BlobWriter::store_chunk on the chunk table *)
Definition store_chunk_tbl (now : N) (cks : list (N * chunk)) (d : list N) : list (N * chunk) :=
  let k := hash d in
  match aget cks k with
  | Some c => aset cks k (Ch (cdata c) (rinc (crefs c)) (ccreated c))
  | None => aset cks k (Ch d 1 now)
  end.

Definition store_chunks_tbl (now : N) (cks : list (N * chunk)) (ps : list (list N)) : list (N * chunk) :=
  fold_left (store_chunk_tbl now) ps cks.

(* store the pieces `ps` on behalf of writer record `w` *)
Definition w_store (s : st) (w : writer) (ps : list (list N)) (buf' all' : list N) : st * writer :=
  (St (store_chunks_tbl (clock s) (chunks s) ps) (arts s) (writers s) (next_id s) (clock s) (rev ps ++ seen s),
   Wr buf' (wchunks w ++ map hash ps) all').

(* BlobWriter::write *)
Definition w_write (s : st) (w : writer) (d : list N) : st * writer :=
  let buf := wbuf w ++ d in
  let '(ps, r) := drain (length buf) cs buf in
  w_store s w ps r (wall w ++ d).

(* BlobWriter::finish: flush, then the artifact record *)
Definition w_finish (s : st) (id : N) (w : writer) : st :=
  let ps := match wbuf w with [] => [] | b => [b] end in
  let '(s1, w1) := w_store s w ps [] (wall w) in
  St (chunks s1) (aset (arts s1) id (Art (wchunks w1) (N.of_nat (length (wall w1))) (hash (wall w1))))
     (adel (writers s1) id) (next_id s1) (clock s1) (seen s1).

Definition new_writer : writer := Wr [] [] [].

(* decrement_chunk_refs *)
Definition dec_ref (cks : list (N * chunk)) (k : N) : list (N * chunk) :=
  match aget cks k with
  | Some c => aset cks k (Ch (cdata c) (rdec (crefs c)) (ccreated c))
  | None => cks
  end.

(* BlobReader::read_all / the chunk loop of verify_artifact *)
Fixpoint read_chunks (cks : list (N * chunk)) (ks : list N) : option (list N) :=
  match ks with
  | [] => Some []
  | k :: r => match aget cks k with
              | None => None
              | Some c => match read_chunks cks r with
                          | None => None
                          | Some d => Some (cdata c ++ d)
                          end
              end
  end.

Definition get (s : st) (id : N) : out :=
  match aget (arts s) id with
  | None => RErr E_NOTFOUND
  | Some a => match read_chunks (chunks s) (achunks a) with
              | None => RErr E_CHUNKMISSING
              | Some d => RBytes d
              end
  end.

Definition verify (s : st) (id : N) : out :=
  match aget (arts s) id with
  | None => RErr E_NOTFOUND
  | Some a => match read_chunks (chunks s) (achunks a) with
              | None => RErr E_CHUNKMISSING
              | Some d => RBool (N.eqb (hash d) (asum a))
              end
  end.

(* chunk keys referenced by finished artifacts / by in-flight writers *)
Definition art_refs (s : st) : list N := flat_map (fun p => achunks (snd p)) (arts s).
Definition wr_refs (s : st) : list N := flat_map (fun p => wchunks (snd p)) (writers s).

Definition sizes (l : list (N * chunk)) : N :=
  fold_left (fun a p => a + N.of_nat (length (cdata (snd p)))) l 0.
Definition nlen {A} (l : list A) : N := N.of_nat (length l).

(* gc_cycle over the examined keys: a chunk goes iff it is examined and the test holds *)
Definition gc_hit (now : N) (ks : list N) (p : N * chunk) : bool :=
  mem (fst p) ks && collectable (crefs (snd p)) (ccreated (snd p)) (mincr now min_age).
Definition gc_run (s : st) (ks : list N) : list (N * chunk) * (N * N) :=
  let gone := filter (gc_hit (clock s) ks) (chunks s) in
  (filter (fun p => negb (gc_hit (clock s) ks p)) (chunks s), (nlen gone, sizes gone)).

(* full_gc: every chunk whose key is not in the referenced set goes *)
Definition fgc_refs (s : st) : list N := art_refs s ++ (if fgc_w then wr_refs s else []).
Definition full_gc_run (s : st) : list (N * chunk) * (N * N) :=
  let refd := fgc_refs s in
  let gone := filter (fun p => negb (mem (fst p) refd)) (chunks s) in
  (filter (fun p => mem (fst p) refd) (chunks s), (nlen gone, sizes gone)).

(* integrity::repair: set every count to the recount, drop the chunks whose recount is 0 *)
Definition rep_refs (s : st) : list N := art_refs s ++ (if rep_w then wr_refs s else []).
Definition repair_run (s : st) : list (N * chunk) * (N * N) :=
  let refd := rep_refs s in
  (flat_map (fun p => let e := count (fst p) refd in
                      if N.eqb e 0 then [] else [(fst p, Ch (cdata (snd p)) e (ccreated (snd p)))]) (chunks s),
   (nlen (filter (fun p => negb (N.eqb (crefs (snd p)) (count (fst p) refd))) (chunks s)),
    nlen (filter (fun p => N.eqb (count (fst p) refd) 0) (chunks s)))).

Definition sum_map {A} (f : A -> N) (l : list A) : N := fold_left (fun a x => a + f x) l 0.

Definition step (s : st) (o : op) : st * out :=
  match o with
  | OPut d =>
      match d with
      | [] => (s, RErr E_EMPTY)
      | _ =>
        let id := next_id s in
        let s0 := St (chunks s) (arts s) (writers s) (id + 1) (clock s) (seen s) in
        let '(s1, w1) := w_write s0 new_writer d in
        (w_finish s1 id w1, RId id)
      end
  | OOpen =>
      let id := next_id s in
      (St (chunks s) (arts s) (aset (writers s) id new_writer) (id + 1) (clock s) (seen s), RId id)
  | OWrite w d =>
      match aget (writers s) w with
      | None => (s, RErr E_NOWRITER)
      | Some wr =>
        let '(s1, w1) := w_write s wr d in
        (St (chunks s1) (arts s1) (aset (writers s1) w w1) (next_id s1) (clock s1) (seen s1), RUnit)
      end
  | OFinish w =>
      match aget (writers s) w with
      | None => (s, RErr E_NOWRITER)
      | Some wr => (w_finish s w wr, RId w)
      end
  | ODelete id =>
      match aget (arts s) id with
      | None => (s, RErr E_NOTFOUND)
      | Some a =>
        (St (fold_left dec_ref (achunks a) (chunks s)) (adel (arts s) id) (writers s) (next_id s) (clock s) (seen s),
         RUnit)
      end
  | OGet id => (s, get s id)
  | OExists id => (s, RBool (match aget (arts s) id with Some _ => true | None => false end))
  | OGc ks =>
      let '(cks, (del, freed)) := gc_run s ks in
      (St cks (arts s) (writers s) (next_id s) (clock s) (seen s), RNums [del; freed])
  | OFullGc =>
      let '(cks, (del, freed)) := full_gc_run s in
      (St cks (arts s) (writers s) (next_id s) (clock s) (seen s), RNums [del; freed])
  | OVerify id => (s, verify s id)
  | ORepair =>
      let '(cks, (fixed, orph)) := repair_run s in
      (St cks (arts s) (writers s) (next_id s) (clock s) (seen s),
       RNums [N.of_nat (length (arts s)); N.of_nat (length (chunks s)); fixed; orph])
  | OAdvance d => (St (chunks s) (arts s) (writers s) (next_id s) (clock s + d) (seen s), RUnit)
  | OStats =>
      (s, RNums [N.of_nat (length (arts s)); N.of_nat (length (chunks s));
                 sum_map (fun p => asize (snd p)) (arts s);
                 sum_map (fun p => N.of_nat (length (cdata (snd p)))) (chunks s);
                 N.of_nat (length (filter (fun p => N.eqb (crefs (snd p)) 0) (chunks s)))])
  end.

Fixpoint run (s : st) (ops : list op) : st :=
  match ops with
  | [] => s
  | o :: r => run (fst (step s o)) r
  end.

(* damage, for the verify clause: done to the store behind the blob store's back *)
Definition alter_chunk (s : st) (k : N) (d : list N) : st :=
  match aget (chunks s) k with
  | Some c => St (aset (chunks s) k (Ch d (crefs c) (ccreated c))) (arts s) (writers s) (next_id s) (clock s) (seen s)
  | None => s
  end.
Definition remove_chunk (s : st) (k : N) : st :=
  St (adel (chunks s) k) (arts s) (writers s) (next_id s) (clock s) (seen s).

End Model.

(* ---------------------------------------------------------------- abstract specification:
   what the property says a blob store is -- artifacts are byte strings *)
Record spec := Sp { sarts : list (N * list N); swr : list (N * list N); snext : N }.
Definition sinit : spec := Sp [] [] 0.
Definition sstep (a : spec) (o : op) : spec :=
  match o with
  | OPut d => match d with
              | [] => a
              | _ => Sp (aset (sarts a) (snext a) d) (swr a) (snext a + 1)
              end
  | OOpen => Sp (sarts a) (aset (swr a) (snext a) []) (snext a + 1)
  | OWrite w d => match aget (swr a) w with
                  | Some x => Sp (sarts a) (aset (swr a) w (x ++ d)) (snext a)
                  | None => a
                  end
  | OFinish w => match aget (swr a) w with
                 | Some x => Sp (aset (sarts a) w x) (adel (swr a) w) (snext a)
                 | None => a
                 end
  | ODelete id => Sp (adel (sarts a) id) (swr a) (snext a)
  | _ => a
  end.
Fixpoint srun (a : spec) (ops : list op) : spec :=
  match ops with
  | [] => a
  | o :: r => srun (sstep a o) r
  end.
Definition sget (a : spec) (id : N) : out :=
  match aget (sarts a) id with
  | Some d => RBytes d
  | None => RErr E_NOTFOUND
  end.

(* ---------------------------------------------------------------- schedules
   With chunk_lock every store_chunk / finish-publish / delete_artifact / per-chunk gc test /
   full_gc / repair is one atomic step, so a concurrent execution of several clients is the
   sequential run of an interleaving of their programs (a streamed or one-shot write being the
   sequence of its per-chunk writes).  `interleave` merges per-thread programs along a schedule
   (a list of thread indices; exhausted or unknown threads are skipped). *)
Fixpoint take_nth {A} (n : nat) (l : list (list A)) : option (A * list (list A)) :=
  match l, n with
  | [], _ => None
  | [] :: t, O => None
  | (x :: r) :: t, O => Some (x, r :: t)
  | h :: t, S n' => match take_nth n' t with Some (x, t') => Some (x, h :: t') | None => None end
  end.
Fixpoint interleave (threads : list (list op)) (sched : list nat) : list op :=
  match sched with
  | [] => []
  | i :: r => match take_nth i threads with
              | Some (o, threads') => o :: interleave threads' r
              | None => interleave threads r
              end
  end.

(* The code BEFORE the repair, for one chunk key: store_chunk was `exists?` followed by
   `put(refs := 1)` or by get / put(refs + 1), each a separate store operation.  Micro-steps of
   client t: RSee (look the key up and remember the record), RAct (act on what was remembered). *)
Inductive rstep := RSee (t : N) | RAct (t : N).
(* state: the key's stored count (None = absent), what each client remembered, holders so far *)
Definition rstate := (option N * list (N * option N) * N)%type.
Definition rrun1 (s : rstate) (x : rstep) : rstate :=
  let '(rec, mem_, holders) := s in
  match x with
  | RSee t => (rec, aset mem_ t rec, holders)
  | RAct t => match aget mem_ t with
              | Some None => (Some 1, mem_, holders + 1)            (* saw no record: creates it with 1 *)
              | Some (Some r) => (Some (r + 1), mem_, holders + 1)   (* writes back remembered + 1 *)
              | None => s
              end
  end.
Definition rrun (xs : list rstep) : rstate := fold_left rrun1 xs (None, [], 0).

(* an injective stand-in for the digest, used only by the Examples of Props.v *)
Definition toy_hash (d : list N) : N := fold_left (fun a x => a * 256 + x + 1) d 0.
