(* C19/Proofs.v -- lemmas and main theorems over the blob-store model. *)
From NV.Common Require Import Base.
From NV.C19 Require Import Model.
Open Scope N_scope.
Arguments N.add : simpl never.
Arguments N.sub : simpl never.
Arguments N.mul : simpl never.
Arguments N.eqb : simpl never.
Arguments N.ltb : simpl never.
Arguments N.leb : simpl never.

(* ============================================================ A. the chunker *)

Lemma split_fuel_concat n : forall fuel d, (0 < n)%nat -> (length d <= fuel)%nat ->
  concat (split_fuel fuel n d) = d.
Proof.
  induction fuel as [|f IH]; intros d Hn Hl.
  - destruct d; [reflexivity|cbn in Hl; lia].
  - destruct d as [|x r]; [reflexivity|].
    cbn [split_fuel concat]. rewrite IH; [apply firstn_skipn|assumption|].
    rewrite skipn_length. cbn [length] in *. lia.
Qed.

Theorem split_concat n d : (0 < n)%nat -> concat (split n d) = d.
Proof. intros Hn. apply split_fuel_concat; [assumption|lia]. Qed.

Lemma split_fuel_indep n : forall f1 f2 d, (0 < n)%nat -> (length d <= f1)%nat -> (length d <= f2)%nat ->
  split_fuel f1 n d = split_fuel f2 n d.
Proof.
  induction f1 as [|f1 IH]; intros f2 d Hn H1 H2.
  - destruct d; [destruct f2; reflexivity|cbn in H1; lia].
  - destruct d as [|x r]; [destruct f2; reflexivity|].
    destruct f2 as [|f2]; [cbn in H2; lia|].
    cbn [split_fuel]. f_equal.
    assert (Hs : (length (skipn n (x :: r)) <= length r)%nat).
    { rewrite skipn_length. cbn [length]. lia. }
    cbn [length] in H1, H2. apply IH; [assumption|lia|lia].
Qed.

Lemma split_fuel_ge n fuel d : (0 < n)%nat -> (length d <= fuel)%nat ->
  split_fuel fuel n d = split_fuel (length d) n d.
Proof. intros. apply split_fuel_indep; [assumption|assumption|lia]. Qed.

(* every piece is non-empty and at most n long; every piece but the last is exactly n long *)
Lemma split_fuel_sizes n : forall fuel d, (0 < n)%nat -> (length d <= fuel)%nat ->
  Forall (fun p => (0 < length p <= n)%nat) (split_fuel fuel n d) /\
  forall ps q, split_fuel fuel n d = ps ++ [q] -> Forall (fun p => length p = n) ps.
Proof.
  induction fuel as [|f IH]; intros d Hn Hl.
  - destruct d; cbn; split; try constructor; intros ps q E; destruct ps; discriminate.
  - destruct d as [|x r].
    + cbn; split; [constructor|]. intros ps q E; destruct ps; discriminate.
    + cbn [split_fuel].
      assert (Hs : (length (skipn n (x :: r)) <= f)%nat).
      { rewrite skipn_length. cbn [length] in *. lia. }
      destruct (IH (skipn n (x :: r)) Hn Hs) as [IH1 IH2]. split.
      * constructor; [|exact IH1]. rewrite firstn_length. cbn [length]. lia.
      * intros ps q E. destruct ps as [|p ps']; [constructor|].
        cbn in E. injection E as E1 E2. constructor.
        -- subst p. rewrite firstn_length.
           (* the rest is non-empty, so the input was longer than n *)
           destruct (split_fuel f n (skipn n (x :: r))) eqn:Er; [destruct ps'; discriminate|].
           assert (Hne : skipn n (x :: r) <> []).
           { intro H0. rewrite H0 in Er. destruct f; discriminate. }
           assert ((n < length (x :: r))%nat).
           { destruct (Nat.lt_ge_cases n (length (x :: r))) as [|Hge]; [assumption|].
             exfalso. apply Hne. apply skipn_all2. exact Hge. }
           lia.
        -- eapply IH2. exact E2.
Qed.

Theorem split_sizes n d : (0 < n)%nat ->
  Forall (fun p => (0 < length p <= n)%nat) (split n d) /\
  forall ps q, split n d = ps ++ [q] -> Forall (fun p => length p = n) ps.
Proof. intros Hn. apply split_fuel_sizes; [assumption|lia]. Qed.

Lemma split_nil n : split n [] = [].
Proof. reflexivity. Qed.

Lemma split_full_app n p d : (0 < n)%nat -> length p = n -> split n (p ++ d) = p :: split n d.
Proof.
  intros Hn Hp. unfold split. destruct p as [|x p']; [cbn in Hp; lia|].
  cbn [app length split_fuel].
  change (x :: p' ++ d) with ((x :: p') ++ d).
  rewrite firstn_app, skipn_app. rewrite Hp, Nat.sub_diag. cbn [firstn skipn].
  rewrite firstn_all2 by lia. rewrite skipn_all2 by lia. rewrite !app_nil_r. cbn [app].
  f_equal. rewrite app_length. apply split_fuel_ge; [assumption|]. cbn [length] in Hp. lia.
Qed.

Lemma split_short n r : (0 < n)%nat -> (length r < n)%nat -> split n r = match r with [] => [] | _ => [r] end.
Proof.
  intros Hn Hr. unfold split. destruct r as [|x r']; [reflexivity|].
  cbn [length split_fuel] in *. rewrite firstn_all2 by (cbn [length]; lia).
  rewrite skipn_all2 by (cbn [length]; lia). destruct (length r'); reflexivity.
Qed.

(* full pieces followed by a short remainder are exactly the chunker's split *)
Lemma split_pieces n : forall ps r, (0 < n)%nat -> Forall (fun p => length p = n) ps -> (length r < n)%nat ->
  split n (concat ps ++ r) = ps ++ match r with [] => [] | _ => [r] end.
Proof.
  induction ps as [|p ps IH]; intros r Hn Hps Hr.
  - cbn. apply split_short; assumption.
  - pose proof (Forall_inv Hps) as Hp. pose proof (Forall_inv_tail Hps) as Hps'.
    cbn [concat]. rewrite <- app_assoc.
    rewrite split_full_app by assumption. cbn. f_equal. apply IH; assumption.
Qed.

(* the write loop: full pieces, short remainder, nothing lost *)
Lemma drain_spec n : forall fuel buf, (0 < n)%nat -> (length buf <= fuel)%nat ->
  let '(ps, r) := drain fuel n buf in
  concat ps ++ r = buf /\ Forall (fun p => length p = n) ps /\ (length r < n)%nat.
Proof.
  induction fuel as [|f IH]; intros buf Hn Hl.
  - destruct buf; [|cbn in Hl; lia]. cbn. repeat split; [constructor|lia].
  - cbn [drain]. destruct (Nat.leb n (length buf)) eqn:E.
    + apply Nat.leb_le in E.
      specialize (IH (skipn n buf) Hn).
      destruct (drain f n (skipn n buf)) as [c r].
      destruct IH as (H1 & H2 & H3); [rewrite skipn_length; lia|].
      repeat split.
      * cbn [concat]. rewrite <- app_assoc, H1. apply firstn_skipn.
      * constructor; [|assumption]. rewrite firstn_length. lia.
      * assumption.
    + apply Nat.leb_gt in E. cbn. repeat split; [constructor|assumption].
Qed.

(* ============================================================ B. counting and association lists *)

Lemma count_app k l1 l2 : count k (l1 ++ l2) = count k l1 + count k l2.
Proof. induction l1 as [|x r IH]; cbn [count app]; [reflexivity|rewrite IH; lia]. Qed.

Lemma mem_count k l : mem k l = true <-> 0 < count k l.
Proof.
  unfold mem. induction l as [|x r IH]; cbn [existsb count].
  - split; [discriminate|lia].
  - rewrite orb_true_iff, IH. rewrite (N.eqb_sym k x).
    destruct (N.eqb x k).
    + split; [lia|auto].
    + split; [intros [H|H]; [discriminate|lia]|intros H; right; lia].
Qed.

Lemma mem_false_count k l : mem k l = false <-> count k l = 0.
Proof.
  destruct (mem k l) eqn:E.
  - apply mem_count in E. split; [discriminate|lia].
  - split; [intros _|reflexivity]. destruct (N.eq_dec (count k l) 0) as [|Hn]; [assumption|].
    assert (H : mem k l = true) by (apply mem_count; lia). congruence.
Qed.

Lemma count_in k l : 0 < count k l <-> In k l.
Proof.
  induction l as [|x r IH]; cbn [count In]; [split; [lia|tauto]|].
  destruct (N.eqb_spec x k) as [->|Hne].
  - split; [auto|lia].
  - rewrite <- IH. split; [intros; right; lia|intros [H|H]; [congruence|lia]].
Qed.

Section AssocLemmas.
Context {V : Type}.
Implicit Types (l : list (N * V)) (k : N) (v : V).

Definition keys l : list N := map fst l.

Lemma aget_none l k : aget l k = None <-> ~ In k (keys l).
Proof.
  induction l as [|[k0 v0] r IH]; cbn; [tauto|].
  destruct (N.eqb_spec k0 k) as [->|Hne].
  - split; [discriminate|intros H; exfalso; apply H; auto].
  - rewrite IH. split; [intros H [E|E]; [congruence|auto]|intros H E; apply H; auto].
Qed.

Lemma aget_in l k v : aget l k = Some v -> In (k, v) l.
Proof.
  induction l as [|[k0 v0] r IH]; cbn; [discriminate|].
  destruct (N.eqb_spec k0 k) as [->|Hne]; [intros [= ->]; auto|auto].
Qed.

Lemma aget_some_key l k v : aget l k = Some v -> In k (keys l).
Proof. intros H. apply aget_in in H. apply (in_map fst) in H. exact H. Qed.

Lemma in_aget l k v : NoDup (keys l) -> In (k, v) l -> aget l k = Some v.
Proof.
  induction l as [|[k0 v0] r IH]; cbn; [tauto|]. intros Hnd [E|E].
  - injection E as -> ->. rewrite N.eqb_refl. reflexivity.
  - inversion Hnd as [|? ? Hni Hnd']; subst.
    destruct (N.eqb_spec k0 k) as [->|Hne]; [|auto].
    exfalso. apply Hni. apply (in_map fst) in E. exact E.
Qed.

Lemma keys_aset l k v k' : In k' (keys (aset l k v)) <-> k' = k \/ In k' (keys l).
Proof.
  induction l as [|[k0 v0] r IH]; cbn; [intuition|].
  destruct (N.eqb_spec k0 k) as [->|Hne]; cbn; [intuition|]. rewrite IH. intuition.
Qed.

Lemma keys_adel l k k' : In k' (keys (adel l k)) <-> k' <> k /\ In k' (keys l).
Proof.
  induction l as [|[k0 v0] r IH]; cbn; [intuition|].
  destruct (N.eqb_spec k0 k) as [->|Hne]; cbn; rewrite IH; intuition; subst; intuition.
Qed.

Lemma nodup_aset l k v : NoDup (keys l) -> NoDup (keys (aset l k v)).
Proof.
  induction l as [|[k0 v0] r IH]; cbn; intros Hnd.
  - constructor; [intros []|constructor].
  - inversion Hnd as [|? ? Hni Hnd']; subst.
    destruct (N.eqb_spec k0 k) as [->|Hne]; cbn.
    + constructor; assumption.
    + constructor; [|auto]. intros H. apply keys_aset in H. destruct H; [congruence|auto].
Qed.

Lemma nodup_adel l k : NoDup (keys l) -> NoDup (keys (adel l k)).
Proof.
  induction l as [|[k0 v0] r IH]; cbn; intros Hnd; [constructor|].
  inversion Hnd as [|? ? Hni Hnd']; subst.
  destruct (N.eqb_spec k0 k) as [->|Hne]; cbn; [auto|].
  constructor; [|auto]. intros H. apply keys_adel in H. tauto.
Qed.

Lemma aset_new l k v : aget l k = None -> aset l k v = l ++ [(k, v)].
Proof.
  induction l as [|[k0 v0] r IH]; cbn; [reflexivity|].
  destruct (N.eqb_spec k0 k) as [->|Hne]; [discriminate|]. intros H. rewrite IH by assumption. reflexivity.
Qed.

Lemma adel_absent l k : aget l k = None -> adel l k = l.
Proof.
  induction l as [|[k0 v0] r IH]; cbn; [reflexivity|].
  destruct (N.eqb_spec k0 k) as [->|Hne]; [discriminate|]. intros H. rewrite IH by assumption. reflexivity.
Qed.

Lemma keys_filter (f : N * V -> bool) l k : In k (keys (filter f l)) -> In k (keys l).
Proof.
  unfold keys. rewrite !in_map_iff. intros [p [E H]]. apply filter_In in H. exists p. tauto.
Qed.

Lemma nodup_filter (f : N * V -> bool) l : NoDup (keys l) -> NoDup (keys (filter f l)).
Proof.
  induction l as [|p r IH]; cbn; intros Hnd; [constructor|].
  inversion Hnd as [|? ? Hni Hnd']; subst.
  destruct (f p); cbn; [constructor; [|auto]|auto].
  intros H. apply keys_filter in H. auto.
Qed.

Lemma aget_filter (f : N * V -> bool) l k : NoDup (keys l) ->
  aget (filter f l) k = match aget l k with Some v => if f (k, v) then Some v else None | None => None end.
Proof.
  induction l as [|[k0 v0] r IH]; cbn; intros Hnd; [reflexivity|].
  inversion Hnd as [|? ? Hni Hnd']; subst.
  destruct (N.eqb_spec k0 k) as [->|Hne].
  - destruct (f (k, v0)) eqn:Ef; cbn; [rewrite N.eqb_refl; reflexivity|].
    apply aget_none. intros H. apply keys_filter in H. auto.
  - destruct (f (k0, v0)); cbn; [|auto].
    destruct (N.eqb_spec k0 k); [congruence|auto].
Qed.

(* references held by the records of a table *)
Definition refs_of (f : V -> list N) l : list N := flat_map (fun p => f (snd p)) l.

Lemma cnt_aset_new f l id v k : aget l id = None ->
  count k (refs_of f (aset l id v)) = count k (refs_of f l) + count k (f v).
Proof.
  intros H. rewrite aset_new by assumption. unfold refs_of. rewrite flat_map_app, count_app.
  cbn. rewrite app_nil_r. reflexivity.
Qed.

Lemma cnt_adel f l id a k : NoDup (keys l) -> aget l id = Some a ->
  count k (refs_of f (adel l id)) + count k (f a) = count k (refs_of f l).
Proof.
  induction l as [|[k0 v0] r IH]; cbn; [discriminate|]. intros Hnd.
  inversion Hnd as [|? ? Hni Hnd']; subst.
  destruct (N.eqb_spec k0 id) as [->|Hne].
  - intros [= ->]. rewrite count_app. rewrite adel_absent by (apply aget_none; assumption).
    fold (refs_of f r). lia.
  - intros H. cbn. rewrite !count_app. fold (refs_of f r) (refs_of f (adel r id)).
    specialize (IH Hnd' H). lia.
Qed.

Lemma cnt_aset_upd f l id a v k : NoDup (keys l) -> aget l id = Some a ->
  count k (refs_of f (aset l id v)) + count k (f a) = count k (refs_of f l) + count k (f v).
Proof.
  induction l as [|[k0 v0] r IH]; cbn; [discriminate|]. intros Hnd.
  inversion Hnd as [|? ? Hni Hnd']; subst.
  destruct (N.eqb_spec k0 id) as [->|Hne].
  - intros [= ->]. cbn. rewrite !count_app. lia.
  - intros H. cbn. rewrite !count_app. fold (refs_of f r) (refs_of f (aset r id v)).
    specialize (IH Hnd' H). lia.
Qed.

Lemma cnt_in f l id a k : aget l id = Some a -> count k (f a) <= count k (refs_of f l).
Proof.
  induction l as [|[k0 v0] r IH]; cbn; [discriminate|].
  destruct (N.eqb_spec k0 id) as [->|Hne]; rewrite count_app.
  - intros [= ->]. lia.
  - intros H. specialize (IH H). unfold refs_of in IH. lia.
Qed.
End AssocLemmas.
