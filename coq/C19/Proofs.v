(* C19/Proofs.v -- lemmas and main theorems over the blob-store model. *)
From NV.Common Require Import Base.
From NV.C19 Require Import Model.
Open Scope N_scope.
Arguments N.add : simpl never.
Arguments N.sub : simpl never.
Arguments N.mul : simpl never.
Arguments N.eqb : simpl never.
Arguments N.ltb : simpl never.
Arguments N.leb : simpl never.

(* ============================================================ A. the chunker *)

Lemma split_fuel_concat n : forall fuel d, (0 < n)%nat -> (length d <= fuel)%nat ->
  concat (split_fuel fuel n d) = d.
Proof.
  induction fuel as [|f IH]; intros d Hn Hl.
  - destruct d; [reflexivity|cbn in Hl; lia].
  - destruct d as [|x r]; [reflexivity|].
    cbn [split_fuel concat]. rewrite IH; [apply firstn_skipn|assumption|].
    rewrite skipn_length. cbn [length] in *. lia.
Qed.

Theorem split_concat n d : (0 < n)%nat -> concat (split n d) = d.
Proof. intros Hn. apply split_fuel_concat; [assumption|lia]. Qed.

Lemma split_fuel_indep n : forall f1 f2 d, (0 < n)%nat -> (length d <= f1)%nat -> (length d <= f2)%nat ->
  split_fuel f1 n d = split_fuel f2 n d.
Proof.
  induction f1 as [|f1 IH]; intros f2 d Hn H1 H2.
  - destruct d; [destruct f2; reflexivity|cbn in H1; lia].
  - destruct d as [|x r]; [destruct f2; reflexivity|].
    destruct f2 as [|f2]; [cbn in H2; lia|].
    cbn [split_fuel]. f_equal.
    assert (Hs : (length (skipn n (x :: r)) <= length r)%nat).
    { rewrite skipn_length. cbn [length]. lia. }
    cbn [length] in H1, H2. apply IH; [assumption|lia|lia].
Qed.

Lemma split_fuel_ge n fuel d : (0 < n)%nat -> (length d <= fuel)%nat ->
  split_fuel fuel n d = split_fuel (length d) n d.
Proof. intros. apply split_fuel_indep; [assumption|assumption|lia]. Qed.

(* every piece is non-empty and at most n long; every piece but the last is exactly n long *)
Lemma split_fuel_sizes n : forall fuel d, (0 < n)%nat -> (length d <= fuel)%nat ->
  Forall (fun p => (0 < length p <= n)%nat) (split_fuel fuel n d) /\
  forall ps q, split_fuel fuel n d = ps ++ [q] -> Forall (fun p => length p = n) ps.
Proof.
  induction fuel as [|f IH]; intros d Hn Hl.
  - destruct d; cbn; split; try constructor; intros ps q E; destruct ps; discriminate.
  - destruct d as [|x r].
    + cbn; split; [constructor|]. intros ps q E; destruct ps; discriminate.
    + cbn [split_fuel].
      assert (Hs : (length (skipn n (x :: r)) <= f)%nat).
      { rewrite skipn_length. cbn [length] in *. lia. }
      destruct (IH (skipn n (x :: r)) Hn Hs) as [IH1 IH2]. split.
      * constructor; [|exact IH1]. rewrite firstn_length. cbn [length]. lia.
      * intros ps q E. destruct ps as [|p ps']; [constructor|].
        cbn in E. injection E as E1 E2. constructor.
        -- subst p. rewrite firstn_length.
           (* the rest is non-empty, so the input was longer than n *)
           destruct (split_fuel f n (skipn n (x :: r))) eqn:Er; [destruct ps'; discriminate|].
           assert (Hne : skipn n (x :: r) <> []).
           { intro H0. rewrite H0 in Er. destruct f; discriminate. }
           assert ((n < length (x :: r))%nat).
           { destruct (Nat.lt_ge_cases n (length (x :: r))) as [|Hge]; [assumption|].
             exfalso. apply Hne. apply skipn_all2. exact Hge. }
           lia.
        -- eapply IH2. exact E2.
Qed.

Theorem split_sizes n d : (0 < n)%nat ->
  Forall (fun p => (0 < length p <= n)%nat) (split n d) /\
  forall ps q, split n d = ps ++ [q] -> Forall (fun p => length p = n) ps.
Proof. intros Hn. apply split_fuel_sizes; [assumption|lia]. Qed.

Lemma split_nil n : split n [] = [].
Proof. reflexivity. Qed.

Lemma split_full_app n p d : (0 < n)%nat -> length p = n -> split n (p ++ d) = p :: split n d.
Proof.
  intros Hn Hp. unfold split. destruct p as [|x p']; [cbn in Hp; lia|].
  cbn [app length split_fuel].
  change (x :: p' ++ d) with ((x :: p') ++ d).
  rewrite firstn_app, skipn_app. rewrite Hp, Nat.sub_diag. cbn [firstn skipn].
  rewrite firstn_all2 by lia. rewrite skipn_all2 by lia. rewrite !app_nil_r. cbn [app].
  f_equal. rewrite app_length. apply split_fuel_ge; [assumption|]. cbn [length] in Hp. lia.
Qed.

Lemma split_short n r : (0 < n)%nat -> (length r < n)%nat -> split n r = match r with [] => [] | _ => [r] end.
Proof.
  intros Hn Hr. unfold split. destruct r as [|x r']; [reflexivity|].
  cbn [length split_fuel] in *. rewrite firstn_all2 by (cbn [length]; lia).
  rewrite skipn_all2 by (cbn [length]; lia). destruct (length r'); reflexivity.
Qed.

(* full pieces followed by a short remainder are exactly the chunker's split *)
Lemma split_pieces n : forall ps r, (0 < n)%nat -> Forall (fun p => length p = n) ps -> (length r < n)%nat ->
  split n (concat ps ++ r) = ps ++ match r with [] => [] | _ => [r] end.
Proof.
  induction ps as [|p ps IH]; intros r Hn Hps Hr.
  - cbn. apply split_short; assumption.
  - pose proof (Forall_inv Hps) as Hp. pose proof (Forall_inv_tail Hps) as Hps'.
    cbn [concat]. rewrite <- app_assoc.
    rewrite split_full_app by assumption. cbn. f_equal. apply IH; assumption.
Qed.

(* the write loop: full pieces, short remainder, nothing lost *)
Lemma drain_spec n : forall fuel buf, (0 < n)%nat -> (length buf <= fuel)%nat ->
  let '(ps, r) := drain fuel n buf in
  concat ps ++ r = buf /\ Forall (fun p => length p = n) ps /\ (length r < n)%nat.
Proof.
  induction fuel as [|f IH]; intros buf Hn Hl.
  - destruct buf; [|cbn in Hl; lia]. cbn. repeat split; [constructor|lia].
  - cbn [drain]. destruct (Nat.leb n (length buf)) eqn:E.
    + apply Nat.leb_le in E.
      specialize (IH (skipn n buf) Hn).
      destruct (drain f n (skipn n buf)) as [c r].
      destruct IH as (H1 & H2 & H3); [rewrite skipn_length; lia|].
      repeat split.
      * cbn [concat]. rewrite <- app_assoc, H1. apply firstn_skipn.
      * constructor; [|assumption]. rewrite firstn_length. lia.
      * assumption.
    + apply Nat.leb_gt in E. cbn. repeat split; [constructor|assumption].
Qed.

(* ============================================================ B. counting and association lists *)

Lemma count_app k l1 l2 : count k (l1 ++ l2) = count k l1 + count k l2.
Proof. induction l1 as [|x r IH]; cbn [count app]; [reflexivity|rewrite IH; lia]. Qed.

Lemma mem_count k l : mem k l = true <-> 0 < count k l.
Proof.
  unfold mem. induction l as [|x r IH]; cbn [existsb count].
  - split; [discriminate|lia].
  - rewrite orb_true_iff, IH. rewrite (N.eqb_sym k x).
    destruct (N.eqb x k).
    + split; [lia|auto].
    + split; [intros [H|H]; [discriminate|lia]|intros H; right; lia].
Qed.

Lemma mem_false_count k l : mem k l = false <-> count k l = 0.
Proof.
  destruct (mem k l) eqn:E.
  - apply mem_count in E. split; [discriminate|lia].
  - split; [intros _|reflexivity]. destruct (N.eq_dec (count k l) 0) as [|Hn]; [assumption|].
    assert (H : mem k l = true) by (apply mem_count; lia). congruence.
Qed.

Lemma count_in k l : 0 < count k l <-> In k l.
Proof.
  induction l as [|x r IH]; cbn [count In]; [split; [lia|tauto]|].
  destruct (N.eqb_spec x k) as [->|Hne].
  - split; [auto|lia].
  - rewrite <- IH. split; [intros; right; lia|intros [H|H]; [congruence|lia]].
Qed.

Section AssocLemmas.
Context {V : Type}.
Implicit Types (l : list (N * V)) (k : N) (v : V).

Definition keys l : list N := map fst l.

Lemma aget_none l k : aget l k = None <-> ~ In k (keys l).
Proof.
  induction l as [|[k0 v0] r IH]; cbn; [tauto|].
  destruct (N.eqb_spec k0 k) as [->|Hne].
  - split; [discriminate|intros H; exfalso; apply H; auto].
  - rewrite IH. split; [intros H [E|E]; [congruence|auto]|intros H E; apply H; auto].
Qed.

Lemma aget_in l k v : aget l k = Some v -> In (k, v) l.
Proof.
  induction l as [|[k0 v0] r IH]; cbn; [discriminate|].
  destruct (N.eqb_spec k0 k) as [->|Hne]; [intros [= ->]; auto|auto].
Qed.

Lemma aget_some_key l k v : aget l k = Some v -> In k (keys l).
Proof. intros H. apply aget_in in H. apply (in_map fst) in H. exact H. Qed.

Lemma in_aget l k v : NoDup (keys l) -> In (k, v) l -> aget l k = Some v.
Proof.
  induction l as [|[k0 v0] r IH]; cbn; [tauto|]. intros Hnd [E|E].
  - injection E as -> ->. rewrite N.eqb_refl. reflexivity.
  - inversion Hnd as [|? ? Hni Hnd']; subst.
    destruct (N.eqb_spec k0 k) as [->|Hne]; [|auto].
    exfalso. apply Hni. apply (in_map fst) in E. exact E.
Qed.

Lemma keys_aset l k v k' : In k' (keys (aset l k v)) <-> k' = k \/ In k' (keys l).
Proof.
  induction l as [|[k0 v0] r IH]; cbn; [intuition|].
  destruct (N.eqb_spec k0 k) as [->|Hne]; cbn; [intuition|]. rewrite IH. intuition.
Qed.

Lemma keys_adel l k k' : In k' (keys (adel l k)) <-> k' <> k /\ In k' (keys l).
Proof.
  induction l as [|[k0 v0] r IH]; cbn; [intuition|].
  destruct (N.eqb_spec k0 k) as [->|Hne]; cbn; rewrite IH; intuition; subst; intuition.
Qed.

Lemma nodup_aset l k v : NoDup (keys l) -> NoDup (keys (aset l k v)).
Proof.
  induction l as [|[k0 v0] r IH]; cbn; intros Hnd.
  - constructor; [intros []|constructor].
  - inversion Hnd as [|? ? Hni Hnd']; subst.
    destruct (N.eqb_spec k0 k) as [->|Hne]; cbn.
    + constructor; assumption.
    + constructor; [|auto]. intros H. apply keys_aset in H. destruct H; [congruence|auto].
Qed.

Lemma nodup_adel l k : NoDup (keys l) -> NoDup (keys (adel l k)).
Proof.
  induction l as [|[k0 v0] r IH]; cbn; intros Hnd; [constructor|].
  inversion Hnd as [|? ? Hni Hnd']; subst.
  destruct (N.eqb_spec k0 k) as [->|Hne]; cbn; [auto|].
  constructor; [|auto]. intros H. apply keys_adel in H. tauto.
Qed.

Lemma aset_new l k v : aget l k = None -> aset l k v = l ++ [(k, v)].
Proof.
  induction l as [|[k0 v0] r IH]; cbn; [reflexivity|].
  destruct (N.eqb_spec k0 k) as [->|Hne]; [discriminate|]. intros H. rewrite IH by assumption. reflexivity.
Qed.

Lemma adel_absent l k : aget l k = None -> adel l k = l.
Proof.
  induction l as [|[k0 v0] r IH]; cbn; [reflexivity|].
  destruct (N.eqb_spec k0 k) as [->|Hne]; [discriminate|]. intros H. rewrite IH by assumption. reflexivity.
Qed.

Lemma keys_filter (f : N * V -> bool) l k : In k (keys (filter f l)) -> In k (keys l).
Proof.
  unfold keys. rewrite !in_map_iff. intros [p [E H]]. apply filter_In in H. exists p. tauto.
Qed.

Lemma nodup_filter (f : N * V -> bool) l : NoDup (keys l) -> NoDup (keys (filter f l)).
Proof.
  induction l as [|p r IH]; cbn; intros Hnd; [constructor|].
  inversion Hnd as [|? ? Hni Hnd']; subst.
  destruct (f p); cbn; [constructor; [|auto]|auto].
  intros H. apply keys_filter in H. auto.
Qed.

Lemma aget_filter (f : N * V -> bool) l k : NoDup (keys l) ->
  aget (filter f l) k = match aget l k with Some v => if f (k, v) then Some v else None | None => None end.
Proof.
  induction l as [|[k0 v0] r IH]; cbn; intros Hnd; [reflexivity|].
  inversion Hnd as [|? ? Hni Hnd']; subst.
  destruct (N.eqb_spec k0 k) as [->|Hne].
  - destruct (f (k, v0)) eqn:Ef; cbn; [rewrite N.eqb_refl; reflexivity|].
    apply aget_none. intros H. apply keys_filter in H. auto.
  - destruct (f (k0, v0)); cbn; [|auto].
    destruct (N.eqb_spec k0 k); [congruence|auto].
Qed.

(* references held by the records of a table *)
Definition refs_of (f : V -> list N) l : list N := flat_map (fun p => f (snd p)) l.

Lemma cnt_aset_new f l id v k : aget l id = None ->
  count k (refs_of f (aset l id v)) = count k (refs_of f l) + count k (f v).
Proof.
  intros H. rewrite aset_new by assumption. unfold refs_of. rewrite flat_map_app, count_app.
  cbn. rewrite app_nil_r. reflexivity.
Qed.

Lemma cnt_adel f l id a k : NoDup (keys l) -> aget l id = Some a ->
  count k (refs_of f (adel l id)) + count k (f a) = count k (refs_of f l).
Proof.
  induction l as [|[k0 v0] r IH]; cbn; [discriminate|]. intros Hnd.
  inversion Hnd as [|? ? Hni Hnd']; subst.
  destruct (N.eqb_spec k0 id) as [->|Hne].
  - intros [= ->]. rewrite count_app. rewrite adel_absent by (apply aget_none; assumption).
    fold (refs_of f r). lia.
  - intros H. cbn. rewrite !count_app. fold (refs_of f r) (refs_of f (adel r id)).
    specialize (IH Hnd' H). lia.
Qed.

Lemma cnt_aset_upd f l id a v k : NoDup (keys l) -> aget l id = Some a ->
  count k (refs_of f (aset l id v)) + count k (f a) = count k (refs_of f l) + count k (f v).
Proof.
  induction l as [|[k0 v0] r IH]; cbn; [discriminate|]. intros Hnd.
  inversion Hnd as [|? ? Hni Hnd']; subst.
  destruct (N.eqb_spec k0 id) as [->|Hne].
  - intros [= ->]. cbn. rewrite !count_app. lia.
  - intros H. cbn. rewrite !count_app. fold (refs_of f r) (refs_of f (aset r id v)).
    specialize (IH Hnd' H). lia.
Qed.

Lemma cnt_in f l id a k : aget l id = Some a -> count k (f a) <= count k (refs_of f l).
Proof.
  induction l as [|[k0 v0] r IH]; cbn; [discriminate|].
  destruct (N.eqb_spec k0 id) as [->|Hne]; rewrite count_app.
  - intros [= ->]. lia.
  - intros H. specialize (IH H). unfold refs_of in IH. lia.
Qed.
End AssocLemmas.

(* ============================================================ C. the chunk table *)
Section TableProofs.
Variable hash : list N -> N.
Variable rdec rinc : N -> N.
Hypothesis Hdec : forall r, rdec r = r - 1.
Hypothesis Hinc : forall r, rinc r = r + 1.

Notation store1 := (store_chunk_tbl hash rinc).
Notation storeN := (store_chunks_tbl hash rinc).
Notation dec1 := (dec_ref rdec).

Lemma store_chunks_get now : forall ps cks k,
  aget (storeN now cks ps) k =
  match aget cks k with
  | Some c => Some (Ch (cdata c) (crefs c + count k (map hash ps)) (ccreated c))
  | None => match find (fun p => N.eqb (hash p) k) ps with
            | Some p => Some (Ch p (count k (map hash ps)) now)
            | None => None
            end
  end.
Proof.
  induction ps as [|p r IH]; intros cks k; cbn [store_chunks_tbl fold_left map count find].
  - destruct (aget cks k) as [c|]; [|reflexivity]. destruct c; cbn. rewrite N.add_0_r. reflexivity.
  - fold (storeN now (store1 now cks p) r). rewrite IH. unfold store_chunk_tbl.
    destruct (aget cks (hash p)) as [c0|] eqn:E0; rewrite aget_aset.
    + destruct (N.eqb_spec (hash p) k) as [<-|Hne].
      * rewrite E0. cbn [cdata crefs ccreated]. rewrite Hinc. f_equal. f_equal. lia.
      * destruct (aget cks k) as [c|]; [f_equal; f_equal; lia|]. reflexivity.
    + destruct (N.eqb_spec (hash p) k) as [<-|Hne].
      * rewrite E0. cbn [cdata crefs ccreated]. reflexivity.
      * destruct (aget cks k) as [c|]; [f_equal; f_equal; lia|].
        destruct (find (fun p0 => N.eqb (hash p0) k) r); [f_equal; f_equal; lia|reflexivity].
Qed.

Lemma store_chunks_nodup now : forall ps cks, NoDup (keys cks) -> NoDup (keys (storeN now cks ps)).
Proof.
  induction ps as [|p r IH]; intros cks H; cbn [store_chunks_tbl fold_left]; [exact H|].
  apply IH. unfold store_chunk_tbl. destruct (aget cks (hash p)); apply nodup_aset; exact H.
Qed.

Lemma dec_fold_get : forall ks cks k,
  aget (fold_left dec1 ks cks) k =
  match aget cks k with
  | Some c => Some (Ch (cdata c) (crefs c - count k ks) (ccreated c))
  | None => None
  end.
Proof.
  induction ks as [|x r IH]; intros cks k; cbn [fold_left count].
  - destruct (aget cks k) as [c|]; [|reflexivity]. destruct c; cbn. rewrite N.sub_0_r. reflexivity.
  - rewrite IH. unfold dec_ref. destruct (aget cks x) as [c0|] eqn:E0.
    + rewrite aget_aset. destruct (N.eqb_spec x k) as [<-|Hne].
      * rewrite E0. cbn [cdata crefs ccreated]. rewrite Hdec. f_equal. f_equal. lia.
      * destruct (aget cks k); [f_equal; f_equal; lia|reflexivity].
    + destruct (N.eqb_spec x k) as [<-|Hne].
      * rewrite E0. reflexivity.
      * destruct (aget cks k); [f_equal; f_equal; lia|reflexivity].
Qed.

Lemma dec_fold_nodup : forall ks cks, NoDup (keys cks) -> NoDup (keys (fold_left dec1 ks cks)).
Proof.
  induction ks as [|x r IH]; intros cks H; cbn [fold_left]; [exact H|].
  apply IH. unfold dec_ref. destruct (aget cks x); [apply nodup_aset|]; exact H.
Qed.

(* repair's rewrite of the table *)
Lemma repair_get refd : forall cks k, NoDup (keys cks) ->
  aget (flat_map (fun p : N * chunk => let e := count (fst p) refd in
                    if N.eqb e 0 then [] else [(fst p, Ch (cdata (snd p)) e (ccreated (snd p)))]) cks) k =
  match aget cks k with
  | Some c => if N.eqb (count k refd) 0 then None else Some (Ch (cdata c) (count k refd) (ccreated c))
  | None => None
  end.
Proof.
  induction cks as [|[k0 c0] r IH]; intros k Hnd; cbn [flat_map aget fst snd]; [reflexivity|].
  inversion Hnd as [|? ? Hni Hnd']; subst.
  destruct (N.eqb_spec k0 k) as [->|Hne].
  - destruct (N.eqb (count k refd) 0) eqn:E; cbn [app aget].
    + rewrite IH by assumption. destruct (aget r k) eqn:Er; [|reflexivity].
      exfalso. apply Hni. eapply aget_some_key. exact Er.
    + rewrite N.eqb_refl. reflexivity.
  - destruct (N.eqb (count k0 refd) 0); cbn [app aget]; [apply IH; assumption|].
    destruct (N.eqb_spec k0 k); [congruence|apply IH; assumption].
Qed.

Lemma repair_nodup refd : forall cks, NoDup (keys cks) ->
  NoDup (keys (flat_map (fun p : N * chunk => let e := count (fst p) refd in
                    if N.eqb e 0 then [] else [(fst p, Ch (cdata (snd p)) e (ccreated (snd p)))]) cks)).
Proof.
  induction cks as [|[k0 c0] r IH]; intros Hnd; cbn [flat_map fst snd]; [constructor|].
  inversion Hnd as [|? ? Hni Hnd']; subst.
  destruct (N.eqb (count k0 refd) 0); cbn [app]; [auto|].
  cbn [keys map fst]. constructor; [|apply IH; assumption].
  intros Hin. apply Hni. unfold keys in *. rewrite in_map_iff in *. destruct Hin as [[k' c'] [E Hin]].
  cbn in E. subst k'. apply in_flat_map in Hin. destruct Hin as [[k1 c1] [Hin1 H1]]. cbn in H1.
  destruct (N.eqb (count k1 refd) 0); [contradiction|]. destruct H1 as [H1|[]]. injection H1 as -> _.
  exists (k0, c1). split; [reflexivity|exact Hin1].
Qed.
End TableProofs.

(* ============================================================ D. the reference-count invariant *)
Section InvProofs.
Variable hash : list N -> N.
Variable collectable : N -> N -> N -> bool.
Variable mincr : N -> N -> N.
Variable rdec rinc : N -> N.
Variable fgc_w rep_w : bool.
Variable cs : nat.
Variable min_age : N.
Hypothesis Hcs : (0 < cs)%nat.
Hypothesis Hcoll : forall r c m, collectable r c m = true -> r = 0.
Hypothesis Hdec : forall r, rdec r = r - 1.
Hypothesis Hinc : forall r, rinc r = r + 1.
Hypothesis Hfgc : fgc_w = true.
Hypothesis Hrep : rep_w = true.

Notation stepm := (step hash collectable mincr rdec rinc fgc_w rep_w cs min_age).
Notation runm := (run hash collectable mincr rdec rinc fgc_w rep_w cs min_age).
Notation storeN := (store_chunks_tbl hash rinc).

(* occurrences of a chunk key in the artifact records and in the unfinished writers *)
Definition occ2 (ar : list (N * art)) (wr : list (N * writer)) (k : N) : N :=
  count k (refs_of achunks ar) + count k (refs_of wchunks wr).
Definition occ (s : st) (k : N) : N := occ2 (arts s) (writers s) k.

Record Inv (s : st) : Prop := {
  i_nd_c : NoDup (keys (chunks s));
  i_nd_a : NoDup (keys (arts s));
  i_nd_w : NoDup (keys (writers s));
  i_fresh_a : forall id, next_id s <= id -> aget (arts s) id = None;
  i_fresh_w : forall id, next_id s <= id -> aget (writers s) id = None;
  i_disj : forall id w, aget (writers s) id = Some w -> aget (arts s) id = None;
  i_hash : forall k c, aget (chunks s) k = Some c -> hash (cdata c) = k /\ In (cdata c) (seen s);
  i_refs : forall k c, aget (chunks s) k = Some c -> crefs c = occ s k;
  i_live : forall k, 0 < occ s k -> aget (chunks s) k <> None
}.

Lemma Inv_init : Inv init.
Proof.
  constructor; cbn; try constructor; try discriminate; try reflexivity.
Qed.

Lemma find_hash_some ps k p : find (fun p0 : list N => N.eqb (hash p0) k) ps = Some p -> hash p = k /\ In p ps.
Proof. intros H. apply find_some in H. destruct H as [Hin He]. apply N.eqb_eq in He. tauto. Qed.

Lemma find_hash_none ps k : find (fun p0 : list N => N.eqb (hash p0) k) ps = None -> count k (map hash ps) = 0.
Proof.
  induction ps as [|p r IH]; cbn [find map count]; [reflexivity|].
  destruct (N.eqb (hash p) k); [discriminate|]. intros H. rewrite IH by assumption. reflexivity.
Qed.

(* storing pieces on behalf of a new holder of references *)
Lemma inv_commit s ps ar' wr' nx :
  Inv s ->
  NoDup (keys ar') -> NoDup (keys wr') ->
  (forall id, nx <= id -> aget ar' id = None) -> (forall id, nx <= id -> aget wr' id = None) ->
  (forall id w, aget wr' id = Some w -> aget ar' id = None) ->
  (forall k, occ2 ar' wr' k = occ s k + count k (map hash ps)) ->
  Inv (St (storeN (clock s) (chunks s) ps) ar' wr' nx (clock s) (rev ps ++ seen s)).
Proof.
  intros I Ha Hw Hfa Hfw Hdj Hocc. destruct I.
  constructor; cbn [chunks arts writers next_id clock seen]; try assumption.
  - eapply store_chunks_nodup; eassumption.
  - intros k c. rewrite (store_chunks_get hash rdec rinc Hdec Hinc). destruct (aget (chunks s) k) as [c0|] eqn:E.
    + intros [= <-]. cbn [cdata]. destruct (i_hash0 k c0 E) as [H1 H2]. split; [exact H1|].
      apply in_or_app. right. exact H2.
    + destruct (find _ ps) as [p|] eqn:Ef; [|discriminate]. intros [= <-]. cbn [cdata].
      apply find_hash_some in Ef. destruct Ef as [H1 H2]. split; [exact H1|].
      apply in_or_app. left. apply in_rev in H2. rewrite <- in_rev. apply in_rev. exact H2.
  - intros k c. rewrite (store_chunks_get hash rdec rinc Hdec Hinc). unfold occ. cbn [arts writers]. rewrite Hocc.
    destruct (aget (chunks s) k) as [c0|] eqn:E.
    + intros [= <-]. cbn [crefs]. rewrite (i_refs0 k c0 E). reflexivity.
    + destruct (find _ ps) as [p|] eqn:Ef; [|discriminate]. intros [= <-]. cbn [crefs].
      assert (occ s k = 0).
      { destruct (N.eq_dec (occ s k) 0) as [|Hn]; [assumption|]. exfalso. apply (i_live0 k); [lia|exact E]. }
      lia.
  - intros k. unfold occ. cbn [arts writers]. rewrite Hocc. rewrite (store_chunks_get hash rdec rinc Hdec Hinc). intros Hpos.
    destruct (aget (chunks s) k) as [c0|] eqn:E; [discriminate|].
    destruct (find _ ps) as [p|] eqn:Ef; [discriminate|]. apply find_hash_none in Ef.
    assert (occ s k = 0).
    { destruct (N.eq_dec (occ s k) 0) as [|Hn]; [assumption|]. exfalso. apply (i_live0 k); [lia|exact E]. }
    lia.
Qed.

(* the chunk table shrinks, but only by chunks nobody references *)
Lemma inv_shrink s cks' :
  Inv s -> NoDup (keys cks') ->
  (forall k, aget cks' k = aget (chunks s) k \/ (aget cks' k = None /\ occ s k = 0)) ->
  Inv (St cks' (arts s) (writers s) (next_id s) (clock s) (seen s)).
Proof.
  intros I Hnd Hget. destruct I.
  constructor; cbn [chunks arts writers next_id clock seen]; try assumption.
  - intros k c E. destruct (Hget k) as [H|[H _]]; rewrite H in E; [auto|discriminate].
  - intros k c E. unfold occ. cbn [arts writers]. destruct (Hget k) as [H|[H _]]; rewrite H in E; [|discriminate].
    apply i_refs0. exact E.
  - intros k Hpos. unfold occ in Hpos. cbn [arts writers] in Hpos. destruct (Hget k) as [H|[_ H]].
    + rewrite H. apply i_live0. exact Hpos.
    + unfold occ in H. lia.
Qed.

Lemma occ_refs_app s k : count k (art_refs s ++ wr_refs s) = occ s k.
Proof. rewrite count_app. reflexivity. Qed.

Lemma inv_gc s ks : Inv s ->
  Inv (St (fst (gc_run collectable mincr min_age s ks)) (arts s) (writers s) (next_id s) (clock s) (seen s)).
Proof.
  intros I. pose proof I as I'. destruct I'. unfold gc_run. cbn [fst].
  apply inv_shrink; [exact I|apply nodup_filter; assumption|].
  intros k. rewrite aget_filter by assumption. destruct (aget (chunks s) k) as [c|] eqn:E; [|left; reflexivity].
  destruct (gc_hit collectable mincr min_age (clock s) ks (k, c)) eqn:Eh; cbn [negb]; [right|left; reflexivity].
  split; [reflexivity|]. unfold gc_hit in Eh. apply andb_true_iff in Eh. destruct Eh as [_ Eh].
  cbn [fst snd] in Eh. apply Hcoll in Eh. rewrite <- (i_refs0 k c E). exact Eh.
Qed.

Lemma inv_full_gc s : Inv s ->
  Inv (St (fst (full_gc_run fgc_w s)) (arts s) (writers s) (next_id s) (clock s) (seen s)).
Proof.
  intros I. pose proof I as I'. destruct I'. unfold full_gc_run. cbn [fst].
  apply inv_shrink; [exact I|apply nodup_filter; assumption|].
  intros k. rewrite aget_filter by assumption. destruct (aget (chunks s) k) as [c|] eqn:E; [|left; reflexivity].
  cbn [fst]. destruct (mem k (fgc_refs fgc_w s)) eqn:Em; [left; reflexivity|right].
  split; [reflexivity|]. apply mem_false_count in Em. unfold fgc_refs in Em. rewrite Hfgc in Em.
  rewrite occ_refs_app in Em. exact Em.
Qed.

Lemma inv_repair s : Inv s ->
  Inv (St (fst (repair_run rep_w s)) (arts s) (writers s) (next_id s) (clock s) (seen s)).
Proof.
  intros I. destruct I. unfold repair_run. cbn [fst].
  assert (Hc : forall k, count k (rep_refs rep_w s) = occ s k).
  { intros k. unfold rep_refs. rewrite Hrep. apply occ_refs_app. }
  constructor; cbn [chunks arts writers next_id clock seen]; try assumption.
  - apply repair_nodup. assumption.
  - intros k c. rewrite repair_get by assumption. destruct (aget (chunks s) k) as [c0|] eqn:E; [|discriminate].
    destruct (N.eqb (count k (rep_refs rep_w s)) 0); [discriminate|]. intros [= <-]. cbn [cdata]. auto.
  - intros k c. rewrite repair_get by assumption. destruct (aget (chunks s) k) as [c0|] eqn:E; [|discriminate].
    destruct (N.eqb (count k (rep_refs rep_w s)) 0); [discriminate|]. intros [= <-]. cbn [crefs].
    unfold occ at 1. cbn [arts writers]. apply Hc.
  - intros k Hpos. unfold occ in Hpos. cbn [arts writers] in Hpos. rewrite repair_get by assumption.
    destruct (aget (chunks s) k) as [c0|] eqn:E.
    + rewrite Hc. destruct (N.eqb_spec (occ s k) 0) as [H0|]; [unfold occ in H0; lia|discriminate].
    + exfalso. apply (i_live0 k); [exact Hpos|exact E].
Qed.

Lemma inv_delete s id a : Inv s -> aget (arts s) id = Some a ->
  Inv (St (fold_left (dec_ref rdec) (achunks a) (chunks s)) (adel (arts s) id) (writers s) (next_id s) (clock s) (seen s)).
Proof.
  intros I Ha. destruct I.
  assert (Hocc : forall k, occ2 (adel (arts s) id) (writers s) k + count k (achunks a) = occ s k).
  { intros k. unfold occ, occ2. pose proof (cnt_adel achunks (arts s) id a k i_nd_a0 Ha). lia. }
  constructor; cbn [chunks arts writers next_id clock seen]; try assumption.
  - eapply dec_fold_nodup; eassumption.
  - apply nodup_adel. assumption.
  - intros id' Hid. rewrite aget_adel. destruct (N.eqb id id'); [reflexivity|auto].
  - intros id' w Hw. rewrite aget_adel. destruct (N.eqb id id'); [reflexivity|eauto].
  - intros k c. rewrite (dec_fold_get hash rdec rinc Hdec Hinc). destruct (aget (chunks s) k) as [c0|] eqn:E; [|discriminate].
    intros [= <-]. cbn [cdata]. eauto.
  - intros k c. rewrite (dec_fold_get hash rdec rinc Hdec Hinc). destruct (aget (chunks s) k) as [c0|] eqn:E; [|discriminate].
    intros [= <-]. cbn [crefs]. rewrite (i_refs0 k c0 E). unfold occ at 2. cbn [arts writers].
    specialize (Hocc k). lia.
  - intros k Hpos. unfold occ in Hpos. cbn [arts writers] in Hpos.
    rewrite (dec_fold_get hash rdec rinc Hdec Hinc). destruct (aget (chunks s) k) as [c0|] eqn:E; [discriminate|].
    exfalso. apply (i_live0 k); [|exact E]. specialize (Hocc k). lia.
Qed.

Lemma storeN_nil now cks : storeN now cks [] = cks.
Proof. reflexivity. Qed.
Lemma storeN_app now cks p1 p2 : storeN now cks (p1 ++ p2) = storeN now (storeN now cks p1) p2.
Proof. unfold store_chunks_tbl. apply fold_left_app. Qed.

Lemma inv_open s : Inv s ->
  Inv (St (chunks s) (arts s) (aset (writers s) (next_id s) new_writer) (next_id s + 1) (clock s) (seen s)).
Proof.
  intros I. pose proof I as I'. destruct I'.
  assert (Hn : aget (writers s) (next_id s) = None) by (apply i_fresh_w0; lia).
  change (chunks s) with (storeN (clock s) (chunks s) []).
  change (seen s) with (rev (@nil (list N)) ++ seen s).
  apply inv_commit; try assumption.
  - apply nodup_aset. assumption.
  - intros id Hid. apply i_fresh_a0. lia.
  - intros id Hid. rewrite aget_aset. destruct (N.eqb_spec (next_id s) id); [lia|]. apply i_fresh_w0. lia.
  - intros id w. rewrite aget_aset. destruct (N.eqb_spec (next_id s) id) as [<-|].
    + intros _. apply i_fresh_a0. lia.
    + apply i_disj0.
  - intros k. unfold occ, occ2. rewrite cnt_aset_new by assumption. cbn. lia.
Qed.

Lemma inv_write s w wr ps r al : Inv s -> aget (writers s) w = Some wr ->
  Inv (St (storeN (clock s) (chunks s) ps) (arts s)
          (aset (writers s) w (Wr r (wchunks wr ++ map hash ps) al)) (next_id s) (clock s) (rev ps ++ seen s)).
Proof.
  intros I Hw. pose proof I as I'. destruct I'.
  apply inv_commit; try assumption.
  - apply nodup_aset. assumption.
  - intros id Hid. rewrite aget_aset. destruct (N.eqb_spec w id) as [<-|]; [|auto].
    rewrite i_fresh_w0 in Hw by assumption. discriminate.
  - intros id w'. rewrite aget_aset. destruct (N.eqb_spec w id) as [<-|]; [|apply i_disj0].
    intros _. eapply i_disj0. exact Hw.
  - intros k. unfold occ, occ2.
    pose proof (cnt_aset_upd wchunks (writers s) w wr (Wr r (wchunks wr ++ map hash ps) al) k i_nd_w0 Hw) as H.
    cbn [wchunks] in H. rewrite count_app in H. lia.
Qed.

Lemma inv_finish s w wr ps sz sm : Inv s -> aget (writers s) w = Some wr ->
  Inv (St (storeN (clock s) (chunks s) ps) (aset (arts s) w (Art (wchunks wr ++ map hash ps) sz sm))
          (adel (writers s) w) (next_id s) (clock s) (rev ps ++ seen s)).
Proof.
  intros I Hw. pose proof I as I'. destruct I'.
  assert (Ha : aget (arts s) w = None) by (eapply i_disj0; exact Hw).
  assert (Hlt : w < next_id s).
  { destruct (N.lt_ge_cases w (next_id s)) as [|Hge]; [assumption|]. rewrite i_fresh_w0 in Hw by assumption. discriminate. }
  apply inv_commit; try assumption.
  - apply nodup_aset. assumption.
  - apply nodup_adel. assumption.
  - intros id Hid. rewrite aget_aset. destruct (N.eqb_spec w id); [lia|auto].
  - intros id Hid. rewrite aget_adel. destruct (N.eqb w id); [reflexivity|auto].
  - intros id w'. rewrite aget_adel, aget_aset. destruct (N.eqb_spec w id); [discriminate|apply i_disj0].
  - intros k. unfold occ, occ2. rewrite cnt_aset_new by assumption. cbn [achunks]. rewrite count_app.
    pose proof (cnt_adel wchunks (writers s) w wr k i_nd_w0 Hw). lia.
Qed.

Lemma inv_put s ps sz sm : Inv s ->
  Inv (St (storeN (clock s) (chunks s) ps) (aset (arts s) (next_id s) (Art (map hash ps) sz sm))
          (writers s) (next_id s + 1) (clock s) (rev ps ++ seen s)).
Proof.
  intros I. pose proof I as I'. destruct I'.
  assert (Ha : aget (arts s) (next_id s) = None) by (apply i_fresh_a0; lia).
  apply inv_commit; try assumption.
  - apply nodup_aset. assumption.
  - intros id Hid. rewrite aget_aset. destruct (N.eqb_spec (next_id s) id); [lia|]. apply i_fresh_a0. lia.
  - intros id Hid. apply i_fresh_w0. lia.
  - intros id w' Hw'. rewrite aget_aset. destruct (N.eqb_spec (next_id s) id) as [<-|]; [|eapply i_disj0; exact Hw'].
    rewrite i_fresh_w0 in Hw' by lia. discriminate.
  - intros k. unfold occ, occ2. rewrite cnt_aset_new by assumption. cbn [achunks]. lia.
Qed.

(* the pieces a one-shot put stores are exactly the chunker's split of the data *)
Lemma put_pieces (d : list N) :
  let '(ps1, r) := drain (length d) cs d in
  ps1 ++ match r with [] => [] | b => [b] end = split cs d.
Proof.
  pose proof (drain_spec cs (length d) d Hcs (le_n _)) as H.
  destruct (drain (length d) cs d) as [ps1 r]. destruct H as (H1 & H2 & H3).
  rewrite <- H1. rewrite split_pieces by assumption. reflexivity.
Qed.

(* state reached by put, in single-commit form *)
Lemma put_state s x d : aget (writers s) (next_id s) = None ->
  fst (stepm s (OPut (x :: d))) =
  St (storeN (clock s) (chunks s) (split cs (x :: d)))
     (aset (arts s) (next_id s) (Art (map hash (split cs (x :: d))) (N.of_nat (length (x :: d))) (hash (x :: d))))
     (writers s) (next_id s + 1) (clock s) (rev (split cs (x :: d)) ++ seen s).
Proof.
  intros Hfresh. cbn [step]. unfold w_write. cbn [wbuf new_writer app wall wchunks].
  pose proof (put_pieces (x :: d)) as Hp.
  destruct (drain (length (x :: d)) cs (x :: d)) as [ps1 r].
  unfold w_store. cbn [fst]. unfold w_finish, w_store. cbn [wbuf wchunks wall chunks arts writers next_id clock seen fst snd app].
  rewrite <- Hp. rewrite storeN_app, map_app, rev_app_distr, <- app_assoc.
  rewrite adel_absent by exact Hfresh.
  destruct r; reflexivity.
Qed.

Theorem step_inv s o : Inv s -> Inv (fst (stepm s o)).
Proof.
  intros I. destruct o as [d| |w d|w|id|id|id|ks| |id| |secs| ].
  - destruct d as [|x d]; [exact I|]. rewrite put_state by (apply (i_fresh_w _ I); lia).
    apply inv_put. exact I.
  - cbn [step fst]. apply inv_open. exact I.
  - cbn [step]. destruct (aget (writers s) w) as [wr|] eqn:Ew; [|exact I].
    unfold w_write. destruct (drain _ cs (wbuf wr ++ d)) as [ps r]. unfold w_store. cbn [fst chunks arts writers next_id clock seen].
    apply inv_write; assumption.
  - cbn [step]. destruct (aget (writers s) w) as [wr|] eqn:Ew; [|exact I].
    cbn [fst]. unfold w_finish, w_store. cbn [chunks arts writers next_id clock seen wchunks wall].
    apply inv_finish; assumption.
  - cbn [step]. destruct (aget (arts s) id) as [a|] eqn:Ea; [|exact I]. cbn [fst]. apply inv_delete; assumption.
  - exact I.
  - exact I.
  - cbn [step]. pose proof (inv_gc s ks I) as H. destruct (gc_run collectable mincr min_age s ks) as [cks [del freed]]. exact H.
  - cbn [step]. pose proof (inv_full_gc s I) as H. destruct (full_gc_run fgc_w s) as [cks [del freed]]. exact H.
  - exact I.
  - cbn [step]. pose proof (inv_repair s I) as H. destruct (repair_run rep_w s) as [cks [fixed orph]]. exact H.
  - cbn [step fst]. destruct I. constructor; cbn [chunks arts writers next_id clock seen]; assumption.
  - exact I.
Qed.

Theorem run_inv ops : forall s, Inv s -> Inv (runm s ops).
Proof. induction ops as [|o r IH]; intros s I; cbn [run]; [exact I|]. apply IH. apply step_inv. exact I. Qed.

(* ============================================================ E. refinement of the byte-string specification *)

Definition pieces_ok (cks : list (N * chunk)) (ps : list (list N)) : Prop :=
  Forall (fun p => exists c, aget cks (hash p) = Some c /\ cdata c = p) ps.

(* two different chunk contents of the run with the same digest *)
Definition CollIn (U : list (list N)) : Prop :=
  exists x y, In x U /\ In y U /\ x <> y /\ hash x = hash y.

Definition ArtOK (cks : list (N * chunk)) (od : option (list N)) (oa : option art) : Prop :=
  match od with
  | Some d => exists ar, oa = Some ar /\ achunks ar = map hash (split cs d) /\ asum ar = hash d /\
                         asize ar = N.of_nat (length d) /\ pieces_ok cks (split cs d)
  | None => oa = None
  end.
Definition WrOK (cks : list (N * chunk)) (od : option (list N)) (ow : option writer) : Prop :=
  match od with
  | Some d => exists w ps, ow = Some w /\ wall w = d /\ wchunks w = map hash ps /\ concat ps ++ wbuf w = d /\
                           Forall (fun p => length p = cs) ps /\ (length (wbuf w) < cs)%nat /\ pieces_ok cks ps
  | None => ow = None
  end.
Record Ref (a : spec) (s : st) : Prop := {
  r_next : snext a = next_id s;
  r_arts : forall id, ArtOK (chunks s) (aget (sarts a) id) (aget (arts s) id);
  r_wrs : forall id, WrOK (chunks s) (aget (swr a) id) (aget (writers s) id)
}.

Lemma Ref_init : Ref sinit init.
Proof. constructor; cbn; intros; reflexivity. Qed.

Lemma list_N_eq_dec (x y : list N) : {x = y} + {x <> y}.
Proof. apply list_eq_dec. apply N.eq_dec. Qed.

Lemma forall_or {A} (C : Prop) (P : A -> Prop) l : (forall x, In x l -> C \/ P x) -> C \/ Forall P l.
Proof.
  induction l as [|x r IH]; intros H; [right; constructor|].
  destruct (H x (or_introl eq_refl)) as [Hc|Hx]; [left; exact Hc|].
  destruct IH as [Hc|Hr]; [intros y Hy; apply H; right; exact Hy|left; exact Hc|right; constructor; assumption].
Qed.

(* after storing the pieces ps, each of them reads back as itself -- or the run has exhibited a collision *)
Lemma store_pieces s ps :
  (forall k c, aget (chunks s) k = Some c -> hash (cdata c) = k /\ In (cdata c) (seen s)) ->
  CollIn (rev ps ++ seen s) \/ pieces_ok (storeN (clock s) (chunks s) ps) ps.
Proof.
  intros Hh. apply forall_or. intros p Hp.
  rewrite (store_chunks_get hash rdec rinc Hdec Hinc).
  destruct (aget (chunks s) (hash p)) as [c|] eqn:E.
  - destruct (Hh _ _ E) as [H1 H2]. destruct (list_N_eq_dec (cdata c) p) as [Heq|Hne].
    + right. eexists. split; [reflexivity|exact Heq].
    + left. exists (cdata c), p. repeat split; try assumption.
      * apply in_or_app. right. exact H2.
      * apply in_or_app. left. rewrite <- in_rev. exact Hp.
  - destruct (find (fun p0 => N.eqb (hash p0) (hash p)) ps) as [p'|] eqn:Ef.
    + apply find_hash_some in Ef. destruct Ef as [H1 H2]. destruct (list_N_eq_dec p' p) as [Heq|Hne].
      * right. eexists. split; [reflexivity|exact Heq].
      * left. exists p', p. repeat split; try assumption; apply in_or_app; left; rewrite <- in_rev; assumption.
    + exfalso. apply find_hash_none in Ef. assert (H : 0 < count (hash p) (map hash ps)).
      { apply count_in. apply in_map. exact Hp. } lia.
Qed.

Lemma read_pieces cks ps : pieces_ok cks ps -> read_chunks cks (map hash ps) = Some (concat ps).
Proof.
  induction 1 as [|p r [c [Hc Hd]] _ IH]; cbn [map read_chunks concat]; [reflexivity|].
  rewrite Hc, IH, Hd. reflexivity.
Qed.

(* live chunks keep their bytes *)
Definition Keeps (s : st) (cks' : list (N * chunk)) : Prop :=
  forall k c, aget (chunks s) k = Some c -> 0 < occ s k -> exists c', aget cks' k = Some c' /\ cdata c' = cdata c.

Lemma pieces_keep s cks' ps : Keeps s cks' -> pieces_ok (chunks s) ps ->
  (forall p, In p ps -> 0 < occ s (hash p)) -> pieces_ok cks' ps.
Proof.
  intros Hk Hp Hu. unfold pieces_ok in *. rewrite Forall_forall in *. intros p Hin.
  destruct (Hp p Hin) as [c [Hc Hd]]. destruct (Hk _ _ Hc (Hu p Hin)) as [c' [Hc' Hd']].
  exists c'. split; [exact Hc'|congruence].
Qed.

Lemma art_used s id ar k : aget (arts s) id = Some ar -> In k (achunks ar) -> 0 < occ s k.
Proof.
  intros Ha Hin. unfold occ, occ2. pose proof (cnt_in achunks (arts s) id ar k Ha).
  apply count_in in Hin. lia.
Qed.
Lemma wr_used s id w k : aget (writers s) id = Some w -> In k (wchunks w) -> 0 < occ s k.
Proof.
  intros Ha Hin. unfold occ, occ2. pose proof (cnt_in wchunks (writers s) id w k Ha).
  apply count_in in Hin. lia.
Qed.

Lemma artok_keep s cks' od oa : Keeps s cks' -> (forall ar, oa = Some ar -> exists id, aget (arts s) id = Some ar) ->
  ArtOK (chunks s) od oa -> ArtOK cks' od oa.
Proof.
  intros Hk Hex. unfold ArtOK. destruct od as [d|]; [|auto].
  intros [ar (H1 & H2 & H3 & H4 & H5)]. exists ar. repeat split; try assumption.
  destruct (Hex ar H1) as [id Hid].
  eapply pieces_keep; [exact Hk|exact H5|]. intros p Hp. eapply art_used; [exact Hid|].
  rewrite H2. apply in_map. exact Hp.
Qed.
Lemma wrok_keep s cks' od ow : Keeps s cks' -> (forall w, ow = Some w -> exists id, aget (writers s) id = Some w) ->
  WrOK (chunks s) od ow -> WrOK cks' od ow.
Proof.
  intros Hk Hex. unfold WrOK. destruct od as [d|]; [|auto].
  intros [w [ps (H1 & H2 & H3 & H4 & H5 & H6 & H7)]]. exists w, ps. repeat split; try assumption.
  destruct (Hex w H1) as [id Hid].
  eapply pieces_keep; [exact Hk|exact H7|]. intros p Hp. eapply wr_used; [exact Hid|].
  rewrite H3. apply in_map. exact Hp.
Qed.

(* frame rule: holders the step did not touch stay correct; the touched ones are argued directly *)
Lemma ref_frame a s a' s' :
  Ref a s -> Keeps s (chunks s') -> snext a' = next_id s' ->
  (forall id, (aget (sarts a') id = aget (sarts a) id /\ aget (arts s') id = aget (arts s) id)
              \/ ArtOK (chunks s') (aget (sarts a') id) (aget (arts s') id)) ->
  (forall id, (aget (swr a') id = aget (swr a) id /\ aget (writers s') id = aget (writers s) id)
              \/ WrOK (chunks s') (aget (swr a') id) (aget (writers s') id)) ->
  Ref a' s'.
Proof.
  intros R Hk Hn Ha Hw. destruct R. constructor; [exact Hn| |].
  - intros id. destruct (Ha id) as [[E1 E2]|H]; [|exact H]. rewrite E1, E2.
    eapply artok_keep; [exact Hk| |apply r_arts0]. intros ar Har. exists id. exact Har.
  - intros id. destruct (Hw id) as [[E1 E2]|H]; [|exact H]. rewrite E1, E2.
    eapply wrok_keep; [exact Hk| |apply r_wrs0]. intros w Hw'. exists id. exact Hw'.
Qed.

Lemma keeps_store s ps : Keeps s (storeN (clock s) (chunks s) ps).
Proof.
  intros k c Hc _. rewrite (store_chunks_get hash rdec rinc Hdec Hinc), Hc. eexists. split; reflexivity.
Qed.

Lemma pieces_ok_app cks p1 p2 : pieces_ok cks p1 -> pieces_ok cks p2 -> pieces_ok cks (p1 ++ p2).
Proof. unfold pieces_ok. intros. apply Forall_app. split; assumption. Qed.

Lemma pieces_store_old s ps ps0 : pieces_ok (chunks s) ps0 -> pieces_ok (storeN (clock s) (chunks s) ps) ps0.
Proof.
  unfold pieces_ok. rewrite !Forall_forall. intros H p Hp. destruct (H p Hp) as [c [Hc Hd]].
  rewrite (store_chunks_get hash rdec rinc Hdec Hinc), Hc. eexists. split; [reflexivity|exact Hd].
Qed.

Lemma seen_mono s o x : In x (seen s) -> In x (seen (fst (stepm s o))).
Proof.
  intros H. destruct o as [d| |w d|w|id|id|id|ks| |id| |secs| ]; cbn [step]; try exact H.
  - destruct d as [|y d]; [exact H|]. unfold w_write. destruct (drain _ cs _) as [ps r].
    unfold w_store, w_finish, w_store. cbn [fst seen wbuf]. apply in_or_app. right. apply in_or_app. right. exact H.
  - destruct (aget (writers s) w); [|exact H]. unfold w_write. destruct (drain _ cs _) as [ps r].
    unfold w_store. cbn [fst seen]. apply in_or_app. right. exact H.
  - destruct (aget (writers s) w); [|exact H]. unfold w_finish, w_store. cbn [fst seen]. apply in_or_app. right. exact H.
  - destruct (aget (arts s) id); exact H.
Qed.

Lemma collin_mono U U' : (forall x, In x U -> In x U') -> CollIn U -> CollIn U'.
Proof. intros H (x & y & Hx & Hy & Hne & He). exists x, y. repeat split; auto. Qed.

Lemma seen_mono_run ops : forall s, CollIn (seen s) -> CollIn (seen (runm s ops)).
Proof.
  induction ops as [|o r IH]; intros s H; cbn [run]; [exact H|]. apply IH.
  eapply collin_mono; [|exact H]. intros x. apply seen_mono.
Qed.

(* one step: the specification is refined, or the run has exhibited a collision *)
Theorem step_ref a s o : Inv s -> Ref a s ->
  CollIn (seen (fst (stepm s o))) \/ Ref (sstep a o) (fst (stepm s o)).
Proof.
  intros I R. pose proof R as R'. destruct R' as [Rn Ra Rw].
  destruct o as [d| |w d|w|id|id|id|ks| |id| |secs| ]; cbn [sstep].
  - (* put *)
    destruct d as [|x d]; [right; exact R|].
    rewrite put_state by (apply (i_fresh_w _ I); lia).
    destruct (store_pieces s (split cs (x :: d)) (i_hash _ I)) as [Hc|Hp]; [left; exact Hc|right].
    eapply ref_frame; [exact R|apply keeps_store|cbn; rewrite Rn; reflexivity| |].
    + intros id. cbn [sarts arts]. rewrite !aget_aset. rewrite Rn.
      destruct (N.eqb (next_id s) id); [right|left; split; reflexivity].
      cbn [ArtOK chunks]. eexists. repeat split; try reflexivity. exact Hp.
    + intros id. left. split; reflexivity.
  - (* open *)
    right. cbn [step fst].
    eapply ref_frame; [exact R| |cbn; rewrite Rn; reflexivity| |].
    + intros k c Hc _. cbn [chunks]. eexists. split; [exact Hc|reflexivity].
    + intros id. left. split; reflexivity.
    + intros id. cbn [swr writers]. rewrite !aget_aset, Rn.
      destruct (N.eqb (next_id s) id); [right|left; split; reflexivity].
      cbn [WrOK]. exists new_writer, []. cbn. repeat split; try reflexivity; [constructor|exact Hcs|constructor].
  - (* write *)
    cbn [step]. specialize (Rw w) as Rww. unfold WrOK in Rww.
    destruct (aget (swr a) w) as [x|] eqn:Es.
    + destruct Rww as [wr [ps0 (Hw & Hall & Hch & Hcat & Hlen & Hbuf & Hpo)]]. rewrite Hw.
      unfold w_write. pose proof (drain_spec cs (length (wbuf wr ++ d)) (wbuf wr ++ d) Hcs (le_n _)) as Hd.
      destruct (drain _ cs (wbuf wr ++ d)) as [ps r]. destruct Hd as (D1 & D2 & D3).
      unfold w_store. cbn [fst chunks arts writers next_id clock seen].
      destruct (store_pieces s ps (i_hash _ I)) as [Hc|Hp]; [left; exact Hc|right].
      eapply ref_frame; [exact R|apply keeps_store|exact Rn| |].
      * intros id. left. split; reflexivity.
      * intros id. cbn [swr writers]. rewrite !aget_aset.
        destruct (N.eqb w id); [right|left; split; reflexivity].
        cbn [WrOK chunks]. eexists. exists (ps0 ++ ps). repeat split; try reflexivity.
        -- cbn [wall]. rewrite Hall. reflexivity.
        -- cbn [wchunks]. rewrite Hch, map_app. reflexivity.
        -- cbn [wbuf]. rewrite concat_app, <- app_assoc, D1, app_assoc, Hcat. reflexivity.
        -- apply Forall_app. split; assumption.
        -- exact D3.
        -- apply pieces_ok_app; [apply pieces_store_old; exact Hpo|exact Hp].
    + rewrite Rww. right. exact R.
  - (* finish *)
    cbn [step]. specialize (Rw w) as Rww. unfold WrOK in Rww.
    destruct (aget (swr a) w) as [x|] eqn:Es.
    + destruct Rww as [wr [ps0 (Hw & Hall & Hch & Hcat & Hlen & Hbuf & Hpo)]]. rewrite Hw.
      cbn [fst]. unfold w_finish, w_store. cbn [chunks arts writers next_id clock seen wchunks wall].
      set (ps := match wbuf wr with [] => [] | b => [b] end).
      destruct (store_pieces s ps (i_hash _ I)) as [Hc|Hp]; [left; exact Hc|right].
      assert (Hsplit : split cs x = ps0 ++ ps).
      { rewrite <- Hcat. rewrite split_pieces by assumption. unfold ps. destruct (wbuf wr); reflexivity. }
      eapply ref_frame; [exact R|apply keeps_store|exact Rn| |].
      * intros id. cbn [sarts arts]. rewrite !aget_aset.
        destruct (N.eqb w id); [right|left; split; reflexivity].
        cbn [ArtOK chunks]. eexists. repeat split; try reflexivity.
        -- cbn [achunks]. rewrite Hsplit, Hch, map_app. reflexivity.
        -- cbn [asum]. rewrite Hall. reflexivity.
        -- cbn [asize]. rewrite Hall. reflexivity.
        -- rewrite Hsplit. apply pieces_ok_app; [apply pieces_store_old; exact Hpo|exact Hp].
      * intros id. cbn [swr writers]. rewrite !aget_adel.
        destruct (N.eqb w id); [right; reflexivity|left; split; reflexivity].
    + rewrite Rww. right. exact R.
  - (* delete *)
    right. cbn [step]. specialize (Ra id) as Raa. unfold ArtOK in Raa.
    assert (Hk : forall ks, Keeps s (fold_left (dec_ref rdec) ks (chunks s))).
    { intros ks k c Hc _. rewrite (dec_fold_get hash rdec rinc Hdec Hinc), Hc. eexists. split; reflexivity. }
    destruct (aget (arts s) id) as [ar|] eqn:Ea.
    + cbn [fst]. eapply ref_frame; [exact R|apply Hk|exact Rn| |].
      * intros id'. cbn [sarts arts]. rewrite !aget_adel.
        destruct (N.eqb id id'); [right; reflexivity|left; split; reflexivity].
      * intros id'. left. split; reflexivity.
    + cbn [fst]. eapply ref_frame; [exact R| |exact Rn| |].
      * intros k c Hc _. eexists. split; [exact Hc|reflexivity].
      * intros id'. cbn [sarts]. rewrite aget_adel. destruct (N.eqb_spec id id') as [<-|]; [right|left; split; reflexivity].
        cbn [ArtOK]. exact Ea.
      * intros id'. left. split; reflexivity.
  - right. exact R.
  - right. exact R.
  - (* gc *)
    right. cbn [step]. pose proof (i_nd_c _ I) as Hnd. pose proof (i_refs _ I) as Hrf.
    assert (Hk : Keeps s (fst (gc_run collectable mincr min_age s ks))).
    { intros k c Hc Hpos. unfold gc_run. cbn [fst]. rewrite aget_filter by assumption. rewrite Hc.
      destruct (gc_hit collectable mincr min_age (clock s) ks (k, c)) eqn:Eh; cbn [negb]; [|eexists; split; reflexivity].
      exfalso. unfold gc_hit in Eh. apply andb_true_iff in Eh. destruct Eh as [_ Eh]. cbn [fst snd] in Eh.
      apply Hcoll in Eh. rewrite (Hrf k c Hc) in Eh. lia. }
    destruct (gc_run collectable mincr min_age s ks) as [cks [del freed]]. cbn [fst] in *.
    eapply ref_frame; [exact R|exact Hk|exact Rn| |]; intros id'; left; split; reflexivity.
  - (* full gc *)
    right. cbn [step]. pose proof (i_nd_c _ I) as Hnd.
    assert (Hk : Keeps s (fst (full_gc_run fgc_w s))).
    { intros k c Hc Hpos. unfold full_gc_run. cbn [fst]. rewrite aget_filter by assumption. rewrite Hc. cbn [fst].
      destruct (mem k (fgc_refs fgc_w s)) eqn:Em; [eexists; split; reflexivity|].
      exfalso. apply mem_false_count in Em. unfold fgc_refs in Em. rewrite Hfgc, occ_refs_app in Em. lia. }
    destruct (full_gc_run fgc_w s) as [cks [del freed]]. cbn [fst] in *.
    eapply ref_frame; [exact R|exact Hk|exact Rn| |]; intros id'; left; split; reflexivity.
  - right. exact R.
  - (* repair *)
    right. cbn [step]. pose proof (i_nd_c _ I) as Hnd.
    assert (Hk : Keeps s (fst (repair_run rep_w s))).
    { intros k c Hc Hpos. unfold repair_run. cbn [fst]. rewrite repair_get by assumption. rewrite Hc.
      unfold rep_refs. rewrite Hrep, occ_refs_app.
      destruct (N.eqb_spec (occ s k) 0); [lia|]. eexists. split; reflexivity. }
    destruct (repair_run rep_w s) as [cks [fixed orph]]. cbn [fst] in *.
    eapply ref_frame; [exact R|exact Hk|exact Rn| |]; intros id'; left; split; reflexivity.
  - (* advance *)
    right. cbn [step fst]. destruct R. constructor; assumption.
  - right. exact R.
Qed.

Theorem refine_run ops : forall a s, Inv s -> Ref a s ->
  CollIn (seen (runm s ops)) \/ Ref (srun a ops) (runm s ops).
Proof.
  induction ops as [|o r IH]; intros a s I R; cbn [run srun]; [right; exact R|].
  destruct (step_ref a s o I R) as [Hc|R']; [left; apply seen_mono_run; exact Hc|].
  apply IH; [apply step_inv; exact I|exact R'].
Qed.

Theorem get_refines a s : Ref a s -> forall id, get s id = sget a id.
Proof.
  intros R id. destruct R as [_ Ra _]. specialize (Ra id). unfold ArtOK in Ra. unfold get, sget.
  destruct (aget (sarts a) id) as [d|].
  - destruct Ra as [ar (H1 & H2 & _ & _ & H5)]. rewrite H1, H2, (read_pieces _ _ H5), split_concat by exact Hcs. reflexivity.
  - rewrite Ra. reflexivity.
Qed.

Theorem verify_refines a s : Ref a s -> forall id,
  verify hash s id = match aget (sarts a) id with Some _ => RBool true | None => RErr E_NOTFOUND end.
Proof.
  intros R id. destruct R as [_ Ra _]. specialize (Ra id). unfold ArtOK in Ra. unfold verify.
  destruct (aget (sarts a) id) as [d|].
  - destruct Ra as [ar (H1 & H2 & H3 & _ & H5)]. rewrite H1, H2, (read_pieces _ _ H5), split_concat by exact Hcs.
    rewrite H3, N.eqb_refl. reflexivity.
  - rewrite Ra. reflexivity.
Qed.

(* ---- reading depends only on the bytes of the listed chunks ---- *)
Lemma read_chunks_ext cks cks' ks :
  (forall k, In k ks -> option_map cdata (aget cks' k) = option_map cdata (aget cks k)) ->
  read_chunks cks' ks = read_chunks cks ks.
Proof.
  induction ks as [|k r IH]; intros H; cbn [read_chunks]; [reflexivity|].
  pose proof (H k (or_introl eq_refl)) as Hk. rewrite IH by (intros k' Hk'; apply H; right; exact Hk').
  destruct (aget cks' k) as [c'|], (aget cks k) as [c|]; cbn in Hk; try discriminate; [|reflexivity].
  injection Hk as ->. reflexivity.
Qed.

Lemma read_chunks_missing cks ks k : In k ks -> aget cks k = None -> read_chunks cks ks = None.
Proof.
  induction ks as [|x r IH]; cbn [In read_chunks]; [tauto|]. intros [->|Hin] Hn.
  - rewrite Hn. reflexivity.
  - destruct (aget cks x); [|reflexivity]. rewrite IH by assumption. reflexivity.
Qed.

(* deleting one artifact leaves every other artifact's bytes: in ANY state *)
Theorem delete_leaves_others s id id' : id <> id' ->
  get (fst (stepm s (ODelete id))) id' = get s id'.
Proof.
  intros Hne. cbn [step]. destruct (aget (arts s) id) as [a|]; [|reflexivity].
  cbn [fst]. unfold get. cbn [arts chunks]. rewrite aget_adel. destruct (N.eqb_spec id id'); [contradiction|].
  destruct (aget (arts s) id') as [a'|]; [|reflexivity].
  rewrite (read_chunks_ext (chunks s)); [reflexivity|]. intros k _.
  rewrite (dec_fold_get hash rdec rinc Hdec Hinc). destruct (aget (chunks s) k); reflexivity.
Qed.

(* gc / full_gc / repair: every chunk listed by an existing artifact (or held by an unfinished
   writer) is still there with the same bytes, in every reachable state *)
Definition is_collect (o : op) : bool :=
  match o with OGc _ | OFullGc | ORepair => true | _ => false end.

Lemma keeps_collect s o : Inv s -> is_collect o = true -> Keeps s (chunks (fst (stepm s o))).
Proof.
  intros I Ho. pose proof (i_nd_c _ I) as Hnd. pose proof (i_refs _ I) as Hrf.
  destruct o as [d| |w d|w|id|id|id|ks| |id| |secs| ]; try discriminate; cbn [step].
  - assert (Hk : Keeps s (fst (gc_run collectable mincr min_age s ks))).
    { intros k c Hc Hpos. unfold gc_run. cbn [fst]. rewrite aget_filter by assumption. rewrite Hc.
      destruct (gc_hit collectable mincr min_age (clock s) ks (k, c)) eqn:Eh; cbn [negb]; [|eexists; split; reflexivity].
      exfalso. unfold gc_hit in Eh. apply andb_true_iff in Eh. destruct Eh as [_ Eh]. cbn [fst snd] in Eh.
      apply Hcoll in Eh. rewrite (Hrf k c Hc) in Eh. lia. }
    destruct (gc_run collectable mincr min_age s ks) as [cks [del freed]]. exact Hk.
  - assert (Hk : Keeps s (fst (full_gc_run fgc_w s))).
    { intros k c Hc Hpos. unfold full_gc_run. cbn [fst]. rewrite aget_filter by assumption. rewrite Hc. cbn [fst].
      destruct (mem k (fgc_refs fgc_w s)) eqn:Em; [eexists; split; reflexivity|].
      exfalso. apply mem_false_count in Em. unfold fgc_refs in Em. rewrite Hfgc, occ_refs_app in Em. lia. }
    destruct (full_gc_run fgc_w s) as [cks [del freed]]. exact Hk.
  - assert (Hk : Keeps s (fst (repair_run rep_w s))).
    { intros k c Hc Hpos. unfold repair_run. cbn [fst]. rewrite repair_get by assumption. rewrite Hc.
      unfold rep_refs. rewrite Hrep, occ_refs_app.
      destruct (N.eqb_spec (occ s k) 0); [lia|]. eexists. split; reflexivity. }
    destruct (repair_run rep_w s) as [cks [fixed orph]]. exact Hk.
Qed.

Theorem collect_keeps_referenced s o id ar k : Inv s -> is_collect o = true ->
  aget (arts s) id = Some ar -> In k (achunks ar) ->
  exists c c', aget (chunks s) k = Some c /\ aget (chunks (fst (stepm s o))) k = Some c' /\ cdata c' = cdata c.
Proof.
  intros I Ho Ha Hin. pose proof (art_used s id ar k Ha Hin) as Hpos.
  destruct (aget (chunks s) k) as [c|] eqn:Ec; [|exfalso; apply (i_live _ I k Hpos); exact Ec].
  destruct (keeps_collect s o I Ho k c Ec Hpos) as [c' [H1 H2]]. exists c, c'. auto.
Qed.

Lemma collect_arts s o : is_collect o = true -> arts (fst (stepm s o)) = arts s.
Proof.
  destruct o; try discriminate; intros _; cbn [step].
  - destruct (gc_run _ _ _ s examined) as [cks [a b]]. reflexivity.
  - destruct (full_gc_run _ s) as [cks [a b]]. reflexivity.
  - destruct (repair_run _ s) as [cks [a b]]. reflexivity.
Qed.

Theorem collect_preserves_reads s o id : Inv s -> is_collect o = true ->
  get (fst (stepm s o)) id = get s id.
Proof.
  intros I Ho. unfold get. rewrite collect_arts by exact Ho.
  destruct (aget (arts s) id) as [ar|] eqn:Ea; [|reflexivity].
  rewrite (read_chunks_ext (chunks s)); [reflexivity|]. intros k Hin.
  destruct (collect_keeps_referenced s o id ar k I Ho Ea Hin) as [c [c' (H1 & H2 & H3)]].
  rewrite H1, H2. cbn. rewrite H3. reflexivity.
Qed.

(* no artifact, no unfinished writer: a full collection leaves no chunk (any state) *)
Theorem full_gc_empties s : arts s = [] -> writers s = [] -> chunks (fst (stepm s OFullGc)) = [].
Proof.
  intros Ha Hw. cbn [step]. unfold full_gc_run, fgc_refs, art_refs, wr_refs. rewrite Ha, Hw. cbn [flat_map app].
  destruct fgc_w; cbn [app fst chunks]; induction (chunks s) as [|p r IH]; cbn; auto.
Qed.

(* verify: a missing chunk is reported (any state) *)
Theorem verify_reports_missing s id ar k : aget (arts s) id = Some ar -> In k (achunks ar) ->
  verify hash (remove_chunk s k) id = RErr E_CHUNKMISSING.
Proof.
  intros Ha Hin. unfold verify, remove_chunk. cbn [arts chunks]. rewrite Ha.
  rewrite (read_chunks_missing _ _ k Hin); [reflexivity|]. rewrite aget_adel, N.eqb_refl. reflexivity.
Qed.

(* verify: after ANY change to the stored chunks (cks' arbitrary), verification succeeds only if the
   bytes that now read back are the bytes written, or they collide with them under the hash *)
Theorem verify_detects_alteration a s id d cks' : Ref a s -> aget (sarts a) id = Some d ->
  let s' := St cks' (arts s) (writers s) (next_id s) (clock s) (seen s) in
  verify hash s' id = RBool true ->
  get s' id = RBytes d \/ exists rb, get s' id = RBytes rb /\ rb <> d /\ hash rb = hash d.
Proof.
  intros R Hd s' Hv. destruct R as [_ Ra _]. specialize (Ra id). unfold ArtOK in Ra. rewrite Hd in Ra.
  destruct Ra as [ar (H1 & _ & H3 & _ & _)]. unfold verify, get in *. cbn [arts chunks s'] in *. rewrite H1 in *.
  destruct (read_chunks cks' (achunks ar)) as [rb|]; [|discriminate].
  injection Hv as Hv. apply N.eqb_eq in Hv. rewrite H3 in Hv.
  destruct (list_N_eq_dec rb d) as [->|Hne]; [left; reflexivity|right]. exists rb. auto.
Qed.

End InvProofs.

(* ============================================================ F. the specification side *)
Lemma srun_app a o1 : forall o2, srun a (o1 ++ o2) = srun (srun a o1) o2.
Proof. revert a. induction o1 as [|o r IH]; intros a o2; cbn [app srun]; [reflexivity|apply IH]. Qed.

Lemma run_app hash collectable mincr rdec rinc fgc_w rep_w cs min_age s o1 : forall o2,
  run hash collectable mincr rdec rinc fgc_w rep_w cs min_age s (o1 ++ o2) =
  run hash collectable mincr rdec rinc fgc_w rep_w cs min_age (run hash collectable mincr rdec rinc fgc_w rep_w cs min_age s o1) o2.
Proof. revert s. induction o1 as [|o r IH]; intros s o2; cbn [app run]; [reflexivity|apply IH]. Qed.

Lemma spec_writes n : forall ws a x, aget (swr a) n = Some x ->
  sget (srun a (map (OWrite n) ws ++ [OFinish n])) n = RBytes (x ++ concat ws).
Proof.
  induction ws as [|w r IH]; intros a x Hx; cbn [map app srun sstep concat].
  - rewrite Hx. unfold sget. cbn [sarts]. rewrite aget_aset, N.eqb_refl, app_nil_r. reflexivity.
  - rewrite Hx. rewrite (IH _ (x ++ w)); [rewrite app_assoc; reflexivity|].
    cbn [swr]. rewrite aget_aset, N.eqb_refl. reflexivity.
Qed.

(* a streamed artifact, under ANY partition of its bytes into writes (empty writes included),
   is specified to read back as the concatenation *)
Lemma spec_stream a ws :
  sget (srun a (OOpen :: map (OWrite (snext a)) ws ++ [OFinish (snext a)])) (snext a) = RBytes (concat ws).
Proof.
  cbn [srun sstep]. rewrite (spec_writes (snext a) ws _ []); [reflexivity|].
  cbn [swr]. rewrite aget_aset, N.eqb_refl. reflexivity.
Qed.

Lemma spec_put a x d : sget (srun a [OPut (x :: d)]) (snext a) = RBytes (x :: d).
Proof. cbn [srun sstep]. unfold sget. cbn [sarts]. rewrite aget_aset, N.eqb_refl. reflexivity. Qed.
