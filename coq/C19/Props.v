(* C19/Props.v -- pinned property theorems; nothing but statements closed by `exact`.
   `hash` (SHA-256 in the implementation) is universally quantified with NO assumption: where
   content addressing matters the statement is in collision-or form, the collision being between
   two chunk contents actually stored during the run (`seen`).  Chunk size: any cs > 0. *)
From NV.Common Require Import Base.
From NV.C19 Require Import Model Proofs Inst.
From NV.gen Require Import Gen_C19.
Open Scope N_scope.

(* grun / gstep (notations of Inst.v): the model instantiated with the decision expressions regenerated
   from gc.rs, integrity.rs, streaming.rs:
     grun hash cs min_age  = run  hash gen_collectable gen_min_created gen_rdec gen_rinc
                                  gen_fgc_counts_writers gen_repair_counts_writers cs min_age
     gstep hash cs min_age = step ... likewise *)

(* ---- the chunker ---- *)
Theorem C19_split_concat : forall (n : nat) (d : list N), (0 < n)%nat -> concat (split n d) = d.
Proof. exact split_concat. Qed.

Theorem C19_split_sizes : forall (n : nat) (d : list N), (0 < n)%nat ->
  Forall (fun p => (0 < length p <= n)%nat) (split n d) /\
  forall ps q, split n d = ps ++ [q] -> Forall (fun p => length p = n) ps.
Proof. exact split_sizes. Qed.

(* ---- reading returns the bytes written: every program, every artifact id ----
   `srun sinit ops` is the specification: artifacts are byte strings; put/open/write/finish/delete
   do the obvious thing, every other operation does nothing. *)
Theorem C19_reads_return_written : forall (hash : list N -> N) (cs : nat) (min_age : N) (ops : list op),
  (0 < cs)%nat ->
  let s := grun hash cs min_age init ops in
  (exists x y, In x (seen s) /\ In y (seen s) /\ x <> y /\ hash x = hash y)
  \/ forall id,
       get s id = sget (srun sinit ops) id /\
       verify hash s id = match aget (sarts (srun sinit ops)) id with Some _ => RBool true | None => RErr E_NOTFOUND end.
Proof. exact g_reads. Qed.

(* what the specification says for a one-shot put and for a stream under ANY partition into writes
   (after any history ops0; empty writes allowed; sizes 0, 1, cs-1, cs, cs+1, many are instances) *)
Theorem C19_spec_put : forall ops0 x d,
  sget (srun sinit (ops0 ++ [OPut (x :: d)])) (snext (srun sinit ops0)) = RBytes (x :: d).
Proof. exact g_spec_put. Qed.

Theorem C19_spec_stream_any_partition : forall ops0 (ws : list (list N)),
  let n := snext (srun sinit ops0) in
  sget (srun sinit (ops0 ++ OOpen :: map (OWrite n) ws ++ [OFinish n])) n = RBytes (concat ws).
Proof. exact g_spec_stream. Qed.

(* ---- reference counts ---- in every reachable state the stored count of every chunk is the number of
   times artifacts and unfinished writers list it, and every listed chunk exists *)
Theorem C19_refcount_invariant : forall (hash : list N -> N) (cs : nat) (min_age : N) (ops : list op),
  (0 < cs)%nat ->
  let s := grun hash cs min_age init ops in
  (forall k c, aget (chunks s) k = Some c -> crefs c = count k (art_refs s) + count k (wr_refs s)) /\
  (forall k, 0 < count k (art_refs s) + count k (wr_refs s) -> aget (chunks s) k <> None) /\
  NoDup (map fst (chunks s)).
Proof. exact g_refcount. Qed.

(* ---- delete: the bytes of every other artifact are untouched (any state whatsoever) ---- *)
Theorem C19_delete_leaves_others : forall (hash : list N -> N) (cs : nat) (min_age : N) s id id',
  id <> id' -> get (fst (gstep hash cs min_age s (ODelete id))) id' = get s id'.
Proof. exact g_delete. Qed.

(* ---- gc / full_gc / repair never remove (or change the bytes of) a chunk an existing artifact lists ---- *)
Theorem C19_collect_keeps_referenced : forall (hash : list N -> N) (cs : nat) (min_age : N) (ops : list op) o id ar k,
  (0 < cs)%nat -> is_collect o = true ->
  let s := grun hash cs min_age init ops in
  aget (arts s) id = Some ar -> In k (achunks ar) ->
  exists c c', aget (chunks s) k = Some c /\ aget (chunks (fst (gstep hash cs min_age s o))) k = Some c' /\ cdata c' = cdata c.
Proof. exact g_collect_keeps. Qed.

Theorem C19_collect_preserves_reads : forall (hash : list N -> N) (cs : nat) (min_age : N) (ops : list op) o id,
  (0 < cs)%nat -> is_collect o = true ->
  let s := grun hash cs min_age init ops in
  get (fst (gstep hash cs min_age s o)) id = get s id.
Proof. exact g_collect_reads. Qed.

(* ---- after all artifacts are deleted (and no upload is open) a full collection leaves no chunks ---- *)
Theorem C19_full_gc_empties : forall (hash : list N -> N) (cs : nat) (min_age : N) s,
  arts s = [] -> writers s = [] -> chunks (fst (gstep hash cs min_age s OFullGc)) = [].
Proof. exact g_full_gc_empties. Qed.

(* ---- verify ---- (it succeeds on every undamaged artifact: second conjunct of C19_reads_return_written) *)
Theorem C19_verify_reports_missing : forall (hash : list N -> N) s id ar k,
  aget (arts s) id = Some ar -> In k (achunks ar) -> verify hash (remove_chunk s k) id = RErr E_CHUNKMISSING.
Proof. exact g_verify_missing. Qed.

(* whatever happened to the chunk table (cks' arbitrary): verify answers true only if the bytes that now
   read back are the bytes written, or they are a different string with the same whole-artifact digest *)
Theorem C19_verify_detects_alteration : forall (hash : list N -> N) (cs : nat) (min_age : N) (ops : list op) id d cks',
  (0 < cs)%nat ->
  let s := grun hash cs min_age init ops in
  (exists x y, In x (seen s) /\ In y (seen s) /\ x <> y /\ hash x = hash y) \/
  (aget (sarts (srun sinit ops)) id = Some d ->
   let s' := St cks' (arts s) (writers s) (next_id s) (clock s) (seen s) in
   verify hash s' id = RBool true ->
   get s' id = RBytes d \/ exists rb, get s' id = RBytes rb /\ rb <> d /\ hash rb = hash d).
Proof. exact g_verify_alter. Qed.

(* ---- schedules ----
   Per-run fact Inst.gen_locked_spec: every read-modify-write of chunk records (store_chunk, the
   publish step of finish, delete_artifact, gc's per-chunk test-and-delete, full_gc, repair) runs
   under one lock, so a concurrent execution is the sequential run of an interleaving of the
   clients' programs (a write being the sequence of its per-chunk writes).  For every set of
   client programs and every schedule: *)
Theorem C19_any_schedule : forall (hash : list N -> N) (cs : nat) (min_age : N) (threads : list (list op)) (sched : list nat),
  (0 < cs)%nat ->
  let ops := interleave threads sched in
  let s := grun hash cs min_age init ops in
  (exists x y, In x (seen s) /\ In y (seen s) /\ x <> y /\ hash x = hash y)
  \/ forall id,
       get s id = sget (srun sinit ops) id /\
       verify hash s id = match aget (sarts (srun sinit ops)) id with Some _ => RBool true | None => RErr E_NOTFOUND end.
Proof. exact g_any_schedule. Qed.

(* F-C19-rc, the code before the repair: with the exists-check and the update as separate store
   operations, two clients storing the same content leave a count of 1 for 2 holders (deleting one
   of the artifacts then makes the chunk collectable while the other still lists it).  Reproduced on
   the real code by the barrier stress of the harness before the repair. *)
Theorem C19_unlocked_store_refuted :
  exists xs, let '(rec, _, holders) := rrun xs in rec = Some 1 /\ holders = 2.
Proof. exists [RSee 1; RSee 2; RAct 1; RAct 2]. vm_compute. split; reflexivity. Qed.

(* ---- non-vacuity, and what failed before the repair ---- *)
Example C19_run_nonvacuous :
  let ops := [OPut [1; 2; 3; 4; 5]; OOpen; OWrite 1 [1; 2]; OWrite 1 []; OWrite 1 [3; 4; 5; 9]; OFullGc; ORepair;
              OFinish 1; ODelete 0; OAdvance 5000; OGc [toy_hash [1;2;3;4]; toy_hash [5]; toy_hash [5; 9]]; OFullGc] in
  let s := grun toy_hash 4%nat 1500 init ops in
  get s 1 = RBytes [1; 2; 3; 4; 5; 9] /\ get s 0 = RErr E_NOTFOUND /\ length (chunks s) = 2%nat
  /\ sget (srun sinit ops) 1 = RBytes [1; 2; 3; 4; 5; 9].
Proof. vm_compute. repeat split; reflexivity. Qed.

(* F-C19-inflight: with a full_gc that does not count unfinished writers (the code before the repair)
   the streamed artifact finishes successfully and cannot be read *)
Theorem C19_full_gc_must_count_writers_refuted :
  exists ops, let s := run toy_hash gen_collectable gen_min_created gen_rdec gen_rinc false gen_repair_counts_writers 4%nat 1500 init ops in
    get s 0 = RErr E_CHUNKMISSING /\ sget (srun sinit ops) 0 = RBytes [0; 1; 2; 3; 4; 5; 6; 7].
Proof. exists [OOpen; OWrite 0 [0; 1; 2; 3; 4; 5; 6; 7]; OFullGc; OFinish 0]. vm_compute. split; reflexivity. Qed.

Print Assumptions C19_split_concat.
Print Assumptions C19_split_sizes.
Print Assumptions C19_reads_return_written.
Print Assumptions C19_spec_put.
Print Assumptions C19_spec_stream_any_partition.
Print Assumptions C19_refcount_invariant.
Print Assumptions C19_delete_leaves_others.
Print Assumptions C19_collect_keeps_referenced.
Print Assumptions C19_collect_preserves_reads.
Print Assumptions C19_full_gc_empties.
Print Assumptions C19_verify_reports_missing.
Print Assumptions C19_verify_detects_alteration.
Print Assumptions C19_full_gc_must_count_writers_refuted.
Print Assumptions C19_any_schedule.
Print Assumptions C19_unlocked_store_refuted.
