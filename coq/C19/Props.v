(* C19/Props.v -- pinned property theorems (placeholder while the proofs are being built) *)
From NV.Common Require Import Base.
From NV.C19 Require Import Model.
Open Scope N_scope.
