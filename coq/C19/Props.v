(* C19/Props.v -- pinned property theorems; nothing but statements closed by `exact`. *)
From NV.Common Require Import Base.
From NV.C19 Require Import Model Proofs.
Open Scope N_scope.

(* Chunker::chunk loses and invents nothing, for every chunk size > 0 and every input
   (sizes 0, 1, n-1, n, n+1, many are instances) *)
Theorem C19_split_concat : forall (n : nat) (d : list N), (0 < n)%nat -> concat (split n d) = d.
Proof. exact split_concat. Qed.

(* every piece is non-empty and at most n long; every piece but the last is exactly n long *)
Theorem C19_split_sizes : forall (n : nat) (d : list N), (0 < n)%nat ->
  Forall (fun p => (0 < length p <= n)%nat) (split n d) /\
  forall ps q, split n d = ps ++ [q] -> Forall (fun p => length p = n) ps.
Proof. exact split_sizes. Qed.

Print Assumptions C19_split_concat.
Print Assumptions C19_split_sizes.
