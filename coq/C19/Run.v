(* C19/Run.v -- executable entry points for the correspondence check and the property oracles.
   Depends on Model + the regenerated decision expressions only (NOT on the proofs). *)
From NV.Common Require Import Base.
From NV.C19 Require Import Model.
From NV.gen Require Import Gen_C19.
Open Scope N_scope.

(* SHA-256 as observed on the implementation: the harness lists (bytes, digest id) for every byte
   string it saw hashed; ids are small numbers >= 1 given in order of first appearance. *)
Definition hash_of (tbl : list (list N * N)) (d : list N) : N :=
  match find (fun p => list_eqb N.eqb (fst p) d) tbl with
  | Some p => snd p
  | None => 0
  end.

Definition mstep (tbl : list (list N * N)) (cs min_age : N) :=
  step (hash_of tbl) gen_collectable gen_min_created gen_rdec gen_rinc gen_fgc_counts_writers gen_repair_counts_writers
       (N.to_nat cs) min_age.

(* ---- observations ---- *)
Definition out_eqb (a b : out) : bool :=
  match a, b with
  | RUnit, RUnit => true
  | RId x, RId y => N.eqb x y
  | RErr x, RErr y => N.eqb x y
  | RBytes x, RBytes y => list_eqb N.eqb x y
  | RBool x, RBool y => Bool.eqb x y
  | RNums x, RNums y => list_eqb N.eqb x y
  | _, _ => false
  end.

(* chunk dump entry: (key, data, refs, created); artifact dump entry: (id, chunk keys, size, checksum) *)
Definition cdump := list (N * list N * N * N).
Definition adump := list (N * list N * N * N).
Definition obs := (out * cdump * adump * list (N * out * out))%type.

Definition cdump_matches (d : cdump) (cks : list (N * chunk)) : bool :=
  Nat.eqb (length d) (length cks) &&
  forallb (fun e => let '(k, dat, r, cr) := e in
             match aget cks k with
             | Some c => list_eqb N.eqb (cdata c) dat && N.eqb (crefs c) r && N.eqb (ccreated c) cr
             | None => false
             end) d.
Definition adump_matches (d : adump) (as_ : list (N * art)) : bool :=
  Nat.eqb (length d) (length as_) &&
  forallb (fun e => let '(id, ks, sz, sm) := e in
             match aget as_ id with
             | Some a => list_eqb N.eqb (achunks a) ks && N.eqb (asize a) sz && N.eqb (asum a) sm
             | None => false
             end) d.

(* ---- property oracles, evaluated on the IMPLEMENTATION's observations ---- *)
Definition ckeys (d : cdump) : list N := map (fun e => let '(k, _, _, _) := e in k) d.
Definition cdatas (d : cdump) : list (list N) := map (fun e => let '(_, dat, _, _) := e in dat) d.
Definition arefs (d : adump) : list N := flat_map (fun e => let '(_, ks, _, _) := e in ks) d.

(* reading: every artifact that exists according to the specification reads back exactly the bytes
   written for it, and verifies *)
Definition reads_ok (a : spec) (rs : list (N * out * out)) : bool :=
  forallb (fun e => let '(id, g, v) := e in
             match aget (sarts a) id with
             | Some d => out_eqb g (RBytes d) && out_eqb v (RBool true)
             | None => true
             end) rs &&
  forallb (fun p => existsb (fun e => let '(id, _, _) := e in N.eqb id (fst p)) rs) (sarts a).

(* collection: the chunks that disappeared in this step are referenced by no artifact that exists
   afterwards *)
Definition removed_unreferenced (before after : cdump) (arts_after : adump) : bool :=
  forallb (fun k => mem k (ckeys after) || negb (mem k (arefs arts_after))) (ckeys before).

(* identical content is stored once *)
Fixpoint distinct_data (l : list (list N)) : bool :=
  match l with
  | [] => true
  | x :: r => negb (existsb (list_eqb N.eqb x) r) && distinct_data r
  end.

Definition is_nil {A} (l : list A) : bool := match l with [] => true | _ => false end.

Definition oracle_step (a' : spec) (o : op) (before : cdump) (ob : obs) : bool :=
  let '(_, cd, ad, rs) := ob in
  reads_ok a' rs
  && removed_unreferenced before cd ad
  && distinct_data (cdatas cd)
  && match o with
     | OFullGc => if is_nil (sarts a') && is_nil (swr a') then is_nil cd else true
     | _ => true
     end.

Definition model_reads (tbl : list (list N * N)) (s : st) (rs : list (N * out * out)) : bool :=
  forallb (fun e => let '(id, g, v) := e in
             out_eqb g (get s id) && out_eqb v (verify (hash_of tbl) s id)) rs.

(* walk the WHOLE trace.  The property oracle is evaluated on every implementation observation,
   also after the model and the implementation have parted ways (it only needs the specification
   state and the implementation's own outputs); a model/implementation disagreement is only
   remembered (`mism`) and reported at the end, when no observation violated the property. *)
Fixpoint walk (tbl : list (list N * N)) (cs min_age : N) (s : st) (a : spec) (before : cdump) (mism : bool)
         (ops : list op) (os : list obs) : N :=
  match ops, os with
  | [], [] => if mism then V_MISMATCH else V_OK
  | o :: ops', ob :: os' =>
      let a' := sstep a o in
      if negb (oracle_step a' o before ob) then V_VIOLATION
      else
        let '(s', r) := mstep tbl cs min_age s o in
        let '(ri, cd, ad, rs) := ob in
        let agree := out_eqb r ri && cdump_matches cd (chunks s') && adump_matches ad (arts s') && model_reads tbl s' rs in
        walk tbl cs min_age s' a' cd (mism || negb agree) ops' os'
  | _, _ => 9
  end.

(* trace case: (chunk size, min age, hash table, ops, implementation observations) *)
Definition trace_case := (N * N * list (list N * N) * list op * list obs)%type.
Definition check_trace (c : trace_case) : N :=
  let '(cs, min_age, tbl, ops, os) := c in
  if N.eqb cs 0 then 9 else walk tbl cs min_age init sinit [] false ops os.

(* ---- verify-under-damage case ----
   (cs, min_age, tbl, ops, the implementation's artifact records, damage, verify results after the
   damage for every id) *)
Inductive damage := DAlter (k : N) (d : list N) | DRemove (k : N).
Definition damage_key (g : damage) : N := match g with DAlter k _ => k | DRemove k => k end.
Definition apply_damage (s : st) (g : damage) : st :=
  match g with DAlter k d => alter_chunk s k d | DRemove k => remove_chunk s k end.

Definition damage_case := (N * N * list (list N * N) * list op * adump * damage * list (N * out))%type.
Definition check_damage (c : damage_case) : N :=
  let '(cs, min_age, tbl, ops, ad, g, vs) := c in
  if N.eqb cs 0 then 9 else
  let s := run (hash_of tbl) gen_collectable gen_min_created gen_rdec gen_rinc gen_fgc_counts_writers gen_repair_counts_writers
               (N.to_nat cs) min_age init ops in
  let a := srun sinit ops in
  let k := damage_key g in
  (* the damage must be a real one: an existing chunk, and new bytes that differ *)
  match aget (chunks s) k with
  | None => 9
  | Some c =>
    if match g with DAlter _ d => list_eqb N.eqb d (cdata c) | DRemove _ => false end then 9 else
    let s' := apply_damage s g in
    (* oracle: an existing artifact that uses the damaged chunk must not verify; every other existing
       artifact must verify *)
    let ok := forallb (fun e => let '(id, v) := e in
                 match aget (sarts a) id, find (fun r => let '(i, _, _, _) := r in N.eqb i id) ad with
                 | Some _, Some (_, ks, _, _) => if mem k ks then negb (out_eqb v (RBool true)) else out_eqb v (RBool true)
                 | _, _ => true
                 end) vs
              && forallb (fun p => existsb (fun e => N.eqb (fst e) (fst p)) vs) (sarts a) in
    if negb ok then V_VIOLATION
    else if forallb (fun e => out_eqb (snd e) (verify (hash_of tbl) s' (fst e))) vs then V_OK else V_MISMATCH
  end.
