(* C20/Inst.v -- PER-RUN OBLIGATIONS over the definitions regenerated from the Rust sources
   (gen/Gen_C20.v).  A harmless rewrite re-proves; a semantic change fails here. *)
From NV.Common Require Import Base.
From NV.C20 Require Import Model Proofs.
From NV.gen Require Import Gen_C20.
Open Scope N_scope.
Ltac Zify.zify_post_hook ::= Z.div_mod_to_equations.

(* the arithmetic found in delta.rs is an exact inverse pair on ALL pairs of u64 *)
Lemma gen_delta_inv : inv_on gen_dsub gen_dadd (fun _ _ => True).
Proof. intros prev next Hp Hn _. unfold gen_dsub, gen_dadd, W64 in *. lia. Qed.

Lemma gen_dsub_bounded : forall a b, a < W64 -> b < W64 -> gen_dsub b a < W64.
Proof. intros a b Ha Hb. unfold gen_dsub, W64 in *. lia. Qed.

(* varint constants in the source are the ones the model uses *)
Lemma gen_varint_ok : gen_varint_consts = (127, 7, 128, 64).
Proof. reflexivity. Qed.

(* encode_v2 checks the uncompressed size before compressing *)
Lemma gen_v2_ok : gen_v2_checks_serialized = true.
Proof. reflexivity. Qed.

(* encode_v2 checks the frame content it is about to send against the limit the reader applies *)
Lemma gen_v2_frame_ok : gen_v2_checks_frame = true.
Proof. reflexivity. Qed.

(* EmbeddingValidator::validate checks that positions and values are parallel, that EVERY position is inside
   the dimension, and that positions are strictly ascending *)
Lemma gen_validator_ok : VC gen_vc_lens gen_vc_bounds_all gen_vc_sorted = VC true true true.
Proof. reflexivity. Qed.

(* validate_block_request tests the order of the range and counts the blocks without wrapping *)
Lemma gen_block_request_ok : gen_block_order_checked = true /\
  forall f t, f < W64 -> t < W64 -> f <= t -> gen_block_count f t = N.min ((t - f) + 1) (W64 - 1).
Proof. split; [reflexivity|]. intros f t Hf Ht Hle. unfold gen_block_count, W64 in *. lia. Qed.

Lemma gen_flags_ok : gen_flag_none = 0 /\ gen_flag_lz4 = 1 /\ gen_max_decompressed < W32.
Proof. repeat split. Qed.
