(* C20/Model.v -- executable models of the lossless codecs (definitions only).
     tensor_compress/src/delta.rs      varint_encode/decode, delta_encode/decode, compress_ids
     tensor_compress/src/rle.rs        rle_encode/decode
     tensor_store/src/sparse_vector.rs from_dense / to_dense   (f32 as IEEE bit patterns)
     tensor_chain/src/tcp/framing.rs   LengthDelimitedCodec::{encode, encode_v2, decode_payload(_v2)}
   bytes are N < 256, u64 values are N < 2^64. *)
From NV.Common Require Import Base.
Open Scope N_scope.

Definition W64 : N := 18446744073709551616.   (* 2^64 *)
Definition W32 : N := 4294967296.             (* 2^32 *)

(* ---------------------------------------------------------------- varint *)
(* loop { byte = v & 0x7f; v >>= 7; if v == 0 { push(byte); break } push(byte | 0x80) } *)
Fixpoint enc1 (fuel : nat) (v : N) : list N :=
  match fuel with
  | O => []
  | S f => let byte := v mod 128 in
           let v' := v / 128 in
           if N.eqb v' 0 then [byte] else (byte + 128) :: enc1 f v'
  end.
(* 10 groups of 7 bits cover a u64 *)
Definition varint_encode (xs : list N) : list N := flat_map (enc1 10) xs.

(* decoder state: (result, current, shift) *)
Definition dstate := (list N * N * N)%type.
Definition dec_step (st : dstate) (byte : N) : dstate :=
  let '(res, cur, sh) := st in
  if N.leb 64 sh then
    (if N.ltb byte 128 then (res ++ [cur], 0, 0) else (res, cur, sh))
  else
    (* current |= u64::from(byte & 0x7f) << shift   (u64 shl drops the high bits) *)
    let cur' := N.lor cur (((byte mod 128) * 2 ^ sh) mod W64) in
    if N.ltb byte 128 then (res ++ [cur'], 0, 0) else (res, cur', sh + 7).
Definition varint_decode (bs : list N) : list N := fst (fst (fold_left dec_step bs ([], 0, 0))).

(* ---------------------------------------------------------------- delta *)
Section Delta.
  (* the arithmetic the source uses for "next - prev" and "current + delta" (regenerated from
     delta.rs by the translator: saturating_* before the fix, wrapping_* after it) *)
  Variable dsub : N -> N -> N.   (* dsub next prev *)
  Variable dadd : N -> N -> N.   (* dadd current delta *)

  Fixpoint delta_enc_from (prev : N) (ids : list N) : list N :=
    match ids with
    | [] => []
    | x :: r => dsub x prev :: delta_enc_from x r
    end.
  Definition delta_encode (ids : list N) : list N :=
    match ids with [] => [] | x :: r => x :: delta_enc_from x r end.

  Fixpoint delta_dec_from (cur : N) (ds : list N) : list N :=
    match ds with
    | [] => []
    | d :: r => let c := dadd cur d in c :: delta_dec_from c r
    end.
  Definition delta_decode (ds : list N) : list N :=
    match ds with [] => [] | x :: r => x :: delta_dec_from x r end.

  Definition compress_ids (ids : list N) : list N := varint_encode (delta_encode ids).
  Definition decompress_ids (bs : list N) : list N := delta_decode (varint_decode bs).
End Delta.

Definition sat_sub (a b : N) : N := a - b.
Definition sat_add (a b : N) : N := N.min (a + b) (W64 - 1).
Definition wrap_sub (a b : N) : N := (a + W64 - b) mod W64.
Definition wrap_add (a b : N) : N := (a + b) mod W64.

(* ---------------------------------------------------------------- RLE *)
(* values are N (any Eq type); run lengths are u32 with `count += 1` *)
Fixpoint rle_go (cur : N) (count : N) (data : list N) : list (N * N) :=
  match data with
  | [] => [(cur, count)]
  | x :: r => if N.eqb x cur then rle_go cur ((count + 1) mod W32) r
              else (cur, count) :: rle_go x 1 r
  end.
Definition rle_encode (data : list N) : list (N * N) :=
  match data with [] => [] | x :: r => rle_go x 1 r end.
Fixpoint repeatN (x : N) (n : nat) : list N := match n with O => [] | S k => x :: repeatN x k end.
Definition rle_decode (runs : list (N * N)) : list N :=
  flat_map (fun vc => repeatN (fst vc) (N.to_nat (snd vc))) runs.
Definition rle_len (runs : list (N * N)) : N := fold_left (fun a vc => a + snd vc) runs 0.
(* the struct has two parallel vectors; decode zips them (shorter length wins) *)
Definition rle_decode_parts (values counts : list N) : list N := rle_decode (combine values counts).

(* ---------------------------------------------------------------- sparse vector (f32 bits) *)
Definition f32_is_zero (b : N) : bool := N.eqb (b mod 2147483648) 0.   (* +0.0 or -0.0 *)
Definition norm_zero (b : N) : N := if f32_is_zero b then 0 else b.
(* from_dense: keep (i, v) for every v != 0.0  (NaN != 0.0 is true) *)
Fixpoint from_dense_at (i : N) (d : list N) : list (N * N) :=
  match d with
  | [] => []
  | v :: r => if f32_is_zero v then from_dense_at (i + 1) r else (i, v) :: from_dense_at (i + 1) r
  end.
Definition from_dense (d : list N) : N * list (N * N) := (N.of_nat (length d), from_dense_at 0 d).
Fixpoint set_at (l : list N) (i : nat) (v : N) : list N :=
  match l, i with
  | [], _ => []
  | _ :: t, O => v :: t
  | h :: t, S k => h :: set_at t k v
  end.
(* to_dense: vec![0.0; dim]; dense[pos] = val for each stored pair, in order *)
Definition to_dense (s : N * list (N * N)) : list N :=
  fold_left (fun acc pv => set_at acc (N.to_nat (fst pv)) (snd pv)) (snd s) (repeatN 0 (N.to_nat (fst s))).

(* SparseVector::try_from_parts(dimension, positions, values): the zipped pairs are walked in order, the
   first position >= dimension is an error; pairs with value == 0.0 (+0.0 / -0.0) are dropped; the rest is
   sorted by position with a stable sort (sort_by_key).  (dimension > MAX_DIMENSION is refused as well; the
   model is used below that limit.) *)
Fixpoint ins_pair (x : N * N) (l : list (N * N)) : list (N * N) :=
  match l with
  | [] => [x]
  | y :: r => if N.leb (fst x) (fst y) then x :: l else y :: ins_pair x r
  end.
Definition sort_pairs (l : list (N * N)) : list (N * N) := fold_right ins_pair [] l.
Definition from_parts (dim : N) (ps vs : list N) : option (N * list (N * N)) :=
  let pairs := combine ps vs in
  if existsb (fun pv => N.leb dim (fst pv)) pairs then None
  else Some (dim, sort_pairs (filter (fun pv => negb (f32_is_zero (snd pv))) pairs)).

(* SparseVector::try_set(index, value) on a sorted pair list: index >= dimension is refused; value == 0.0 removes
   the entry (or does nothing), any other value replaces or inserts it at its sorted place *)
Fixpoint sv_set_pairs (l : list (N * N)) (i v : N) : list (N * N) :=
  match l with
  | [] => if f32_is_zero v then [] else [(i, v)]
  | (p, x) :: r =>
      if N.ltb i p then (if f32_is_zero v then l else (i, v) :: l)
      else if N.eqb i p then (if f32_is_zero v then r else (i, v) :: r)
      else (p, x) :: sv_set_pairs r i v
  end.
Definition sv_set (s : N * list (N * N)) (i v : N) : option (N * list (N * N)) :=
  if N.leb (fst s) i then None else Some (fst s, sv_set_pairs (snd s) i v).
(* get(index): binary search for the position; 0.0 when absent (on a sorted list: the stored value) *)
Definition sv_get (s : N * list (N * N)) (i : N) : N :=
  match find (fun pv => N.eqb (fst pv) i) (snd s) with Some pv => snd pv | None => 0 end.

(* tensor_compress::format::decompress_vector, VectorSparse arm, on an ARBITRARY (possibly forged) position
   list: dense = vec![0.0; dimension]; for each zipped (position, value): if position < dimension then
   dense[position] = value.  Unsorted, repeated and out-of-range positions are legal inputs: later pairs
   overwrite earlier ones, out-of-range pairs are skipped, nothing panics. *)
Definition fsparse_decode (dim : N) (ps vs : list N) : list N :=
  fold_left (fun acc pv => if N.ltb (fst pv) dim then set_at acc (N.to_nat (fst pv)) (snd pv) else acc)
            (combine ps vs) (repeatN 0 (N.to_nat dim)).

(* ---------------------------------------------------------------- network frames *)
Definition be32 (n : N) : list N :=
  [(n / 16777216) mod 256; (n / 65536) mod 256; (n / 256) mod 256; n mod 256].
Definition de_be32 (b : list N) : N :=
  match b with
  | [a; b; c; d] => 16777216 * a + 65536 * b + 256 * c + d
  | _ => 0
  end.

Inductive ferr := ETooLarge (size max : N) | EInvalid | ECompression | EDeser.
Inductive fres (A : Type) := FOk (a : A) | FErr (e : ferr).
Arguments FOk {A} a. Arguments FErr {A} e.

Record codec := Codec { max_frame : N; comp_enabled : bool; min_size : N; method_lz4 : bool }.

Section Frames.
  Variable msg : Type.
  Variable ser : msg -> list N.                 (* bitcode::serialize *)
  Variable deser : list N -> option msg.        (* bitcode::deserialize *)
  Variable compress : list N -> list N.         (* lz4_flex::compress_prepend_size *)
  Variable decompress : list N -> option (list N).
  (* does encode_v2 reject a serialized payload larger than max_frame_length BEFORE compressing?
     (regenerated from framing.rs by the translator) *)
  Variable v2_checks_serialized : bool.
  Variable v2_checks_frame : bool.         (* the frame content (flags + payload) is checked against the limit *)

  Definition len (l : list N) : N := N.of_nat (length l).

  Definition encode_v1 (c : codec) (m : msg) : fres (list N) :=
    let p := ser m in
    if N.ltb (max_frame c) (len p) then FErr (ETooLarge (len p) (max_frame c))
    else if N.leb W32 (len p) then FErr (ETooLarge (len p) (max_frame c))
    else FOk (be32 (len p) ++ p).

  Definition decode_payload_v1 (c : codec) (p : list N) : fres msg :=
    if N.ltb (max_frame c) (len p) then FErr (ETooLarge (len p) (max_frame c))
    else match deser p with Some m => FOk m | None => FErr EDeser end.

  Definition encode_v2 (c : codec) (m : msg) : fres (list N) :=
    let s := ser m in
    if v2_checks_serialized && N.ltb (max_frame c) (len s) then FErr (ETooLarge (len s) (max_frame c)) else
    let '(payload, flags) :=
      if comp_enabled c && N.leb (min_size c) (len s) then
        let z := if method_lz4 c then compress s else s in
        if N.ltb (len z) (len s) then (z, if method_lz4 c then 1 else 0) else (s, 0)
      else (s, 0) in
    let n := 1 + len payload in
    if v2_checks_frame && N.ltb (max_frame c) n then FErr (ETooLarge n (max_frame c))
    else if N.leb W32 n then FErr (ETooLarge n (max_frame c))
    else FOk (be32 n ++ flags :: payload).

  Definition decode_payload_v2 (c : codec) (p : list N) : fres msg :=
    match p with
    | [] => FErr EInvalid
    | flags :: data =>
        let d := if N.eqb (flags mod 2) 0 then Some data else decompress data in
        match d with
        | None => FErr ECompression
        | Some d =>
            if N.ltb (max_frame c) (len d) then FErr (ETooLarge (len d) (max_frame c))
            else match deser d with Some m => FOk m | None => FErr EDeser end
        end
    end.

  (* read_frame's split: 4-byte big-endian length, 0 and > max rejected, then exactly that many bytes *)
  Definition split_frame (c : codec) (bs : list N) : fres (list N * list N) :=
    if Nat.ltb (length bs) 4 then FErr EInvalid else
    let n := de_be32 (firstn 4 bs) in
    if N.eqb n 0 then FErr EInvalid
    else if N.ltb (max_frame c) n then FErr (ETooLarge n (max_frame c))
    else let rest := skipn 4 bs in
         if N.ltb (len rest) n then FErr EInvalid
         else FOk (firstn (N.to_nat n) rest, skipn (N.to_nat n) rest).
End Frames.

(* ---------------------------------------------------------------- received sparse vectors *)
(* tensor_chain/src/message_validation.rs EmbeddingValidator::validate on a SparseVector as it comes out of
   the deserialiser (derived Deserialize: dimension, positions and values are three independent fields), and
   the consumers that index `values` by the index of a position (sparse_vector.rs get / dot / to_dense). *)
Record rsv := RSV { rdim : N; rpos : list N; rvals : list N }.       (* values as f32 bit patterns *)

Definition f32_exp (b : N) : N := (b / 8388608) mod 256.
Definition f32_man (b : N) : N := b mod 8388608.
Definition f32_is_nan (b : N) : bool := N.eqb (f32_exp b) 255 && negb (N.eqb (f32_man b) 0).
Definition f32_is_inf (b : N) : bool := N.eqb (f32_exp b) 255 && N.eqb (f32_man b) 0.

Fixpoint strictly_sorted (l : list N) : bool :=
  match l with
  | a :: ((b :: _) as r) => N.ltb a b && strictly_sorted r
  | _ => true
  end.

(* which of the checks the source performs (regenerated): lengths equal, every position < dimension,
   positions strictly ascending *)
Record vchecks := VC { vc_lens : bool; vc_bounds_all : bool; vc_sorted : bool }.

(* mag_ok: outcome of the floating-point magnitude test (can only refuse) *)
Definition validate_rsv (k : vchecks) (max_dim : N) (mag_ok : bool) (v : rsv) : bool :=
  negb (N.eqb (rdim v) 0) && N.leb (rdim v) max_dim
  && (negb (vc_lens k) || Nat.eqb (length (rpos v)) (length (rvals v)))
  && negb (existsb f32_is_nan (rvals v)) && negb (existsb f32_is_inf (rvals v))
  && mag_ok
  && (if vc_bounds_all k then forallb (fun p => N.ltb p (rdim v)) (rpos v)
      else forallb (fun p => N.ltb p (rdim v)) (tl (rpos v)))
  && (negb (vc_sorted k) || strictly_sorted (rpos v)).

(* the consumers, with every index access made explicit: None = the Rust code would panic *)
Fixpoint set_nth_opt (l : list N) (i : nat) (x : N) : option (list N) :=
  match l, i with
  | [], _ => None
  | _ :: t, O => Some (x :: t)
  | h :: t, S j => option_map (cons h) (set_nth_opt t j x)
  end.
(* to_dense: dense[pos] = val for the zipped pairs *)
Fixpoint to_dense_chk (pairs : list (N * N)) (acc : list N) : option (list N) :=
  match pairs with
  | [] => Some acc
  | (p, x) :: r => match set_nth_opt acc (N.to_nat p) x with Some acc' => to_dense_chk r acc' | None => None end
  end.
Definition rsv_to_dense (v : rsv) : option (list N) :=
  to_dense_chk (combine (rpos v) (rvals v)) (repeat 0 (N.to_nat (rdim v))).
(* get: position found at index i of positions -> values[i] *)
Fixpoint find_idx (l : list N) (x : N) (i : nat) : option nat :=
  match l with [] => None | y :: r => if N.eqb y x then Some i else find_idx r x (S i) end.
Definition rsv_get (v : rsv) (index : N) : option N :=
  match find_idx (rpos v) index 0 with
  | None => Some 0
  | Some i => nth_error (rvals v) i
  end.

(* ---------------------------------------------------------------- range requests *)
(* tensor_chain/src/message_validation.rs validate_block_request: the order test (when the source performs it)
   and the limit on the number of requested blocks; `count` is the source's own arithmetic on u64 *)
Definition validate_block_req (order_checked : bool) (count : N -> N -> N) (maxb from_ to : N) : bool :=
  negb (order_checked && N.ltb to from_) && N.leb (count from_ to) maxb.
