(* C20/Proofs.v -- round-trip and safety theorems for the codec models, for all inputs. *)
From NV.Common Require Import Base.
From NV.C20 Require Import Model.
Open Scope N_scope.
Ltac Zify.zify_post_hook ::= Z.div_mod_to_equations.
Arguments N.add : simpl never. Arguments N.sub : simpl never. Arguments N.mul : simpl never.
Arguments N.div : simpl never. Arguments N.modulo : simpl never. Arguments N.pow : simpl never.
Arguments N.eqb : simpl never. Arguments N.ltb : simpl never. Arguments N.leb : simpl never.
Arguments N.lor : simpl never. Arguments N.of_nat : simpl never. Arguments N.to_nat : simpl never.

(* ================================================================= varint *)
Lemma lor_disjoint a b n : a < 2 ^ n -> N.lor a (b * 2 ^ n) = a + b * 2 ^ n.
Proof.
  intros Ha. rewrite <- N.shiftl_mul_pow2.
  assert (L : N.land a (N.shiftl b n) = 0).
  { apply N.bits_inj. intros k. rewrite N.land_spec, N.bits_0.
    destruct (N.lt_ge_cases k n) as [Hk|Hk].
    - rewrite N.shiftl_spec_low by exact Hk. apply andb_false_r.
    - assert (N.testbit a k = false) as ->; [|reflexivity].
      destruct (N.eq_dec a 0) as [->|Hz]; [apply N.bits_0|].
      apply N.bits_above_log2. apply N.log2_lt_pow2; [lia|].
      eapply N.lt_le_trans; [exact Ha|]. apply N.pow_le_mono_r; lia. }
  rewrite <- N.lxor_lor by exact L. symmetry. apply N.add_nocarry_lxor. exact L.
Qed.

Lemma pow2_pos n : 0 < 2 ^ n. Proof. apply N.neq_0_lt_0. apply N.pow_nonzero. lia. Qed.

Lemma dec_enc1 : forall f v res cur sh rest,
  (0 < f)%nat ->
  v < 2 ^ (7 * N.of_nat f) -> cur < 2 ^ sh -> sh < 64 -> cur + v * 2 ^ sh < W64 ->
  fold_left dec_step (enc1 f v ++ rest) (res, cur, sh) =
  fold_left dec_step rest (res ++ [cur + v * 2 ^ sh], 0, 0).
Proof.
  induction f as [|f IH]; intros v res cur sh rest Hf Hv Hc Hs Hb; [lia|].
  cbn [enc1].
  assert (P : 0 < 2 ^ sh) by apply pow2_pos.
  assert (LE : N.leb 64 sh = false) by lia.
  destruct (N.eqb_spec (v / 128) 0) as [Hq|Hq].
  - (* last byte *)
    cbn [app fold_left]. unfold dec_step at 2. rewrite LE.
    assert (Hsmall : v mod 128 = v) by lia.
    assert (N.ltb (v mod 128) 128 = true) as -> by lia.
    rewrite N.mod_mod by lia. rewrite Hsmall.
    rewrite (N.mod_small (v * 2 ^ sh) W64) by lia.
    rewrite lor_disjoint by exact Hc. reflexivity.
  - (* continuation byte *)
    cbn [app fold_left]. unfold dec_step at 2. rewrite LE.
    assert (N.ltb (v mod 128 + 128) 128 = false) as -> by lia.
    assert ((v mod 128 + 128) mod 128 = v mod 128) as -> by lia.
    set (r := v mod 128) in *. set (q := v / 128) in *.
    assert (Hvq : v = 128 * q + r) by (unfold q, r; lia).
    assert (Hr : r < 128) by (unfold r; lia).
    assert (Hq0 : q <> 0) by exact Hq.
    clearbody r q.
    assert (Hrs : r * 2 ^ sh <= v * 2 ^ sh) by (apply N.mul_le_mono_r; lia).
    assert (Hrw : r * 2 ^ sh < W64) by (eapply N.le_lt_trans; [exact Hrs|]; clear - Hb; lia).
    rewrite (N.mod_small (r * 2 ^ sh) W64) by exact Hrw.
    rewrite lor_disjoint by exact Hc.
    assert (Hp7 : 2 ^ (sh + 7) = 128 * 2 ^ sh) by (rewrite N.pow_add_r; change (2 ^ 7) with 128; lia).
    assert (Hvp : v * 2 ^ sh = 128 * (q * 2 ^ sh) + r * 2 ^ sh) by (rewrite Hvq; ring).
    assert (Hq1 : 1 <= q) by (clear - Hq0; lia).
    assert (Hqs : 2 ^ sh <= q * 2 ^ sh) by (rewrite <- (N.mul_1_l (2 ^ sh)) at 1; apply N.mul_le_mono_r; lia).
    assert (Hsh7 : sh + 7 < 64).
    { apply (N.pow_lt_mono_r_iff 2); [lia|]. change (2 ^ 64) with W64. rewrite Hp7. clear - Hb Hvp Hqs. lia. }
    assert (Hf' : (0 < f)%nat).
    { destruct f; [|lia]. exfalso. change (7 * N.of_nat 1) with 7 in Hv. change (2 ^ 7) with 128 in Hv. lia. }
    rewrite IH; [| exact Hf' | | | exact Hsh7 | ].
    + assert (Heq : cur + r * 2 ^ sh + q * 2 ^ (sh + 7) = cur + v * 2 ^ sh) by (rewrite Hp7; clear - Hvp; lia).
      rewrite Heq. reflexivity.
    + assert (E : 7 * N.of_nat (S f) = 7 * N.of_nat f + 7) by lia.
      rewrite E, N.pow_add_r in Hv. change (2 ^ 7) with 128 in Hv. lia.
    + rewrite Hp7.
      assert (r * 2 ^ sh <= 127 * 2 ^ sh) by (apply N.mul_le_mono_r; clear - Hr; lia). clear - H Hc. lia.
    + rewrite Hp7. clear - Hvp Hb. lia.
Qed.

Lemma dec_encode_all : forall xs res rest,
  Forall (fun x => x < W64) xs ->
  fold_left dec_step (varint_encode xs ++ rest) (res, 0, 0) = fold_left dec_step rest (res ++ xs, 0, 0).
Proof.
  induction xs as [|x xs IH]; intros res rest F.
  - cbn. rewrite app_nil_r. reflexivity.
  - inversion F as [|? ? Hx Hxs]; subst. unfold varint_encode in *. cbn [flat_map].
    rewrite <- app_assoc. rewrite dec_enc1.
    + rewrite IH by exact Hxs. rewrite <- app_assoc. cbn [app].
      replace (0 + x * 2 ^ 0) with x by (change (2 ^ 0) with 1; lia). reflexivity.
    + lia.
    + change (7 * N.of_nat 10) with 70. eapply N.lt_le_trans; [exact Hx|].
      change W64 with (2 ^ 64). apply N.pow_le_mono_r; lia.
    + apply pow2_pos.
    + lia.
    + change (2 ^ 0) with 1. lia.
Qed.

(* every u64 list survives varint encoding *)
Theorem varint_roundtrip : forall xs, Forall (fun x => x < W64) xs -> varint_decode (varint_encode xs) = xs.
Proof.
  intros xs F. unfold varint_decode. rewrite <- (app_nil_r (varint_encode xs)).
  rewrite dec_encode_all by exact F. reflexivity.
Qed.

(* decoder on ARBITRARY bytes: never more values than input bytes (bounded allocation), and
   every value fits in a u64 *)
Lemma lor_lt a b n : a < 2 ^ n -> b < 2 ^ n -> N.lor a b < 2 ^ n.
Proof.
  intros Ha Hb. destruct (N.eq_dec (N.lor a b) 0) as [->|Hz]; [apply pow2_pos|].
  apply N.log2_lt_pow2; [lia|]. rewrite N.log2_lor.
  destruct (N.eq_dec a 0) as [->|Ha0]; destruct (N.eq_dec b 0) as [->|Hb0].
  - rewrite N.lor_0_l in Hz. congruence.
  - change (N.log2 0) with 0. rewrite N.max_r by lia. apply N.log2_lt_pow2; lia.
  - change (N.log2 0) with 0. rewrite N.max_l by lia. apply N.log2_lt_pow2; lia.
  - apply N.max_lub_lt; apply N.log2_lt_pow2; lia.
Qed.

Definition dinv (st : dstate) (n : nat) : Prop :=
  let '(res, cur, sh) := st in (length res <= n)%nat /\ cur < W64 /\ Forall (fun x => x < W64) res.

Lemma dec_step_inv st byte n : dinv st n -> dinv (dec_step st byte) (S n).
Proof.
  destruct st as [[res cur] sh]. unfold dinv, dec_step. intros [L [C F]].
  assert (Hm : ((byte mod 128) * 2 ^ sh) mod W64 < W64) by (apply N.mod_lt; discriminate).
  assert (Hl : N.lor cur ((byte mod 128 * 2 ^ sh) mod W64) < W64).
  { change W64 with (2 ^ 64) in *. apply lor_lt; assumption. }
  destruct (N.leb 64 sh); destruct (N.ltb byte 128); cbn;
    repeat split; try rewrite app_length; cbn; try lia; try assumption;
    try (apply Forall_app; split; [assumption|constructor; [assumption|constructor]]).
  all: try (change (0 < W64); reflexivity).
Qed.

Theorem varint_decode_safe : forall bs,
  (length (varint_decode bs) <= length bs)%nat /\ Forall (fun x => x < W64) (varint_decode bs).
Proof.
  intros bs. unfold varint_decode.
  assert (H : forall bs st n, dinv st n -> dinv (fold_left dec_step bs st) (n + length bs)).
  { induction bs0 as [|b bs0 IH]; intros st n I; cbn [fold_left length].
    - rewrite Nat.add_0_r. exact I.
    - replace (n + S (length bs0))%nat with (S n + length bs0)%nat by lia.
      apply IH. apply dec_step_inv. exact I. }
  specialize (H bs ([], 0, 0) 0%nat).
  destruct (fold_left dec_step bs ([], 0, 0)) as [[res cur] sh]. cbn in *.
  destruct H as [L [_ F]]; [split; [lia|split; [reflexivity|constructor]]|]. split; assumption.
Qed.

(* ================================================================= delta *)
Section DeltaP.
  Variable dsub dadd : N -> N -> N.

  (* the inverse law on a pair (prev, next) *)
  Definition inv_on (P : N -> N -> Prop) : Prop :=
    forall prev next, prev < W64 -> next < W64 -> P prev next -> dadd prev (dsub next prev) = next.

  Fixpoint chain (P : N -> N -> Prop) (prev : N) (l : list N) : Prop :=
    match l with [] => True | x :: r => P prev x /\ chain P x r end.

  Lemma delta_from_rt P : inv_on P -> forall ids prev,
    prev < W64 -> Forall (fun x => x < W64) ids -> chain P prev ids ->
    delta_dec_from dadd prev (delta_enc_from dsub prev ids) = ids.
  Proof.
    intros I. induction ids as [|x r IH]; intros prev Hp F C; [reflexivity|].
    inversion F as [|? ? Hx Hr]; subst. destruct C as [C1 C2].
    cbn [delta_enc_from delta_dec_from]. rewrite I by assumption. f_equal. apply IH; assumption.
  Qed.

  Theorem delta_roundtrip_on P : inv_on P -> forall ids,
    Forall (fun x => x < W64) ids ->
    match ids with [] => True | x :: r => chain P x r end ->
    delta_decode dadd (delta_encode dsub ids) = ids.
  Proof.
    intros I [|x r] F C; [reflexivity|]. inversion F; subst.
    cbn [delta_encode delta_decode]. f_equal. eapply delta_from_rt; eassumption.
  Qed.

  Lemma delta_enc_bounded : (forall a b, a < W64 -> b < W64 -> dsub b a < W64) ->
    forall ids, Forall (fun x => x < W64) ids -> Forall (fun x => x < W64) (delta_encode dsub ids).
  Proof.
    intros B [|x r] F; [constructor|]. inversion F as [|? ? Hx Hr]; subst. cbn [delta_encode].
    constructor; [exact Hx|]. clear F. revert x Hx. induction r as [|y r IH]; intros x Hx; [constructor|].
    inversion Hr; subst. cbn [delta_enc_from]. constructor; [apply B; assumption|apply IH; assumption].
  Qed.

  (* compress_ids / decompress_ids: delta then varint *)
  Theorem compress_ids_roundtrip_on P : inv_on P ->
    (forall a b, a < W64 -> b < W64 -> dsub b a < W64) ->
    forall ids, Forall (fun x => x < W64) ids ->
    match ids with [] => True | x :: r => chain P x r end ->
    decompress_ids dadd (compress_ids dsub ids) = ids.
  Proof.
    intros I B ids F C. unfold decompress_ids, compress_ids.
    rewrite varint_roundtrip by (apply delta_enc_bounded; assumption).
    eapply delta_roundtrip_on; eassumption.
  Qed.
End DeltaP.

(* saturating arithmetic (the code before the repair): exact only on non-decreasing lists *)
Lemma sat_inv_sorted : inv_on sat_sub sat_add (fun prev next => prev <= next).
Proof. intros prev next Hp Hn L. unfold sat_sub, sat_add, W64 in *. lia. Qed.
Lemma sat_roundtrip_refuted : delta_decode sat_add (delta_encode sat_sub [5; 3]) = [5; 5].
Proof. reflexivity. Qed.
(* wrapping arithmetic (after the repair): exact on every list *)
Lemma wrap_inv_all : inv_on wrap_sub wrap_add (fun _ _ => True).
Proof. intros prev next Hp Hn _. unfold wrap_sub, wrap_add, W64 in *. lia. Qed.
Lemma chain_true : forall l x, chain (fun _ _ => True) x l.
Proof. induction l; intros; cbn; auto. Qed.
(* on sorted input the two encoders produce the same bytes (the repair changes no stored data) *)
Lemma wrap_eq_sat_sorted : forall ids prev, prev < W64 -> Forall (fun x => x < W64) ids ->
  chain (fun p n => p <= n) prev ids -> delta_enc_from wrap_sub prev ids = delta_enc_from sat_sub prev ids.
Proof.
  induction ids as [|x r IH]; intros prev Hp F C; [reflexivity|]. inversion F; subst. destruct C as [C1 C2].
  cbn [delta_enc_from]. f_equal; [|apply IH; assumption]. unfold wrap_sub, sat_sub, W64 in *. lia.
Qed.

(* ================================================================= RLE *)
Lemma repeatN_app x a b : repeatN x (a + b) = repeatN x a ++ repeatN x b.
Proof. induction a; cbn; [reflexivity|f_equal; assumption]. Qed.
Lemma repeatN_snoc x a : repeatN x (S a) = repeatN x a ++ [x].
Proof. replace (S a) with (a + 1)%nat by lia. rewrite repeatN_app. reflexivity. Qed.

Lemma rle_go_decode : forall data cur count,
  1 <= count -> count + N.of_nat (length data) < W32 ->
  rle_decode (rle_go cur count data) = repeatN cur (N.to_nat count) ++ data.
Proof.
  induction data as [|x r IH]; intros cur count H1 Hb.
  - cbn. rewrite app_nil_r. reflexivity.
  - cbn [rle_go]. cbn [length] in Hb. destruct (N.eqb_spec x cur) as [->|Hne].
    + rewrite (N.mod_small (count + 1) W32) by lia. rewrite IH by lia.
      replace (N.to_nat (count + 1)) with (S (N.to_nat count)) by lia.
      rewrite repeatN_snoc, <- app_assoc. reflexivity.
    + unfold rle_decode. cbn [flat_map fst snd]. fold (rle_decode (rle_go x 1 r)).
      rewrite IH by lia. change (N.to_nat 1) with 1%nat. reflexivity.
Qed.

Theorem rle_roundtrip : forall data, N.of_nat (length data) < W32 -> rle_decode (rle_encode data) = data.
Proof.
  intros [|x r] Hb; [reflexivity|]. cbn [rle_encode]. cbn [length] in Hb.
  rewrite rle_go_decode by lia. reflexivity.
Qed.

Lemma fold_add_shift : forall (runs : list (N * N)) a, fold_left (fun a vc => a + snd vc) runs a = a + fold_left (fun a vc => a + snd vc) runs 0.
Proof. induction runs as [|r runs IH]; intros a; cbn [fold_left]; [lia|]. rewrite IH, (IH (0 + snd r)). lia. Qed.

Lemma rle_go_len : forall data cur count,
  1 <= count -> count + N.of_nat (length data) < W32 ->
  rle_len (rle_go cur count data) = count + N.of_nat (length data).
Proof.
  induction data as [|x r IH]; intros cur count H1 Hb.
  - cbn. lia.
  - cbn [rle_go]. cbn [length] in Hb. destruct (N.eqb_spec x cur) as [->|Hne].
    + rewrite (N.mod_small (count + 1) W32) by lia. rewrite IH by lia. cbn [length]. lia.
    + unfold rle_len. cbn [fold_left snd]. rewrite fold_add_shift. fold (rle_len (rle_go x 1 r)).
      rewrite IH by lia. cbn [length]. lia.
Qed.

Theorem rle_len_correct : forall data, N.of_nat (length data) < W32 -> rle_len (rle_encode data) = N.of_nat (length data).
Proof.
  intros [|x r] Hb; [reflexivity|]. cbn [rle_encode]. cbn [length] in *. rewrite rle_go_len by lia. lia.
Qed.

(* ================================================================= sparse vector *)
Lemma set_at_mid : forall (pre : list N) x post v, set_at (pre ++ x :: post) (length pre) v = pre ++ v :: post.
Proof. induction pre as [|p pre IH]; intros; cbn; [reflexivity|f_equal; apply IH]. Qed.

Lemma to_dense_go : forall suf pre,
  fold_left (fun acc pv => set_at acc (N.to_nat (fst pv)) (snd pv))
            (from_dense_at (N.of_nat (length pre)) suf) (pre ++ repeatN 0 (length suf))
  = pre ++ map norm_zero suf.
Proof.
  induction suf as [|v r IH]; intros pre; [reflexivity|].
  cbn [from_dense_at length repeatN map].
  assert (E : N.of_nat (length pre) + 1 = N.of_nat (length (pre ++ [0]))) by (rewrite app_length; cbn; lia).
  assert (E' : forall y, length (pre ++ [y]) = length (pre ++ [0])) by (intros; rewrite !app_length; reflexivity).
  unfold norm_zero at 1. destruct (f32_is_zero v) eqn:Z.
  - rewrite E. replace (pre ++ 0 :: repeatN 0 (length r)) with ((pre ++ [0]) ++ repeatN 0 (length r))
      by (rewrite <- app_assoc; reflexivity).
    rewrite IH, <- app_assoc. reflexivity.
  - cbn [fold_left fst snd]. rewrite Nat2N.id, set_at_mid.
    replace (pre ++ v :: repeatN 0 (length r)) with ((pre ++ [v]) ++ repeatN 0 (length r))
      by (rewrite <- app_assoc; reflexivity).
    assert (Ev : N.of_nat (length pre) + 1 = N.of_nat (length (pre ++ [v]))) by (rewrite app_length; cbn; lia).
    rewrite Ev, IH, <- app_assoc. reflexivity.
Qed.

(* sparse storage returns the dense vector with -0.0 read back as +0.0 and everything else
   (NaN payloads, infinities, denormals) bit-identical *)
Theorem sparse_roundtrip : forall d, to_dense (from_dense d) = map norm_zero d.
Proof.
  intros d. unfold to_dense, from_dense. cbn [fst snd]. rewrite Nat2N.id.
  exact (to_dense_go d []).
Qed.

(* from_parts on the pairs (0, d0), (1, d1), ... builds exactly what from_dense builds *)
Lemma from_dense_at_keys : forall d i pv, In pv (from_dense_at i d) -> i <= fst pv.
Proof.
  induction d as [|v r IH]; intros i pv H; cbn [from_dense_at] in H; [destruct H|].
  destruct (f32_is_zero v).
  - specialize (IH _ _ H). lia.
  - destruct H as [<-|H]; [cbn; lia|]. specialize (IH _ _ H). lia.
Qed.

Lemma sort_from_dense_at : forall d i, sort_pairs (from_dense_at i d) = from_dense_at i d.
Proof.
  induction d as [|v r IH]; intros i; cbn [from_dense_at]; [reflexivity|].
  destruct (f32_is_zero v); [apply IH|].
  unfold sort_pairs. cbn [fold_right]. fold (sort_pairs (from_dense_at (i + 1) r)). rewrite IH.
  destruct (from_dense_at (i + 1) r) as [|y l] eqn:E; [reflexivity|].
  cbn [ins_pair fst]. assert (K : i + 1 <= fst y) by (apply (from_dense_at_keys r (i + 1)); rewrite E; left; reflexivity).
  destruct (N.leb_spec i (fst y)); [reflexivity|lia].
Qed.

Lemma filter_combine_seq : forall (d : list N) i,
  filter (fun pv => negb (f32_is_zero (snd pv))) (combine (N_seq_from i (length d)) d) = from_dense_at i d.
Proof.
  induction d as [|v r IH]; intros i; [reflexivity|].
  cbn [length N_seq_from combine filter snd from_dense_at]. rewrite IH.
  replace (N.succ i) with (i + 1) by lia. destruct (f32_is_zero v); reflexivity.
Qed.

Lemma combine_seq_in_range : forall (d : list N) i pv, In pv (combine (N_seq_from i (length d)) d) -> fst pv < i + N.of_nat (length d).
Proof.
  induction d as [|v r IH]; intros i pv H; [destruct H|].
  cbn [length N_seq_from combine] in H. destruct H as [<-|H]; [cbn [fst length]; lia|].
  specialize (IH _ _ H). cbn [length]. lia.
Qed.

Theorem from_parts_dense : forall d : list N,
  from_parts (N.of_nat (length d)) (N_seq_from 0 (length d)) d = Some (from_dense d).
Proof.
  intros d. unfold from_parts.
  assert (E : existsb (fun pv => N.leb (N.of_nat (length d)) (fst pv)) (combine (N_seq_from 0 (length d)) d) = false).
  { destruct (existsb _ _) eqn:X; [|reflexivity]. apply existsb_exists in X. destruct X as [pv [I L]].
    apply N.leb_le in L. apply combine_seq_in_range in I. lia. }
  rewrite E, filter_combine_seq, sort_from_dense_at. reflexivity.
Qed.

Theorem from_parts_roundtrip : forall d : list N,
  option_map to_dense (from_parts (N.of_nat (length d)) (N_seq_from 0 (length d)) d) = Some (map norm_zero d).
Proof. intros d. rewrite from_parts_dense. cbn [option_map]. rewrite sparse_roundtrip. reflexivity. Qed.

(* ---- SparseVector::set on a well-formed (strictly position-sorted) vector ---- *)
Fixpoint keys_above (lo : N) (l : list (N * N)) : Prop :=
  match l with [] => True | (p, _) :: r => lo <= p /\ keys_above (p + 1) r end.
Definition sv_wf (s : N * list (N * N)) : Prop := keys_above 0 (snd s).
Definition get_pairs (l : list (N * N)) (j : N) : N :=
  match find (fun pv => N.eqb (fst pv) j) l with Some pv => snd pv | None => 0 end.

Lemma keys_above_weaken : forall l lo lo', lo' <= lo -> keys_above lo l -> keys_above lo' l.
Proof. destruct l as [|[p x] r]; cbn; intros lo lo' L H; [exact I|]. destruct H as [H1 H2]. split; [lia|exact H2]. Qed.

Lemma get_below : forall l lo j, keys_above lo l -> j < lo -> get_pairs l j = 0.
Proof.
  induction l as [|[p x] r IH]; intros lo j H L; [reflexivity|]. cbn in H. destruct H as [H1 H2].
  unfold get_pairs. cbn [find fst]. destruct (N.eqb_spec p j) as [->|Ne]; [lia|].
  apply (IH (p + 1) j H2). lia.
Qed.

Lemma from_dense_at_above : forall d i, keys_above i (from_dense_at i d).
Proof.
  induction d as [|v r IH]; intros i; cbn [from_dense_at]; [exact I|].
  destruct (f32_is_zero v).
  - apply (keys_above_weaken _ (i + 1)); [lia|apply IH].
  - cbn. split; [lia|apply IH].
Qed.

Lemma sv_set_pairs_spec : forall l lo i v, keys_above lo l -> lo <= i ->
  keys_above lo (sv_set_pairs l i v) /\
  forall j, get_pairs (sv_set_pairs l i v) j = if N.eqb j i then norm_zero v else get_pairs l j.
Proof.
  induction l as [|[p x] r IH]; intros lo i v H L.
  - cbn [sv_set_pairs]. unfold norm_zero. destruct (f32_is_zero v) eqn:Z.
    + split; [exact I|]. intros j. destruct (N.eqb j i); reflexivity.
    + split; [cbn; split; [exact L|exact I]|]. intros j. unfold get_pairs. cbn [find fst snd].
      rewrite (N.eqb_sym j i). destruct (N.eqb i j); reflexivity.
  - cbn in H. destruct H as [H1 H2]. cbn [sv_set_pairs]. unfold norm_zero.
    destruct (N.ltb_spec i p) as [Lt|Ge].
    + destruct (f32_is_zero v) eqn:Z.
      * split; [cbn; split; assumption|]. intros j. destruct (N.eqb_spec j i) as [->|]; [|reflexivity].
        apply (get_below ((p, x) :: r) p i); [cbn; split; [lia|exact H2]|exact Lt].
      * split; [cbn; split; [exact L|split; [lia|exact H2]]|].
        intros j. unfold get_pairs. cbn [find fst snd]. rewrite (N.eqb_sym j i). destruct (N.eqb i j); reflexivity.
    + destruct (N.eqb_spec i p) as [->|Ne].
      * destruct (f32_is_zero v) eqn:Z.
        -- split; [apply (keys_above_weaken _ (p + 1)); [lia|exact H2]|].
           intros j. destruct (N.eqb_spec j p) as [->|Nj].
           ++ apply (get_below r (p + 1) p H2). lia.
           ++ unfold get_pairs. cbn [find fst]. destruct (N.eqb_spec p j); [congruence|reflexivity].
        -- split; [cbn; split; [exact H1|exact H2]|].
           intros j. unfold get_pairs. cbn [find fst snd]. destruct (N.eqb_spec p j) as [<-|Nj].
           ++ rewrite N.eqb_refl. reflexivity.
           ++ destruct (N.eqb_spec j p); [congruence|reflexivity].
      * assert (Lp : p + 1 <= i) by lia.
        destruct (IH (p + 1) i v H2 Lp) as [K G]. fold (norm_zero v) in G.
        split; [cbn; split; [exact H1|exact K]|].
        intros j. unfold get_pairs in *. cbn [find fst snd]. destruct (N.eqb_spec p j) as [<-|Nj].
        -- destruct (N.eqb_spec p i); [congruence|reflexivity].
        -- apply G.
Qed.

(* set(i, v) on a well-formed sparse vector: index >= dimension is refused; otherwise the result is well formed
   again and reads back, coordinate by coordinate, as the old vector with coordinate i overwritten by v
   (-0.0 / +0.0 meaning "absent") *)
Theorem sv_set_spec : forall s i v,
  sv_wf s ->
  (fst s <= i -> sv_set s i v = None) /\
  (i < fst s -> exists s', sv_set s i v = Some s' /\ fst s' = fst s /\ sv_wf s' /\
                forall j, sv_get s' j = if N.eqb j i then norm_zero v else sv_get s j).
Proof.
  intros s i v W. unfold sv_set. split; intros L.
  - destruct (N.leb_spec (fst s) i); [reflexivity|lia].
  - destruct (N.leb_spec (fst s) i); [lia|]. eexists. split; [reflexivity|]. cbn [fst snd].
    destruct (sv_set_pairs_spec (snd s) 0 i v W (N.le_0_l i)) as [K G]. split; [reflexivity|]. split; [exact K|exact G].
Qed.
Theorem from_dense_wf : forall d, sv_wf (from_dense d).
Proof. intros d. unfold sv_wf, from_dense. cbn [snd]. apply from_dense_at_above. Qed.

(* the forged-input decoder is total and length-preserving: whatever the positions, the result has exactly
   `dimension` entries (no out-of-bounds write, no growth) *)
Lemma set_at_length : forall l i v, length (set_at l i v) = length l.
Proof. induction l as [|h t IH]; intros [|i] v; cbn; auto. Qed.
Lemma repeatN_length x n : length (repeatN x n) = n.
Proof. induction n; cbn; auto. Qed.
Theorem fsparse_decode_length : forall dim ps vs, length (fsparse_decode dim ps vs) = N.to_nat dim.
Proof.
  intros dim ps vs. unfold fsparse_decode.
  assert (F : forall l acc, length (fold_left (fun acc pv => if N.ltb (fst pv) dim then set_at acc (N.to_nat (fst pv)) (snd pv) else acc) l acc) = length acc).
  { induction l as [|pv l IH]; intros acc; cbn [fold_left]; [reflexivity|]. rewrite IH. destruct (N.ltb (fst pv) dim); [apply set_at_length|reflexivity]. }
  rewrite F. apply repeatN_length.
Qed.
(* on the positions a well-formed encoder produces it is to_dense *)
Theorem fsparse_decode_wellformed : forall d,
  fsparse_decode (N.of_nat (length d)) (map fst (from_dense_at 0 d)) (map snd (from_dense_at 0 d)) = map norm_zero d.
Proof.
  intros d. rewrite <- sparse_roundtrip. unfold fsparse_decode, to_dense, from_dense. cbn [fst snd].
  assert (C : combine (map fst (from_dense_at 0 d)) (map snd (from_dense_at 0 d)) = from_dense_at 0 d).
  { generalize (from_dense_at 0 d). induction l as [|[a b] l IH]; cbn; [reflexivity|]. rewrite IH. reflexivity. }
  rewrite C.
  assert (R : forall l, (forall pv, In pv l -> fst pv < N.of_nat (length d)) -> forall acc,
     fold_left (fun acc pv => if N.ltb (fst pv) (N.of_nat (length d)) then set_at acc (N.to_nat (fst pv)) (snd pv) else acc) l acc
     = fold_left (fun acc pv => set_at acc (N.to_nat (fst pv)) (snd pv)) l acc).
  { induction l as [|pv l IH]; intros H acc; cbn [fold_left]; [reflexivity|].
    assert (L : fst pv < N.of_nat (length d)) by (apply H; left; reflexivity).
    apply N.ltb_lt in L. rewrite L. apply IH. intros q I. apply H. right. exact I. }
  apply R. intros pv I.
  assert (K : forall (d0 : list N) i pv, In pv (from_dense_at i d0) -> fst pv < i + N.of_nat (length d0)).
  { induction d0 as [|v r IH]; intros i q Hq; cbn [from_dense_at] in Hq; [destruct Hq|]. cbn [length].
    destruct (f32_is_zero v).
    - specialize (IH _ _ Hq). lia.
    - destruct Hq as [<-|Hq]; [cbn; lia|]. specialize (IH _ _ Hq). lia. }
  specialize (K d 0 pv I). lia.
Qed.

(* ================================================================= frames *)
Lemma de_be32_be32 n : n < W32 -> de_be32 (be32 n) = n.
Proof. intros H. unfold de_be32, be32, W32 in *. lia. Qed.

Section FramesP.
  Variable msg : Type.
  Variable ser : msg -> list N.
  Variable deser : list N -> option msg.
  Variable compress : list N -> list N.
  Variable decompress : list N -> option (list N).
  Hypothesis deser_ser : forall m, deser (ser m) = Some m.
  Hypothesis decompress_compress : forall d, decompress (compress d) = Some d.

  Notation encode_v1 := (encode_v1 msg ser).
  Notation decode_payload_v1 := (decode_payload_v1 msg deser).
  Notation encode_v2 := (encode_v2 msg ser compress).
  Notation decode_payload_v2 := (decode_payload_v2 msg deser decompress).

  Lemma split_of_frame c (p : list N) : p <> [] -> len p <= max_frame c -> len p < W32 ->
    split_frame c (be32 (len p) ++ p) = FOk (p, []).
  Proof.
    intros Hne Hm Hw. unfold split_frame.
    assert (Nat.ltb (length (be32 (len p) ++ p)) 4 = false) as ->.
    { apply Nat.ltb_ge. rewrite app_length. cbn. lia. }
    change (firstn 4 (be32 (len p) ++ p)) with (be32 (len p)).
    change (skipn 4 (be32 (len p) ++ p)) with p.
    rewrite de_be32_be32 by exact Hw.
    assert (len p <> 0). { unfold len. destruct p; [congruence|cbn; lia]. }
    assert (N.eqb (len p) 0 = false) as -> by lia.
    assert (N.ltb (max_frame c) (len p) = false) as -> by lia.
    assert (N.ltb (len p) (len p) = false) as -> by lia.
    unfold len. rewrite Nat2N.id, firstn_all, skipn_all. reflexivity.
  Qed.

  (* v1: whatever encode accepts, the peer's split + decode returns *)
  Theorem frame_v1_roundtrip : forall c m fr, ser m <> [] ->
    encode_v1 c m = FOk fr ->
    split_frame c fr = FOk (ser m, []) /\ decode_payload_v1 c (ser m) = FOk m.
  Proof.
    intros c m fr Hne E. unfold Model.encode_v1 in E.
    destruct (N.ltb_spec (max_frame c) (len (ser m))) as [|Hm]; [discriminate|].
    destruct (N.leb_spec W32 (len (ser m))) as [|Hw]; [discriminate|].
    injection E as <-. split.
    - apply split_of_frame; assumption.
    - unfold Model.decode_payload_v1. assert (N.ltb (max_frame c) (len (ser m)) = false) as -> by lia.
      rewrite deser_ser. reflexivity.
  Qed.

  (* v2: needs the sender-side check on the UNCOMPRESSED size (the receiver enforces the limit
     after decompression) *)
  Theorem frame_v2_roundtrip : forall c m fr,
    encode_v2 true true c m = FOk fr ->
    exists content, split_frame c fr = FOk (content, []) /\ decode_payload_v2 c content = FOk m.
  Proof.
    intros c m fr E. unfold Model.encode_v2 in E. cbn [andb] in E.
    destruct (N.ltb_spec (max_frame c) (len (ser m))) as [|Hs]; [discriminate|].
    set (pf := if comp_enabled c && N.leb (min_size c) (len (ser m))
               then (let z := if method_lz4 c then compress (ser m) else ser m in
                     if N.ltb (len z) (len (ser m)) then (z, if method_lz4 c then 1 else 0) else (ser m, 0))
               else (ser m, 0)) in *.
    assert (Hpf : (pf = (ser m, 0)) \/ (pf = (compress (ser m), 1))).
    { unfold pf. destruct (comp_enabled c && N.leb (min_size c) (len (ser m))); [|left; reflexivity].
      destruct (method_lz4 c); cbn zeta.
      - destruct (N.ltb (len (compress (ser m))) (len (ser m))); [right|left]; reflexivity.
      - destruct (N.ltb (len (ser m)) (len (ser m))); left; reflexivity. }
    destruct pf as [payload flags].
    destruct (N.ltb_spec (max_frame c) (1 + len payload)) as [|Hm]; [discriminate|].
    destruct (N.leb_spec W32 (1 + len payload)) as [|Hw]; [discriminate|].
    injection E as <-. exists (flags :: payload). split.
    - assert (EL : 1 + len payload = len (flags :: payload)) by (unfold len; cbn [length]; lia).
      rewrite EL. apply split_of_frame; [discriminate|lia|lia].
    - unfold Model.decode_payload_v2.
      destruct Hpf as [[= -> ->]|[= -> ->]]; cbn [N.eqb].
      + change (N.eqb (0 mod 2) 0) with true. cbv iota.
        assert (N.ltb (max_frame c) (len (ser m)) = false) as -> by lia.
        rewrite deser_ser. reflexivity.
      + change (N.eqb (1 mod 2) 0) with false. cbv iota. rewrite decompress_compress.
        assert (N.ltb (max_frame c) (len (ser m)) = false) as -> by lia.
        rewrite deser_ser. reflexivity.
  Qed.

  (* the receiver never buffers more than the configured limit for one frame *)
  Theorem split_frame_bounded : forall c bs p rest,
    split_frame c bs = FOk (p, rest) -> len p <= max_frame c.
  Proof.
    intros c bs p rest E. unfold split_frame in E.
    destruct (Nat.ltb (length bs) 4); [discriminate|].
    set (n := de_be32 (firstn 4 bs)) in *. clearbody n.
    destruct (N.eqb n 0); [discriminate|].
    destruct (N.ltb_spec (max_frame c) n) as [|Hm]; [discriminate|].
    destruct (N.ltb (len (skipn 4 bs)) n); [discriminate|]. injection E as <- <-.
    unfold len. rewrite firstn_length.
    pose proof (Nat.le_min_l (N.to_nat n) (length (skipn 4 bs))) as Hmin.
    set (k := Nat.min (N.to_nat n) (length (skipn 4 bs))) in *. clearbody k.
    set (mx := max_frame c) in *. clearbody mx. clear - Hm Hmin. lia.
  Qed.
End FramesP.

(* without the sender-side check the v2 round trip is false: a 5-byte message that compresses to
   1 byte under a 3-byte limit is accepted by encode and rejected by decode (F-C20-frame) *)
Lemma frame_v2_refuted :
  let ser := fun (m : list N) => m in
  let deser := fun (b : list N) => Some b in
  let compress := fun (d : list N) => [N.of_nat (length d)] in
  let decompress := fun (z : list N) => match z with [n] => Some (repeatN 7 (N.to_nat n)) | _ => None end in
  let c := Codec 3 true 1 true in
  exists fr content, encode_v2 (list N) ser compress false true c [7; 7; 7; 7; 7] = FOk fr /\
    split_frame c fr = FOk (content, []) /\
    decode_payload_v2 (list N) deser decompress c content = FErr (ETooLarge 5 3).
Proof. cbv zeta. eexists. eexists. vm_compute. repeat split. Qed.

(* without the check on the frame content the v2 round trip is false as well: a 3-byte message under a
   3-byte limit is framed as 4 bytes (flags + payload), which the reader's length check rejects *)
Lemma frame_v2_unframed_refuted :
  let ser := fun (m : list N) => m in
  let compress := fun (d : list N) => d in
  let c := Codec 3 false 0 false in
  exists fr, encode_v2 (list N) ser compress true false c [7; 7; 7] = FOk fr /\
    split_frame c fr = FErr (ETooLarge 4 3).
Proof. cbv zeta. eexists. vm_compute. repeat split. Qed.

(* ================================================================= received sparse vectors *)
Definition rsv_wf (v : rsv) : Prop :=
  length (rpos v) = length (rvals v) /\ Forall (fun p => p < rdim v) (rpos v).

Lemma validate_wf : forall max_dim mag_ok v,
  validate_rsv (VC true true true) max_dim mag_ok v = true -> rsv_wf v /\ strictly_sorted (rpos v) = true.
Proof.
  intros max_dim mag_ok v H. unfold validate_rsv in H. cbn [vc_lens vc_bounds_all vc_sorted negb orb] in H.
  repeat (apply andb_prop in H; destruct H as [H ?]).
  split; [split|assumption].
  - apply Nat.eqb_eq. assumption.
  - apply Forall_forall. intros p Hp.
    match goal with Hf : forallb _ (rpos v) = true |- _ => rewrite forallb_forall in Hf; specialize (Hf p Hp) end.
    apply N.ltb_lt. assumption.
Qed.

Lemma set_nth_opt_some : forall l i x, (i < length l)%nat -> exists l', set_nth_opt l i x = Some l' /\ length l' = length l.
Proof.
  induction l as [|h t IH]; intros i x Hi; [cbn in Hi; lia|].
  destruct i as [|j]; cbn [set_nth_opt].
  - eexists. split; [reflexivity|reflexivity].
  - destruct (IH j x) as [l' [E L]]; [cbn in Hi; lia|]. rewrite E. cbn. eexists. split; [reflexivity|cbn; lia].
Qed.

Lemma to_dense_chk_some : forall pairs acc,
  Forall (fun px => (N.to_nat (fst px) < length acc)%nat) pairs -> exists d, to_dense_chk pairs acc = Some d.
Proof.
  induction pairs as [|[p x] r IH]; intros acc H; cbn [to_dense_chk]; [eauto|].
  inversion H as [|? ? Hp Hr]; subst. cbn [fst] in Hp.
  destruct (set_nth_opt_some acc (N.to_nat p) x Hp) as [acc' [E L]]. rewrite E.
  apply IH. rewrite L. exact Hr.
Qed.

(* a vector the validator accepts can be densified and read at every index without an out-of-range access *)
Theorem validated_consumers_safe : forall max_dim mag_ok v,
  validate_rsv (VC true true true) max_dim mag_ok v = true ->
  (exists d, rsv_to_dense v = Some d) /\ (forall i, exists x, rsv_get v i = Some x).
Proof.
  intros max_dim mag_ok v H. destruct (validate_wf _ _ _ H) as [[HL HB] _]. split.
  - unfold rsv_to_dense. apply to_dense_chk_some. rewrite repeat_length.
    apply Forall_forall. intros [p x] Hin. cbn [fst]. apply in_combine_l in Hin.
    rewrite Forall_forall in HB. specialize (HB p Hin). lia.
  - intros i. unfold rsv_get.
    assert (G : forall l k j, find_idx l i k = Some j -> (k <= j < k + length l)%nat).
    { induction l as [|y r IH]; intros k j E; cbn [find_idx] in E; [discriminate|].
      destruct (N.eqb y i); [injection E as <-; cbn; lia|]. apply IH in E. cbn. lia. }
    destruct (find_idx (rpos v) i 0) as [j|] eqn:E; [|eauto].
    apply G in E. destruct (nth_error (rvals v) j) as [x|] eqn:En; [eauto|].
    apply nth_error_None in En. lia.
Qed.

(* without the length check (the code before the repair) the statement is false: three positions, one value *)
Lemma validated_unequal_lengths_refuted :
  let v := RSV 4 [0; 1; 2] [1065353216] in
  validate_rsv (VC false true true) 1024 true v = true /\ rsv_get v 1 = None.
Proof. vm_compute. split; reflexivity. Qed.

(* checking the bound only from the second position on (a windows(2) loop) is not enough either *)
Lemma validated_first_position_refuted :
  let v := RSV 4 [9] [1065353216] in
  validate_rsv (VC true false true) 1024 true v = true /\ rsv_to_dense v = None.
Proof. vm_compute. split; reflexivity. Qed.

(* ================================================================= range requests *)
(* with the saturating count an accepted request asks for at most the configured number of blocks *)
Lemma block_req_sound (count : N -> N -> N) :
  (forall f t, f < W64 -> t < W64 -> f <= t -> count f t = N.min ((t - f) + 1) (W64 - 1)) ->
  forall maxb f t, f < W64 -> t < W64 -> maxb < W64 - 1 ->
  validate_block_req true count maxb f t = true -> f <= t /\ t - f + 1 <= maxb.
Proof.
  intros Hc maxb f t Hf Ht Hm H. unfold validate_block_req in H. cbn [andb] in H.
  apply andb_prop in H. destruct H as [H1 H2].
  apply negb_true_iff in H1. apply N.ltb_ge in H1. apply N.leb_le in H2.
  rewrite (Hc f t Hf Ht H1) in H2. unfold W64 in *. split; lia.
Qed.

(* with the machine's wrapping arithmetic (to - from + 1) the statement is false: the full range counts as 0 *)
Lemma block_req_wrapping_refuted :
  let count := fun f t => (((t + W64 - f) mod W64) + 1) mod W64 in
  validate_block_req true count 1000 0 (W64 - 1) = true /\ ~ ((W64 - 1) - 0 + 1 <= 1000).
Proof. split; [vm_compute; reflexivity|unfold W64; lia]. Qed.
