(* C20/Props.v -- pinned property theorems (statements only, closed by `exact`). *)
From NV.Common Require Import Base.
From NV.C20 Require Import Model Proofs Inst.
From NV.gen Require Import Gen_C20.
Open Scope N_scope.

Definition u64s (l : list N) : Prop := Forall (fun x => x < W64) l.

(* varint: every u64 list decodes back exactly *)
Theorem C20_varint_roundtrip : forall xs, u64s xs -> varint_decode (varint_encode xs) = xs.
Proof. exact varint_roundtrip. Qed.

(* varint decoder on ARBITRARY bytes: at most one value per input byte, each a u64 *)
Theorem C20_varint_decode_safe : forall bs,
  (length (varint_decode bs) <= length bs)%nat /\ u64s (varint_decode bs).
Proof. exact varint_decode_safe. Qed.

(* delta with the arithmetic found in the source: EVERY id list (unsorted, duplicates) round-trips *)
Theorem C20_delta_roundtrip : forall ids, u64s ids ->
  delta_decode gen_dadd (delta_encode gen_dsub ids) = ids.
Proof.
  intros ids F. apply (delta_roundtrip_on gen_dsub gen_dadd (fun _ _ => True) gen_delta_inv ids F).
  destruct ids; [exact I|apply chain_true].
Qed.

Theorem C20_compress_ids_roundtrip : forall ids, u64s ids ->
  decompress_ids gen_dadd (compress_ids gen_dsub ids) = ids.
Proof.
  intros ids F.
  apply (compress_ids_roundtrip_on gen_dsub gen_dadd (fun _ _ => True) gen_delta_inv gen_dsub_bounded ids F).
  destruct ids; [exact I|apply chain_true].
Qed.

(* the code before the repair (saturating arithmetic) refutes the unrestricted statement *)
Theorem C20_delta_saturating_refuted : delta_decode sat_add (delta_encode sat_sub [5; 3]) <> [5; 3].
Proof. rewrite sat_roundtrip_refuted. discriminate. Qed.

(* RLE (u32 run counters): exact for every list shorter than 2^32 *)
Theorem C20_rle_roundtrip : forall data, N.of_nat (length data) < W32 -> rle_decode (rle_encode data) = data.
Proof. exact rle_roundtrip. Qed.
Theorem C20_rle_len : forall data, N.of_nat (length data) < W32 -> rle_len (rle_encode data) = N.of_nat (length data).
Proof. exact rle_len_correct. Qed.

(* sparse vector: dense -> sparse -> dense is the identity on bit patterns except -0.0 |-> +0.0 *)
Theorem C20_sparse_roundtrip : forall d, to_dense (from_dense d) = map norm_zero d.
Proof. exact sparse_roundtrip. Qed.

(* the same vector assembled from its (position, value) parts -- the path snapshots and received messages
   take (SparseVector::from_parts) -- is the vector from_dense builds, and reads back bit-identically *)
Theorem C20_sparse_from_parts : forall d,
  from_parts (N.of_nat (length d)) (N_seq_from 0 (length d)) d = Some (from_dense d) /\
  option_map to_dense (from_parts (N.of_nat (length d)) (N_seq_from 0 (length d)) d) = Some (map norm_zero d).
Proof. exact (fun d => conj (from_parts_dense d) (from_parts_roundtrip d)). Qed.

(* SparseVector::set: a vector built by from_dense is well formed (positions strictly increasing), set keeps it
   well formed, refuses exactly the indices outside the dimension, and afterwards every coordinate reads back
   (get = binary search over the positions) as before except the one that was set *)
Theorem C20_sparse_set : forall d,
  sv_wf (from_dense d) /\
  forall s i v, sv_wf s ->
  (fst s <= i -> sv_set s i v = None) /\
  (i < fst s -> exists s', sv_set s i v = Some s' /\ fst s' = fst s /\ sv_wf s' /\
                forall j, sv_get s' j = if N.eqb j i then norm_zero v else sv_get s j).
Proof. exact (fun d => conj (from_dense_wf d) sv_set_spec). Qed.

(* tensor_compress::format's sparse decoder on arbitrary (forged, unsorted, out-of-range) positions never
   writes outside the vector -- the result always has `dimension` entries -- and on well-formed input it is
   the lossless read-back *)
Theorem C20_format_sparse_decoder_total : forall dim ps vs, length (fsparse_decode dim ps vs) = N.to_nat dim.
Proof. exact fsparse_decode_length. Qed.
Theorem C20_format_sparse_decoder_wellformed : forall d,
  fsparse_decode (N.of_nat (length d)) (map fst (from_dense_at 0 d)) (map snd (from_dense_at 0 d)) = map norm_zero d.
Proof. exact fsparse_decode_wellformed. Qed.

(* network frames, for any serialiser / compressor that are themselves inverse pairs *)
Theorem C20_frame_v1_roundtrip : forall (msg : Type) ser deser,
  (forall m : msg, deser (ser m) = Some m) ->
  forall c m fr, ser m <> [] -> encode_v1 msg ser c m = FOk fr ->
  split_frame c fr = FOk (ser m, []) /\ decode_payload_v1 msg deser c (ser m) = FOk m.
Proof.
  intros msg ser deser H.
  exact (frame_v1_roundtrip msg ser deser (fun d => d) (fun d => Some d) H (fun d => eq_refl)).
Qed.

Theorem C20_frame_v2_roundtrip : forall (msg : Type) ser deser compress decompress,
  (forall m : msg, deser (ser m) = Some m) -> (forall d, decompress (compress d) = Some d) ->
  forall c m fr, encode_v2 msg ser compress gen_v2_checks_serialized gen_v2_checks_frame c m = FOk fr ->
  exists content, split_frame c fr = FOk (content, []) /\
                  decode_payload_v2 msg deser decompress c content = FOk m.
Proof.
  intros msg ser deser compress decompress H1 H2. rewrite gen_v2_ok, gen_v2_frame_ok.
  exact (frame_v2_roundtrip msg ser deser compress decompress H1 H2).
Qed.

(* without the sender-side check (the code before the repair) the v2 statement is false *)
Theorem C20_frame_v2_unchecked_refuted :
  let ser := fun (m : list N) => m in
  let deser := fun (b : list N) => Some b in
  let compress := fun (d : list N) => [N.of_nat (length d)] in
  let decompress := fun (z : list N) => match z with [n] => Some (repeatN 7 (N.to_nat n)) | _ => None end in
  let c := Codec 3 true 1 true in
  exists fr content, encode_v2 (list N) ser compress false true c [7; 7; 7; 7; 7] = FOk fr /\
    split_frame c fr = FOk (content, []) /\
    decode_payload_v2 (list N) deser decompress c content = FErr (ETooLarge 5 3).
Proof. exact frame_v2_refuted. Qed.

(* ... and so is it without the sender-side check on the frame content *)
Theorem C20_frame_v2_unframed_refuted :
  let ser := fun (m : list N) => m in
  let compress := fun (d : list N) => d in
  let c := Codec 3 false 0 false in
  exists fr, encode_v2 (list N) ser compress true false c [7; 7; 7] = FOk fr /\
    split_frame c fr = FErr (ETooLarge 4 3).
Proof. exact frame_v2_unframed_refuted. Qed.

(* the receiver never buffers more than the configured limit for one frame *)
Theorem C20_split_frame_bounded : forall c bs p rest,
  split_frame c bs = FOk (p, rest) -> len p <= max_frame c.
Proof. exact split_frame_bounded. Qed.

(* received sparse vectors: whatever the deserialiser produced (three independent fields), if
   EmbeddingValidator::validate (with the checks found in the source) accepts it, then to_dense and get never
   index out of range -- "garbage is rejected, not passed on as a valid value" *)
Theorem C20_validated_vector_is_safe : forall max_dim mag_ok v,
  validate_rsv (VC gen_vc_lens gen_vc_bounds_all gen_vc_sorted) max_dim mag_ok v = true ->
  (exists d, rsv_to_dense v = Some d) /\ (forall i, exists x, rsv_get v i = Some x).
Proof. rewrite gen_validator_ok. exact validated_consumers_safe. Qed.

(* the two weaker validators that have existed (no length check: the code before the repair; bounds checked
   from the second position on) accept vectors on which a consumer indexes out of range *)
Theorem C20_validator_without_length_check_refuted :
  let v := RSV 4 [0; 1; 2] [1065353216] in
  validate_rsv (VC false true true) 1024 true v = true /\ rsv_get v 1 = None.
Proof. exact validated_unequal_lengths_refuted. Qed.
Theorem C20_validator_skipping_first_position_refuted :
  let v := RSV 4 [9] [1065353216] in
  validate_rsv (VC true false true) 1024 true v = true /\ rsv_to_dense v = None.
Proof. exact validated_first_position_refuted. Qed.
Example C20_validator_nonvacuous :
  validate_rsv (VC true true true) 1024 true (RSV 4 [0; 2] [1065353216; 1073741824]) = true.
Proof. reflexivity. Qed.

(* a BlockRequest the validator accepts (arithmetic regenerated from the source, on u64) asks for an ordered range
   of at most max_blocks_per_request blocks -- "decoders never accept more than their declared limits" *)
Theorem C20_block_request_within_limit : forall maxb f t, f < W64 -> t < W64 -> maxb < W64 - 1 ->
  validate_block_req gen_block_order_checked gen_block_count maxb f t = true -> f <= t /\ t - f + 1 <= maxb.
Proof.
  destruct gen_block_request_ok as [E Hc]. rewrite E. exact (block_req_sound gen_block_count Hc).
Qed.
(* with wrapping arithmetic the full range 0 ..= u64::MAX would count as 0 blocks and be accepted *)
Theorem C20_block_request_wrapping_refuted :
  let count := fun f t => (((t + W64 - f) mod W64) + 1) mod W64 in
  validate_block_req true count 1000 0 (W64 - 1) = true /\ ~ ((W64 - 1) - 0 + 1 <= 1000).
Proof. exact block_req_wrapping_refuted. Qed.

(* non-vacuity of the hypotheses used above *)
Example C20_nonvacuous :
  u64s [0; 5; 3; 18446744073709551615; 3] /\ N.of_nat (length [1; 1; 2]) < W32 /\
  encode_v2 (list N) (fun m => m) (fun d => d) true true (Codec 100 true 1 true) [1; 2; 3] = FOk (be32 4 ++ [0; 1; 2; 3]).
Proof. split; [repeat constructor|split; reflexivity]. Qed.

Print Assumptions C20_frame_v2_unframed_refuted.
Print Assumptions C20_validated_vector_is_safe.
Print Assumptions C20_block_request_within_limit.
Print Assumptions C20_block_request_wrapping_refuted.
Print Assumptions C20_validator_without_length_check_refuted.
Print Assumptions C20_validator_skipping_first_position_refuted.
Print Assumptions C20_varint_roundtrip.
Print Assumptions C20_varint_decode_safe.
Print Assumptions C20_delta_roundtrip.
Print Assumptions C20_compress_ids_roundtrip.
Print Assumptions C20_delta_saturating_refuted.
Print Assumptions C20_rle_roundtrip.
Print Assumptions C20_rle_len.
Print Assumptions C20_sparse_roundtrip.
Print Assumptions C20_frame_v1_roundtrip.
Print Assumptions C20_frame_v2_roundtrip.
Print Assumptions C20_frame_v2_unchecked_refuted.
Print Assumptions C20_split_frame_bounded.
Print Assumptions C20_sparse_from_parts.
Print Assumptions C20_format_sparse_decoder_total.
Print Assumptions C20_format_sparse_decoder_wellformed.
Print Assumptions C20_sparse_set.
