(* C20/Run.v -- executable entry points for the correspondence check and the property oracles. *)
From NV.Common Require Import Base.
From NV.C20 Require Import Model.
From NV.gen Require Import Gen_C20.
Open Scope N_scope.

Definition leq := list_eqb N.eqb.

(* varint: (values, impl bytes, impl decode of those bytes) *)
Definition varint_case := (list N * list N * list N)%type.
Definition check_varint (c : varint_case) : N :=
  let '(xs, ibytes, idec) := c in
  if negb (leq idec xs) then V_VIOLATION
  else if leq (varint_encode xs) ibytes && leq (varint_decode ibytes) idec then V_OK else V_MISMATCH.

(* varint decoder on arbitrary bytes: (bytes, impl decode) *)
Definition vdec_case := (list N * list N)%type.
Definition check_vdec (c : vdec_case) : N :=
  let '(bs, idec) := c in
  if negb (Nat.leb (length idec) (length bs) && forallb (fun x => N.ltb x W64) idec) then V_VIOLATION
  else if leq (varint_decode bs) idec then V_OK else V_MISMATCH.

(* delta: (ids, impl delta_encode, impl delta_decode of it, impl compress_ids, impl decompress_ids of it) *)
Definition delta_case := (list N * list N * list N * list N * list N)%type.
Definition check_delta (c : delta_case) : N :=
  let '(ids, ienc, idec, icomp, idecomp) := c in
  if negb (leq idec ids && leq idecomp ids) then V_VIOLATION
  else if leq (delta_encode gen_dsub ids) ienc && leq (delta_decode gen_dadd ienc) idec
          && leq (compress_ids gen_dsub ids) icomp && leq (decompress_ids gen_dadd icomp) idecomp
       then V_OK else V_MISMATCH.

(* rle: (data, impl values, impl run lengths, impl decode, impl len()) *)
Definition rle_case := (list N * list N * list N * list N * N)%type.
Definition check_rle (c : rle_case) : N :=
  let '(data, ivals, icounts, idec, ilen) := c in
  if negb (leq idec data && N.eqb ilen (N.of_nat (length data))) then V_VIOLATION
  else let enc := rle_encode data in
       if leq (map fst enc) ivals && leq (map snd enc) icounts && leq (rle_decode_parts ivals icounts) idec
       then V_OK else V_MISMATCH.

(* sparse: (dense bits, impl dimension, impl positions, impl value bits, impl to_dense bits) *)
Definition sparse_case := (list N * N * list N * list N * list N)%type.
Definition check_sparse (c : sparse_case) : N :=
  let '(d, idim, ipos, ivals, iback) := c in
  if negb (leq iback (map norm_zero d)) then V_VIOLATION
  else let s := from_dense d in
       if N.eqb (fst s) idim && leq (map fst (snd s)) ipos && leq (map snd (snd s)) ivals
          && leq (to_dense (idim, combine ipos ivals)) iback
       then V_OK else V_MISMATCH.

(* parts: (dimension, positions, value bits, implementation: None = refused, Some (positions, value bits,
   to_dense bits, get bits per index)).  Oracle (distinct in-range positions): reading the vector back gives
   every supplied value bit-identically at its position (-0.0 as +0.0) and +0.0 everywhere else. *)
Definition parts_case := (N * list N * list N * option (list N * list N * list N * list N))%type.
Fixpoint nodupb (l : list N) : bool :=
  match l with [] => true | x :: r => negb (existsb (N.eqb x) r) && nodupb r end.
Definition expect_dense (dim : N) (ps vs : list N) : list N :=
  map (fun i => match find (fun pv => N.eqb (fst pv) i) (combine ps vs) with
                | Some pv => norm_zero (snd pv) | None => 0 end) (N_seq dim).
Definition check_parts (c : parts_case) : N :=
  let '(dim, ps, vs, r) := c in
  let pairs := combine ps vs in
  let inrange := forallb (fun pv => N.ltb (fst pv) dim) pairs in
  let m := from_parts dim ps vs in
  match r with
  | None => if inrange then V_VIOLATION else match m with None => V_OK | Some _ => V_MISMATCH end
  | Some (ipos, ivals, iback, iget) =>
      if negb inrange then V_VIOLATION
      else if nodupb (map fst pairs) && negb (leq iback (expect_dense dim ps vs) && leq iget (expect_dense dim ps vs))
      then V_VIOLATION
      else match m with
           | Some sv => if leq (map fst (snd sv)) ipos && leq (map snd (snd sv)) ivals && leq (to_dense sv) iback
                        then V_OK else V_MISMATCH
           | None => V_MISMATCH
           end
  end.

(* svset: a sparse vector built from dense bits, then a sequence of set(index, value bits) calls;
   per call the implementation reports: refused?, positions, value bits, to_dense bits, get(j) bits for every j.
   Oracle: after every accepted call the vector reads back -- through to_dense AND through get -- as the dense
   vector with that coordinate overwritten (-0.0 as +0.0), positions strictly increasing; a refused call has an
   index outside the dimension. *)
Definition svset_obs := (bool * list N * list N * list N * list N)%type.
Definition svset_case := (list N * list (N * N) * list svset_obs)%type.
Fixpoint strictly_inc (l : list N) : bool :=
  match l with a :: ((b :: _) as r) => N.ltb a b && strictly_inc r | _ => true end.
Fixpoint svset_walk (dense : list N) (s : N * list (N * N)) (ops : list (N * N)) (os : list svset_obs) (mm : bool) : N :=
  match ops, os with
  | [], [] => if mm then V_MISMATCH else V_OK
  | (i, v) :: ops', (refused, ipos, ivals, iback, iget) :: os' =>
      let inr := N.ltb i (N.of_nat (length dense)) in
      if refused then (if inr then V_VIOLATION else svset_walk dense s ops' os' (mm || match sv_set s i v with None => false | Some _ => true end))
      else if negb inr then V_VIOLATION
      else
        let dense' := set_at dense (N.to_nat i) (norm_zero v) in
        if negb (leq iback dense' && leq iget dense' && strictly_inc ipos) then V_VIOLATION
        else match sv_set s i v with
             | Some s' => svset_walk dense' s' ops' os'
                            (mm || negb (leq (map fst (snd s')) ipos && leq (map snd (snd s')) ivals))
             | None => svset_walk dense' s ops' os' true
             end
  | _, _ => 9
  end.
Definition check_svset (c : svset_case) : N :=
  let '(d, ops, os) := c in svset_walk (map norm_zero d) (from_dense d) ops os false.

(* fdec: tensor_compress::format::decompress_vector on a forged VectorSparse:
   (dimension, positions as decoded ids, value bits, implementation: None = panicked / error, Some bits) *)
Definition fdec_case := (N * list N * list N * option (list N))%type.
Definition check_fdec (c : fdec_case) : N :=
  let '(dim, ps, vs, r) := c in
  match r with
  | None => V_VIOLATION                         (* a decoder must not panic or fail on bytes it can parse *)
  | Some back =>
      if negb (N.eqb (N.of_nat (length back)) dim) then V_VIOLATION
      else if leq back (fsparse_decode dim ps vs) then V_OK else V_MISMATCH
  end.

(* frames.  The serialiser and compressor are the real libraries: the case carries their outputs
   (s = bitcode bytes of the message, z = lz4 bytes of s).  Implementation results:
     frames as fres (list N); decode outcome codes: 0 = Ok and equal to the sent message,
     1 = Ok but a different message, 2 = MessageTooLarge, 3 = other error, 4 = not attempted *)
Definition fres_eqb (a b : fres (list N)) : bool :=
  match a, b with
  | FOk x, FOk y => leq x y
  | FErr (ETooLarge s m), FErr (ETooLarge s' m') => N.eqb s s' && N.eqb m m'
  | FErr EInvalid, FErr EInvalid | FErr ECompression, FErr ECompression | FErr EDeser, FErr EDeser => true
  | _, _ => false
  end.
Definition frame_case := (codec * list N * list N * fres (list N) * fres (list N) * N * N * N * N)%type.
Definition model_dec_code (r : fres unit) : N :=
  match r with FOk _ => 0 | FErr (ETooLarge _ _) => 2 | FErr _ => 3 end.
Definition check_frame (cs : frame_case) : N :=
  let '(c, s, z, iv1, iv2, d1, d2, r1, r2) := cs in
  let ser := fun _ : unit => s in
  let deser := fun b => if leq b s then Some tt else None in
  let comp := fun _ : list N => z in
  let decomp := fun b => if leq b z then Some s else None in
  (* oracle: whatever encode accepted, decode returned, equal to what was sent *)
  (* d = decode_payload(_v2) on the frame content, r = read_frame(_v2) on the whole frame (the transport path) *)
  let ok1 := match iv1 with FOk _ => N.eqb d1 0 && N.eqb r1 0 | FErr _ => true end in
  let ok2 := match iv2 with FOk _ => N.eqb d2 0 && N.eqb r2 0 | FErr _ => true end in
  if negb (ok1 && ok2) then V_VIOLATION
  else
    let m1 := encode_v1 unit ser c tt in
    let m2 := encode_v2 unit ser comp gen_v2_checks_serialized gen_v2_checks_frame c tt in
    let rd := fun (dec : list N -> fres unit) (m : fres (list N)) =>
      match m with
      | FOk fr => match split_frame c fr with
                  | FOk (p, _) => model_dec_code (dec p)
                  | FErr (ETooLarge _ _) => 2
                  | FErr _ => 3
                  end
      | FErr _ => 4
      end in
    let mr1 := rd (decode_payload_v1 unit deser c) m1 in
    let mr2 := rd (decode_payload_v2 unit deser decomp c) m2 in
    let md1 := match m1 with FOk fr => model_dec_code (decode_payload_v1 unit deser c (skipn 4 fr)) | FErr _ => 4 end in
    let md2 := match m2 with FOk fr => model_dec_code (decode_payload_v2 unit deser decomp c (skipn 4 fr)) | FErr _ => 4 end in
    if fres_eqb m1 iv1 && fres_eqb m2 iv2 && N.eqb md1 d1 && N.eqb md2 d2 && N.eqb mr1 r1 && N.eqb mr2 r2 then V_OK else V_MISMATCH.

(* stream split on arbitrary bytes: (codec, bytes, impl read_frame class):
     0 = a payload was extracted (then decoded or failed to deserialize), 2 = MessageTooLarge,
     3 = invalid / eof / short read *)
Definition split_case := (codec * list N * N)%type.
Definition check_split (cs : split_case) : N :=
  let '(c, bs, icls) := cs in
  let m := match split_frame c bs with FOk _ => 0 | FErr (ETooLarge _ _) => 2 | FErr _ => 3 end in
  if N.eqb m icls then V_OK else V_MISMATCH.

(* received sparse vectors: (dimension, positions, value bits, max_dimension, impl accepted?, a consumer panicked?).
   The harness keeps magnitudes far below the limit, so mag_ok = true. *)
Definition valid_case := (N * list N * list N * N * bool * bool)%type.
Definition check_valid (cs : valid_case) : N :=
  let '(d, ps, vs, maxd, iacc, ipanic) := cs in
  let v := RSV d ps vs in
  let safe := match rsv_to_dense v with Some _ => true | None => false end
              && forallb (fun i => match rsv_get v i with Some _ => true | None => false end) (N_seq (N.min d 64)) in
  (* oracle: an accepted vector is well formed and no consumer panicked on it *)
  if iacc && (ipanic || negb safe) then V_VIOLATION
  else if Bool.eqb (validate_rsv (VC gen_vc_lens gen_vc_bounds_all gen_vc_sorted) maxd true v) iacc then V_OK else V_MISMATCH.

(* range requests: (max_blocks_per_request, from, to, impl accepted?, impl panicked?) *)
Definition breq_case := (N * N * N * bool * bool)%type.
Definition check_breq (cs : breq_case) : N :=
  let '(maxb, f, t, iacc, ipanic) := cs in
  (* oracle: no panic; an accepted request is ordered and within the limit *)
  if ipanic || (iacc && negb (N.leb f t && N.leb (t - f + 1) maxb)) then V_VIOLATION
  else if Bool.eqb (validate_block_req gen_block_order_checked gen_block_count maxb f t) iacc then V_OK else V_MISMATCH.

(* tensor_compress::format sparse snapshot encoding: (dense bits, sparse form chosen?, bits decoded after a trip
   through CompressedSnapshot serialize/deserialize, decode ok?) -- the format is lossless: same law as the
   sparse vector (every bit pattern identical, -0.0 read back as +0.0) *)
Definition fsparse_case := (list N * bool * list N * bool)%type.
Definition check_fsparse (c : fsparse_case) : N :=
  let '(d, chosen, back, ok) := c in
  if negb chosen then V_OK
  else if negb ok || negb (leq back (map norm_zero d)) then V_VIOLATION
  else if leq (to_dense (from_dense d)) back then V_OK else V_MISMATCH.
