(* Common/Base.v -- shared definitions for every property model.
   Definitions only + tiny lemmas; stdlib only. *)
From Coq Require Export List NArith ZArith Bool Lia.
From Coq Require Export ZifyBool ZifyNat ZifyN.
Export ListNotations.

(* Verdict codes printed by every cases.v:
     0      model and implementation agree and the property oracle holds
     1      correspondence mismatch (model output <> implementation output)
     2      the property oracle is FALSE on the implementation's own outputs
     10+k   oracle false, but the input lies in known-finding class k *)
Definition V_OK : N := 0%N.
Definition V_MISMATCH : N := 1%N.
Definition V_VIOLATION : N := 2%N.
Definition V_KNOWN (k : N) : N := (10 + k)%N.

Fixpoint list_eqb {A} (eqb : A -> A -> bool) (l1 l2 : list A) : bool :=
  match l1, l2 with
  | [], [] => true
  | x :: xs, y :: ys => eqb x y && list_eqb eqb xs ys
  | _, _ => false
  end.

Definition option_eqb {A} (eqb : A -> A -> bool) (o1 o2 : option A) : bool :=
  match o1, o2 with
  | None, None => true
  | Some x, Some y => eqb x y
  | _, _ => false
  end.

Definition pair_eqb {A B} (ea : A -> A -> bool) (eb : B -> B -> bool) (p q : A * B) : bool :=
  ea (fst p) (fst q) && eb (snd p) (snd q).

Lemma list_eqb_spec {A} (eqb : A -> A -> bool) :
  (forall x y, eqb x y = true <-> x = y) ->
  forall l1 l2, list_eqb eqb l1 l2 = true <-> l1 = l2.
Proof.
  intros H. induction l1 as [|x xs IH]; destruct l2 as [|y ys]; cbn; split; intros E;
    try reflexivity; try discriminate.
  - apply andb_true_iff in E. destruct E as [E1 E2]. apply H in E1. apply IH in E2. congruence.
  - inversion E; subst. apply andb_true_iff. split; [apply H; reflexivity|apply IH; reflexivity].
Qed.

(* N-indexed sequence 0..n-1, by structural recursion on a nat count *)
Fixpoint N_seq_from (start : N) (count : nat) : list N :=
  match count with
  | O => []
  | S c => start :: N_seq_from (N.succ start) c
  end.
Definition N_seq (n : N) : list N := N_seq_from 0 (N.to_nat n).

(* association lists keyed by N *)
Section Assoc.
  Context {V : Type}.
  Fixpoint aget (l : list (N * V)) (k : N) : option V :=
    match l with
    | [] => None
    | (k', v) :: r => if N.eqb k' k then Some v else aget r k
    end.
  Fixpoint aset (l : list (N * V)) (k : N) (v : V) : list (N * V) :=
    match l with
    | [] => [(k, v)]
    | (k', v') :: r => if N.eqb k' k then (k, v) :: r else (k', v') :: aset r k v
    end.
  Fixpoint adel (l : list (N * V)) (k : N) : list (N * V) :=
    match l with
    | [] => []
    | (k', v') :: r => if N.eqb k' k then adel r k else (k', v') :: adel r k
    end.

  Lemma aget_aset l k v k' :
    aget (aset l k v) k' = if N.eqb k k' then Some v else aget l k'.
  Proof.
    induction l as [|[k0 v0] r IH]; cbn.
    - reflexivity.
    - destruct (N.eqb_spec k0 k) as [->|Hne]; cbn.
      + destruct (N.eqb k k'); reflexivity.
      + destruct (N.eqb_spec k0 k') as [->|Hne'].
        * destruct (N.eqb_spec k k'); [congruence|reflexivity].
        * exact IH.
  Qed.

  Lemma aget_adel l k k' :
    aget (adel l k) k' = if N.eqb k k' then None else aget l k'.
  Proof.
    induction l as [|[k0 v0] r IH]; cbn.
    - destruct (N.eqb k k'); reflexivity.
    - destruct (N.eqb_spec k0 k) as [->|Hne]; cbn.
      + rewrite IH. destruct (N.eqb k k'); reflexivity.
      + destruct (N.eqb_spec k0 k') as [->|Hne'].
        * destruct (N.eqb_spec k k'); [congruence|reflexivity].
        * exact IH.
  Qed.
End Assoc.
