(* Common/Crc32Fast.v -- the same CRC-32 as WalFormat.crc32, computed on primitive 63-bit
   integers so that the model can be RUN (vm_compute) on log files of several kilobytes at
   every truncation offset.  Used by Run.v files only; the theorems are about an abstract
   crc (a Section variable), so nothing proved depends on this file.  Its agreement with the
   bit-serial reference [crc32] is checked on the standard vector and a 300-byte pattern, and
   its agreement with crc32fast (the Rust crate) is checked byte-for-byte on every real log
   file the harness produces. *)
From Coq Require Import Uint63.
From NV.Common Require Import Base WalFormat.
Open Scope N_scope.

Definition n2i (n : N) : int := Uint63.of_Z (Z.of_N n).
Definition i2n (i : int) : N := Z.to_N (Uint63.to_Z i).

Definition poly : int := 3988292384%uint63.
Definition ustep (c : int) : int :=
  if Uint63.eqb (Uint63.land c 1%uint63) 1%uint63
  then Uint63.lxor (Uint63.lsr c 1%uint63) poly else Uint63.lsr c 1%uint63.
Definition ubyte (c : int) (b : N) : int :=
  ustep (ustep (ustep (ustep (ustep (ustep (ustep (ustep (Uint63.lxor c (n2i b))))))))).
Definition crc32u (bs : list byte) : N :=
  i2n (Uint63.land (Uint63.lxor (fold_left ubyte bs 4294967295%uint63) 4294967295%uint63)
                   4294967295%uint63).

Example crc32u_check : crc32u [49; 50; 51; 52; 53; 54; 55; 56; 57] = 3421780262.
Proof. vm_compute. reflexivity. Qed.
Example crc32u_agrees :
  let bs := map (fun i => (i * 37 + 11) mod 256) (N_seq 300) in crc32u bs = crc32 bs.
Proof. vm_compute. reflexivity. Qed.
