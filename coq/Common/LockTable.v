(* Common/LockTable.v -- the lock table shared by the 2PC key locks
   (tensor_chain/src/distributed_tx.rs LockManager: locks : key -> KeyLock,
   tx_locks : tx -> Vec<key>) and the relational row locks
   (relational_engine/src/transaction.rs RowLockManager, same shape, no handle).
   DEFINITIONS ONLY (facts are in Common/LockTableFacts.v).  Time is an explicit `now`. *)
From NV.Common Require Import Base.
Open Scope N_scope.

(* KeyLock { tx_id, lock_handle, acquired_at_ms, timeout_ms } *)
Record lock := L { owner : N; handle : N; acquired : N; timeout : N }.

Definition lock_eqb (a b : lock) : bool :=
  N.eqb (owner a) (owner b) && N.eqb (handle a) (handle b)
  && N.eqb (acquired a) (acquired b) && N.eqb (timeout a) (timeout b).

(* is_expired: now.saturating_sub(acquired_at_ms) > timeout_ms   (N subtraction truncates at 0) *)
Definition expired (now : N) (l : lock) : bool := N.ltb (timeout l) (now - acquired l).

(* locks: key -> lock;  idx: owner -> keys (a Vec: duplicates possible, order = insertion) *)
Record table := T { locks : list (N * lock); idx : list (N * list N) }.
Definition empty : table := T [] [].

Definition keys_of (t : table) (tx : N) : list N :=
  match aget (idx t) tx with Some l => l | None => [] end.

(* lock_holder / is_locked: expiry is checked lazily *)
Definition holder (now : N) (t : table) (k : N) : option N :=
  match aget (locks t) k with
  | Some e => if expired now e then None else Some (owner e)
  | None => None
  end.
Definition is_locked (now : N) (t : table) (k : N) : bool :=
  match holder now t k with Some _ => true | None => false end.
Definition lock_count (t : table) : N := N.of_nat (length (locks t)).

(* does key k block tx?  (held, unexpired, by somebody else) *)
Definition blocks (now tx : N) (lk : list (N * lock)) (k : N) : option N :=
  match aget lk k with
  | Some e => if negb (expired now e) && negb (N.eqb (owner e) tx) then Some (owner e) else None
  | None => None
  end.

(* the check loop of try_lock: owner of the FIRST blocking key, in request order *)
Fixpoint first_conflict (now tx : N) (keys : list N) (lk : list (N * lock)) : option N :=
  match keys with
  | [] => None
  | k :: r => match blocks now tx lk k with
              | Some o => Some o
              | None => first_conflict now tx r lk
              end
  end.

(* the check loop of try_lock_with_wait_tracking: ALL blocking owners (a set, first-seen order)
   and the conflicting keys (a Vec, request order, duplicates kept) *)
Definition mem (x : N) (l : list N) : bool := existsb (N.eqb x) l.
Definition set_add (x : N) (l : list N) : list N := if mem x l then l else l ++ [x].
Definition set_remove (x : N) (l : list N) : list N := filter (fun y => negb (N.eqb y x)) l.

Fixpoint all_conflicts (now tx : N) (keys : list N) (lk : list (N * lock)) (bs ks : list N)
  : list N * list N :=
  match keys with
  | [] => (bs, ks)
  | k :: r => match blocks now tx lk k with
              | Some o => all_conflicts now tx r lk (set_add o bs) (ks ++ [k])
              | None => all_conflicts now tx r lk bs ks
              end
  end.

Definition insert_all (lk : list (N * lock)) (keys : list N) (l : lock) : list (N * lock) :=
  fold_left (fun m k => aset m k l) keys lk.

(* "acquire all locks": every key gets the same fresh lock record; tx_locks[tx].extend(keys) *)
Definition acquire (now tx h tmo : N) (keys : list N) (t : table) : table :=
  T (insert_all (locks t) keys (L tx h now tmo)) (aset (idx t) tx (keys_of t tx ++ keys)).

(* try_lock: inl handle = granted, inr owner = refused *)
Definition try_lock (now tx h tmo : N) (keys : list N) (t : table) : table * (N + N) :=
  match first_conflict now tx keys (locks t) with
  | Some o => (t, inr o)
  | None => (acquire now tx h tmo keys t, inl h)
  end.

(* release(tx): tx_locks.remove(tx); each listed key is unlocked only if still owned by tx *)
Definition release_key (tx : N) (m : list (N * lock)) (k : N) : list (N * lock) :=
  match aget m k with
  | Some e => if N.eqb (owner e) tx then adel m k else m
  | None => m
  end.
Definition release (tx : N) (t : table) : table :=
  match aget (idx t) tx with
  | None => t
  | Some ks => T (fold_left (release_key tx) ks (locks t)) (adel (idx t) tx)
  end.

(* locks.remove(key); tx_locks[lock.tx].retain(|k| k != key)   (the entry stays, maybe empty) *)
Definition drop_key (ix : list (N * list N)) (tx k : N) : list (N * list N) :=
  match aget ix tx with
  | Some ks => aset ix tx (set_remove k ks)
  | None => ix
  end.
Definition remove_locked (t : table) (k : N) : table :=
  match aget (locks t) k with
  | Some e => T (adel (locks t) k) (drop_key (idx t) (owner e) k)
  | None => t
  end.

Definition keys_where (p : lock -> bool) (lk : list (N * lock)) : list N :=
  map fst (filter (fun kl => p (snd kl)) lk).

(* release_by_handle(h) *)
Definition handle_keys (h : N) (lk : list (N * lock)) : list N :=
  keys_where (fun e => N.eqb (handle e) h) lk.
Definition release_by_handle (h : N) (t : table) : table :=
  fold_left remove_locked (handle_keys h (locks t)) t.
(* the tx whose wait edges the _with_wait_cleanup variant removes (None: no lock had this handle) *)
Definition handle_owner (h : N) (t : table) : option N :=
  match handle_keys h (locks t) with
  | [] => None
  | k :: _ => match aget (locks t) k with Some e => Some (owner e) | None => None end
  end.

(* cleanup_expired: returns the number of locks removed *)
Definition expired_keys (now : N) (lk : list (N * lock)) : list N := keys_where (expired now) lk.
Definition cleanup_expired (now : N) (t : table) : table * N :=
  let ks := expired_keys now (locks t) in
  (fold_left remove_locked ks t, N.of_nat (length ks)).
(* owners of the expired locks (a set) -- what cleanup_expired_with_wait_cleanup removes from the graph *)
Definition expired_owners (now : N) (lk : list (N * lock)) : list N :=
  fold_left (fun acc kl => if expired now (snd kl) then set_add (owner (snd kl)) acc else acc) lk [].
