(* Common/LockTableFacts.v -- facts about Common/LockTable.v used by C12 / C03 / C09. *)
From NV.Common Require Import Base LockTable.
Open Scope N_scope.
Arguments N.add : simpl never.
Arguments N.sub : simpl never.
Arguments N.eqb : simpl never.
Arguments N.ltb : simpl never.
Arguments N.leb : simpl never.

Lemma NoDup_app_intro {A} (l1 l2 : list A) :
  NoDup l1 -> NoDup l2 -> (forall x, In x l1 -> In x l2 -> False) -> NoDup (l1 ++ l2).
Proof.
  induction l1 as [|a l1 IH]; cbn; intros N1 N2 D; [exact N2|].
  inversion N1 as [|? ? Hn N1']; subst. constructor.
  - rewrite in_app_iff. intros [H|H]; [contradiction|]. apply (D a); auto.
  - apply IH; auto. intros x H1 H2. apply (D x); auto.
Qed.

(* ---------------------------------------------------------------- association lists *)
Section AssocFacts.
  Context {V : Type}.
  Implicit Types (l : list (N * V)).

  Lemma aget_In l k v : aget l k = Some v -> In (k, v) l.
  Proof.
    induction l as [|[k0 v0] r IH]; cbn; [discriminate|].
    destruct (N.eqb_spec k0 k) as [->|Hne]; intros H.
    - injection H as ->. now left.
    - right. auto.
  Qed.

  Lemma aget_None_notin l k : aget l k = None -> ~ In k (map fst l).
  Proof.
    induction l as [|[k0 v0] r IH]; cbn; [tauto|].
    destruct (N.eqb_spec k0 k) as [->|Hne]; [discriminate|]. intros H [E|I]; [congruence|]. now apply IH.
  Qed.

  Lemma In_aget l k v : NoDup (map fst l) -> In (k, v) l -> aget l k = Some v.
  Proof.
    induction l as [|[k0 v0] r IH]; cbn; [tauto|]. intros ND [E|I].
    - injection E as -> ->. now rewrite N.eqb_refl.
    - inversion ND as [|? ? Hn ND']; subst. destruct (N.eqb_spec k0 k) as [->|Hne]; [|auto].
      exfalso. apply Hn. change k with (fst (k, v)). now apply in_map.
  Qed.

  Lemma aset_keys l k v :
    map fst (aset l k v) = if existsb (N.eqb k) (map fst l) then map fst l else map fst l ++ [k].
  Proof.
    induction l as [|[k0 v0] r IH]; cbn; [reflexivity|].
    destruct (N.eqb_spec k0 k) as [->|Hne]; cbn.
    - now rewrite N.eqb_refl.
    - destruct (N.eqb_spec k k0) as [->|_]; [congruence|]. cbn. rewrite IH.
      destruct (existsb _ _); reflexivity.
  Qed.

  Lemma aset_NoDup l k v : NoDup (map fst l) -> NoDup (map fst (aset l k v)).
  Proof.
    intros ND. rewrite aset_keys. destruct (existsb (N.eqb k) (map fst l)) eqn:E; [exact ND|].
    apply NoDup_app_intro; [exact ND|constructor; [tauto|constructor]|].
    intros x Hx [E'|[]]. subst x. assert (existsb (N.eqb k) (map fst l) = true); [|congruence].
    apply existsb_exists. exists k. split; [exact Hx|apply N.eqb_refl].
  Qed.

  Lemma adel_keys l k : map fst (adel l k) = filter (fun x => negb (N.eqb x k)) (map fst l).
  Proof.
    induction l as [|[k0 v0] r IH]; cbn; [reflexivity|].
    destruct (N.eqb_spec k0 k); cbn; [exact IH|now rewrite IH].
  Qed.

  Lemma adel_NoDup l k : NoDup (map fst l) -> NoDup (map fst (adel l k)).
  Proof. intros ND. rewrite adel_keys. now apply NoDup_filter. Qed.
End AssocFacts.


(* ---------------------------------------------------------------- small set facts *)
Lemma mem_In x l : mem x l = true <-> In x l.
Proof.
  unfold mem. rewrite existsb_exists. split.
  - intros [y [Hy E]]. apply N.eqb_eq in E. now subst.
  - intros H. exists x. split; [exact H|apply N.eqb_refl].
Qed.
Lemma mem_nIn x l : mem x l = false <-> ~ In x l.
Proof. rewrite <- mem_In. destruct (mem x l); split; congruence. Qed.

Lemma set_add_In x y l : In y (set_add x l) <-> y = x \/ In y l.
Proof.
  unfold set_add. destruct (mem x l) eqn:M.
  - apply mem_In in M. split; [tauto|]. intros [->|H]; auto.
  - rewrite in_app_iff. cbn. intuition.
Qed.
Lemma set_remove_In x y l : In y (set_remove x l) <-> In y l /\ y <> x.
Proof.
  unfold set_remove. rewrite filter_In. rewrite negb_true_iff, N.eqb_neq. tauto.
Qed.
Lemma set_add_NoDup x l : NoDup l -> NoDup (set_add x l).
Proof.
  intros ND. unfold set_add. destruct (mem x l) eqn:M; [exact ND|].
  apply mem_nIn in M. apply NoDup_app_intro; [exact ND|constructor; [tauto|constructor]|].
  intros y Hy [E'|[]]. subst y. contradiction.
Qed.
Lemma set_remove_NoDup x l : NoDup l -> NoDup (set_remove x l).
Proof. intros. now apply NoDup_filter. Qed.

(* ---------------------------------------------------------------- lock-map lemmas *)
Implicit Types (lk : list (N * lock)) (t : table).

Lemma insert_all_get lk keys l k :
  aget (insert_all lk keys l) k = if mem k keys then Some l else aget lk k.
Proof.
  unfold insert_all. revert lk. induction keys as [|k0 r IH]; intros lk; cbn [fold_left mem existsb].
  - reflexivity.
  - rewrite IH. fold (mem k r). destruct (mem k r); [now rewrite orb_true_r|].
    rewrite orb_false_r, aget_aset. rewrite (N.eqb_sym k0 k). reflexivity.
Qed.

Lemma insert_all_NoDup lk keys l : NoDup (map fst lk) -> NoDup (map fst (insert_all lk keys l)).
Proof.
  unfold insert_all. revert lk. induction keys as [|k0 r IH]; intros lk ND; cbn; [exact ND|].
  apply IH. now apply aset_NoDup.
Qed.

Lemma release_fold_get tx ks lk k :
  aget (fold_left (release_key tx) ks lk) k =
  match aget lk k with
  | Some e => if N.eqb (owner e) tx && mem k ks then None else Some e
  | None => None
  end.
Proof.
  revert lk. induction ks as [|k0 r IH]; intros lk; cbn [fold_left mem existsb].
  - destruct (aget lk k); [now rewrite andb_false_r|reflexivity].
  - rewrite IH. fold (mem k r). unfold release_key.
    destruct (aget lk k0) as [e0|] eqn:G0.
    + destruct (N.eqb_spec (owner e0) tx) as [Ho|Ho].
      * rewrite aget_adel. rewrite (N.eqb_sym k k0). destruct (N.eqb_spec k0 k) as [->|Hk].
        -- rewrite G0. rewrite Ho, N.eqb_refl. reflexivity.
        -- cbn. reflexivity.
      * destruct (N.eqb_spec k k0) as [->|Hk]; [|reflexivity].
        rewrite G0. destruct (N.eqb_spec (owner e0) tx); [contradiction|reflexivity].
    + destruct (N.eqb_spec k k0) as [->|Hk]; [now rewrite G0|reflexivity].
Qed.

Lemma release_fold_NoDup tx ks lk : NoDup (map fst lk) -> NoDup (map fst (fold_left (release_key tx) ks lk)).
Proof.
  revert lk. induction ks as [|k0 r IH]; intros lk ND; cbn; [exact ND|]. apply IH.
  unfold release_key. destruct (aget lk k0); [|exact ND]. destruct (N.eqb _ _); [now apply adel_NoDup|exact ND].
Qed.

Lemma remove_locked_get t k k' :
  aget (locks (remove_locked t k)) k' = if N.eqb k k' then None else aget (locks t) k'.
Proof.
  unfold remove_locked. destruct (aget (locks t) k) eqn:G; cbn.
  - apply aget_adel.
  - destruct (N.eqb_spec k k') as [->|]; [exact G|reflexivity].
Qed.

Lemma remove_fold_get ks t k' :
  aget (locks (fold_left remove_locked ks t)) k' = if mem k' ks then None else aget (locks t) k'.
Proof.
  revert t. induction ks as [|k0 r IH]; intros t; cbn [fold_left mem existsb]; [reflexivity|].
  rewrite IH. fold (mem k' r). destruct (mem k' r); [now rewrite orb_true_r|].
  rewrite orb_false_r, remove_locked_get. rewrite (N.eqb_sym k0 k'). reflexivity.
Qed.

Lemma keys_where_In p lk k :
  In k (keys_where p lk) <-> exists e, In (k, e) lk /\ p e = true.
Proof.
  unfold keys_where. rewrite in_map_iff. split.
  - intros [[k0 e] [E H]]. cbn in E. subst. apply filter_In in H. exists e. tauto.
  - intros [e [H P]]. exists (k, e). split; [reflexivity|]. apply filter_In. auto.
Qed.

(* ---------------------------------------------------------------- invariants *)
(* key uniqueness of the lock map (a HashMap) *)
Definition Uniq t : Prop := NoDup (map fst (locks t)).
(* forward-index invariant: every held key is listed under its owner *)
Definition IdxInv t : Prop := forall k e, aget (locks t) k = Some e -> In k (keys_of t (owner e)).
Definition TInv t : Prop := Uniq t /\ IdxInv t.

Lemma empty_TInv : TInv empty.
Proof. split; [constructor|]. intros k e H. discriminate. Qed.

Lemma keys_of_aset t tx l tx' :
  keys_of (T (locks t) (aset (idx t) tx l)) tx' = if N.eqb tx tx' then l else keys_of t tx'.
Proof. unfold keys_of; cbn. rewrite aget_aset. destruct (N.eqb tx tx'); reflexivity. Qed.

Lemma acquire_TInv now tx h tmo keys t : TInv t -> TInv (acquire now tx h tmo keys t).
Proof.
  intros [U I]. split.
  - unfold Uniq, acquire; cbn. now apply insert_all_NoDup.
  - intros k e. unfold acquire; cbn [locks]. rewrite insert_all_get.
    unfold keys_of; cbn [idx]. rewrite aget_aset.
    destruct (mem k keys) eqn:M.
    + intros [= <-]. cbn. rewrite N.eqb_refl. apply in_or_app. right. now apply mem_In.
    + intros G. destruct (N.eqb_spec tx (owner e)) as [->|Hne].
      * apply in_or_app. left. exact (I _ _ G).
      * exact (I _ _ G).
Qed.

Lemma release_TInv tx t : TInv t -> TInv (release tx t).
Proof.
  intros [U I]. unfold release. destruct (aget (idx t) tx) as [ks|] eqn:G; [|split; assumption].
  split.
  - unfold Uniq; cbn. now apply release_fold_NoDup.
  - intros k e. cbn [locks]. rewrite release_fold_get.
    destruct (aget (locks t) k) as [e0|] eqn:G0; [|discriminate].
    destruct (N.eqb_spec (owner e0) tx) as [Ho|Ho]; cbn [andb].
    + destruct (mem k ks) eqn:M; [discriminate|]. intros [= <-].
      exfalso. apply mem_nIn in M. apply M. pose proof (I _ _ G0) as Hin. unfold keys_of in Hin.
      rewrite Ho, G in Hin. exact Hin.
    + intros [= <-]. unfold keys_of; cbn [idx]. rewrite aget_adel.
      destruct (N.eqb_spec tx (owner e0)); [congruence|]. exact (I _ _ G0).
Qed.

Lemma remove_locked_TInv t k : TInv t -> TInv (remove_locked t k).
Proof.
  intros [U I]. unfold remove_locked. destruct (aget (locks t) k) as [e|] eqn:G; [|split; assumption].
  split.
  - unfold Uniq; cbn. now apply adel_NoDup.
  - intros k' e'. cbn [locks]. rewrite aget_adel. destruct (N.eqb_spec k k') as [->|Hk]; [discriminate|].
    intros G'. pose proof (I _ _ G') as Hin. unfold keys_of in *; cbn [idx]. unfold drop_key.
    destruct (aget (idx t) (owner e)) as [ks|] eqn:Gi; [|exact Hin].
    rewrite aget_aset. destruct (N.eqb_spec (owner e) (owner e')) as [Ho|Ho]; [|exact Hin].
    rewrite <- Ho, Gi in Hin. apply set_remove_In. split; [exact Hin|congruence].
Qed.

Lemma remove_fold_TInv ks t : TInv t -> TInv (fold_left remove_locked ks t).
Proof. revert t. induction ks as [|k r IH]; intros t H; cbn; [exact H|]. apply IH. now apply remove_locked_TInv. Qed.

Lemma try_lock_TInv now tx h tmo keys t : TInv t -> TInv (fst (try_lock now tx h tmo keys t)).
Proof.
  intros H. unfold try_lock. destruct (first_conflict _ _ _ _); cbn; [exact H|now apply acquire_TInv].
Qed.
Lemma release_by_handle_TInv h t : TInv t -> TInv (release_by_handle h t).
Proof. intros. now apply remove_fold_TInv. Qed.
Lemma cleanup_expired_TInv now t : TInv t -> TInv (fst (cleanup_expired now t)).
Proof. intros. now apply remove_fold_TInv. Qed.

(* ---------------------------------------------------------------- the lock-table properties *)

Lemma holder_Some now t k a :
  holder now t k = Some a <-> exists e, aget (locks t) k = Some e /\ expired now e = false /\ owner e = a.
Proof.
  unfold holder. destruct (aget (locks t) k) as [e|]; [|split; [discriminate|intros [? [? _]]; discriminate]].
  destruct (expired now e) eqn:E; split.
  - discriminate.
  - intros [e' [[= <-] [E' _]]]. congruence.
  - intros [= <-]. eauto.
  - intros [e' [[= <-] [_ <-]]]. reflexivity.
Qed.

Lemma first_conflict_None now tx keys lk :
  first_conflict now tx keys lk = None <-> forall k, In k keys -> blocks now tx lk k = None.
Proof.
  induction keys as [|k0 r IH]; cbn; [split; [intros _ k []|reflexivity]|].
  destruct (blocks now tx lk k0) eqn:B.
  - split; [discriminate|]. intros H. specialize (H k0 (or_introl eq_refl)). congruence.
  - rewrite IH. split; [intros H k [<-|Hk]; auto|intros H k Hk; auto].
Qed.

Lemma first_conflict_Some now tx keys lk o :
  first_conflict now tx keys lk = Some o -> exists k, In k keys /\ blocks now tx lk k = Some o.
Proof.
  induction keys as [|k0 r IH]; cbn; [discriminate|].
  destruct (blocks now tx lk k0) eqn:B.
  - intros [= <-]. exists k0. auto.
  - intros H. destruct (IH H) as [k [Hk Bk]]. exists k. auto.
Qed.

Lemma blocks_holder now tx t k o :
  blocks now tx (locks t) k = Some o <-> holder now t k = Some o /\ o <> tx.
Proof.
  unfold blocks, holder. destruct (aget (locks t) k) as [e|]; [|split; [discriminate|intros [? _]; discriminate]].
  destruct (expired now e); cbn; [split; [discriminate|intros [? _]; discriminate]|].
  destruct (N.eqb_spec (owner e) tx) as [Ho|Ho]; cbn.
  - split; [discriminate|]. intros [[= <-] Hne]. contradiction.
  - split; [intros [= <-]; auto|intros [[= <-] _]; reflexivity].
Qed.

(* a prepare that meets a key held by another unexpired transaction is refused, and nothing changes *)
Lemma try_lock_refuses now tx h tmo keys t k a :
  In k keys -> holder now t k = Some a -> a <> tx ->
  exists o, try_lock now tx h tmo keys t = (t, inr o).
Proof.
  intros Hk Hh Hne. unfold try_lock.
  destruct (first_conflict now tx keys (locks t)) as [o|] eqn:F; [eauto|].
  exfalso. rewrite first_conflict_None in F. specialize (F k Hk).
  assert (B: blocks now tx (locks t) k = Some a) by (apply blocks_holder; auto). congruence.
Qed.

(* the reported conflicting owner really holds one of the requested keys *)
Lemma try_lock_refused_by_holder now tx h tmo keys t t' o :
  try_lock now tx h tmo keys t = (t', inr o) ->
  t' = t /\ o <> tx /\ exists k, In k keys /\ holder now t k = Some o.
Proof.
  unfold try_lock. destruct (first_conflict now tx keys (locks t)) as [o'|] eqn:F; [|discriminate].
  intros [= <- <-]. destruct (first_conflict_Some _ _ _ _ _ F) as [k [Hk B]].
  apply blocks_holder in B. destruct B. split; [reflexivity|]. split; [assumption|]. eauto.
Qed.

(* granting is all-or-nothing: on success EVERY requested key carries the new lock, every other key is untouched *)
Lemma try_lock_grants now tx h tmo keys t t' h' :
  try_lock now tx h tmo keys t = (t', inl h') ->
  h' = h /\
  (forall k, In k keys -> aget (locks t') k = Some (L tx h now tmo)) /\
  (forall k, ~ In k keys -> aget (locks t') k = aget (locks t) k) /\
  (forall k, In k keys -> blocks now tx (locks t) k = None).
Proof.
  unfold try_lock. destruct (first_conflict now tx keys (locks t)) as [o'|] eqn:F; [discriminate|].
  intros [= <- <-]. split; [reflexivity|]. unfold acquire; cbn [locks]. repeat split.
  - intros k Hk. rewrite insert_all_get. apply mem_In in Hk. now rewrite Hk.
  - intros k Hk. rewrite insert_all_get. apply mem_nIn in Hk. now rewrite Hk.
  - now apply first_conflict_None.
Qed.

Lemma fresh_lock_unexpired now tx h tmo : expired now (L tx h now tmo) = false.
Proof. unfold expired; cbn. rewrite N.sub_diag. apply N.ltb_ge. apply N.le_0_l. Qed.

Lemma try_lock_granted_holds now tx h tmo keys t t' h' k :
  try_lock now tx h tmo keys t = (t', inl h') -> In k keys -> holder now t' k = Some tx.
Proof.
  intros H Hk. destruct (try_lock_grants _ _ _ _ _ _ _ _ H) as [_ [G _]].
  unfold holder. rewrite (G k Hk), fresh_lock_unexpired. reflexivity.
Qed.

(* a granted request never disturbs a key held by somebody else *)
Lemma try_lock_keeps_foreign now tx h tmo keys t t' r k a :
  try_lock now tx h tmo keys t = (t', r) -> holder now t k = Some a -> a <> tx -> holder now t' k = Some a.
Proof.
  intros H Hh Hne. destruct r as [h'|o].
  - destruct (try_lock_grants _ _ _ _ _ _ _ _ H) as [_ [_ [G2 G3]]].
    destruct (in_dec N.eq_dec k keys) as [Hin|Hnin].
    + exfalso. specialize (G3 k Hin). assert (B: blocks now tx (locks t) k = Some a) by (apply blocks_holder; auto). congruence.
    + unfold holder in *. now rewrite (G2 k Hnin).
  - apply try_lock_refused_by_holder in H. destruct H as [-> _]. exact Hh.
Qed.

(* release(tx): with the forward-index invariant nothing owned by tx remains; foreign locks are untouched *)
Lemma release_none_left tx t : IdxInv t -> forall k e, aget (locks (release tx t)) k = Some e -> owner e <> tx.
Proof.
  intros I k e. unfold release. destruct (aget (idx t) tx) as [ks|] eqn:G.
  - cbn [locks]. rewrite release_fold_get. destruct (aget (locks t) k) as [e0|] eqn:G0; [|discriminate].
    destruct (N.eqb_spec (owner e0) tx) as [Ho|Ho]; cbn [andb]; [|intros [= <-]; exact Ho].
    destruct (mem k ks) eqn:M; [discriminate|]. exfalso. apply mem_nIn in M. apply M.
    pose proof (I _ _ G0) as Hin. unfold keys_of in Hin. now rewrite Ho, G in Hin.
  - intros G0 Ho. pose proof (I _ _ G0) as Hin. unfold keys_of in Hin. rewrite Ho, G in Hin. destruct Hin.
Qed.

Lemma release_keeps_foreign tx t k e :
  aget (locks t) k = Some e -> owner e <> tx -> aget (locks (release tx t)) k = Some e.
Proof.
  intros G Ho. unfold release. destruct (aget (idx t) tx) as [ks|]; [|exact G].
  cbn [locks]. rewrite release_fold_get, G. destruct (N.eqb_spec (owner e) tx); [contradiction|reflexivity].
Qed.

Lemma release_only_removes tx t k e : aget (locks (release tx t)) k = Some e -> aget (locks t) k = Some e.
Proof.
  unfold release. destruct (aget (idx t) tx) as [ks|]; [|auto]. cbn [locks]. rewrite release_fold_get.
  destruct (aget (locks t) k) as [e0|]; [|discriminate]. destruct (_ && _); [discriminate|auto].
Qed.

Lemma keys_of_release tx t : keys_of (release tx t) tx = [].
Proof.
  unfold release. destruct (aget (idx t) tx) as [ks|] eqn:G; unfold keys_of; cbn [idx].
  - rewrite aget_adel, N.eqb_refl. reflexivity.
  - now rewrite G.
Qed.

(* removal of the keys selected by a predicate on the visible lock *)
Lemma remove_where_get p t k :
  Uniq t ->
  aget (locks (fold_left remove_locked (keys_where p (locks t)) t)) k =
  match aget (locks t) k with Some e => if p e then None else Some e | None => None end.
Proof.
  intros U. rewrite remove_fold_get. destruct (aget (locks t) k) as [e|] eqn:G.
  - destruct (p e) eqn:P.
    + assert (M: mem k (keys_where p (locks t)) = true); [|now rewrite M].
      apply mem_In, keys_where_In. exists e. split; [now apply aget_In|exact P].
    + assert (M: mem k (keys_where p (locks t)) = false); [|now rewrite M].
      apply mem_nIn. intros H. apply keys_where_In in H. destruct H as [e' [Hin P']].
      apply (In_aget _ _ _ U) in Hin. congruence.
  - destruct (mem k _); reflexivity.
Qed.

Lemma release_by_handle_get h t k : Uniq t ->
  aget (locks (release_by_handle h t)) k =
  match aget (locks t) k with Some e => if N.eqb (handle e) h then None else Some e | None => None end.
Proof. intros U. unfold release_by_handle, handle_keys. now rewrite (remove_where_get _ _ _ U). Qed.

Lemma cleanup_expired_get now t k : Uniq t ->
  aget (locks (fst (cleanup_expired now t))) k =
  match aget (locks t) k with Some e => if expired now e then None else Some e | None => None end.
Proof. intros U. unfold cleanup_expired, expired_keys; cbn [fst]. now rewrite (remove_where_get _ _ _ U). Qed.

(* after cleanup no expired lock is left, and every unexpired holder is exactly as before *)
Lemma cleanup_expired_holder now t k : Uniq t -> holder now (fst (cleanup_expired now t)) k = holder now t k.
Proof.
  intros U. unfold holder. rewrite (cleanup_expired_get _ _ _ U).
  destruct (aget (locks t) k) as [e|]; [|reflexivity]. destruct (expired now e) eqn:E; [reflexivity|now rewrite E].
Qed.
Lemma cleanup_expired_none_expired now t k e : Uniq t ->
  aget (locks (fst (cleanup_expired now t))) k = Some e -> expired now e = false.
Proof.
  intros U. rewrite (cleanup_expired_get _ _ _ U). destruct (aget (locks t) k) as [e0|]; [|discriminate].
  destruct (expired now e0) eqn:E; [discriminate|]. now intros [= <-].
Qed.

(* expiry is monotone in time: an expired lock stays expired *)
Lemma expired_mono now now' e : now <= now' -> expired now e = true -> expired now' e = true.
Proof. unfold expired. rewrite !N.ltb_lt. lia. Qed.
