(* Common/WalFormat.v -- the V2 record framing shared by the three write-ahead logs
     tensor_store/src/wal.rs        (TensorWal)
     tensor_chain/src/raft_wal.rs   (RaftWal)
     tensor_chain/src/tx_wal.rs     (TxWal)
   A record is   u32 LE len | u32 LE crc32(payload) | payload   (stored crc 0 = unchecked).
   [replay] mirrors `replay_with_validation` (identical in the three files):
     EOF inside len / crc / payload => stop;  checksum mismatch => ERROR;  undecodable => stop.
   [repair] mirrors the tail repair done by `open` (fix: commits): the file is cut back to the
   end of the last structurally complete record, so that later appends are never written
   behind a torn record.
   Payload (de)serialisation (bitcode) is external: Section variables [ser]/[deser] with the
   explicit premise [deser (ser e) = Some e]; CRC-32 is a Section variable in the theorems and the
   concrete function [crc32] (bit-serial, reflected polynomial EDB88320) when the model runs. *)
From NV.Common Require Import Base.
Open Scope N_scope.
Ltac Zify.zify_post_hook ::= Z.div_mod_to_equations.

Definition byte := N.

(* ---------------------------------------------------------------- little-endian u32 *)
Definition le32 (n : N) : list byte :=
  [n mod 256; (n / 256) mod 256; (n / 65536) mod 256; (n / 16777216) mod 256].
Definition de32 (b : list byte) : N :=
  match b with
  | [a; b; c; d] => a + 256 * b + 65536 * c + 16777216 * d
  | _ => 0
  end.
Lemma de32_le32 n : n < 4294967296 -> de32 (le32 n) = n.
Proof. intros H. unfold de32, le32. lia. Qed.
Lemma le32_len n : length (le32 n) = 4%nat.
Proof. reflexivity. Qed.

(* ---------------------------------------------------------------- concrete CRC-32 (IEEE) *)
Definition crc_step (c : N) : N :=
  if N.odd c then N.lxor (N.shiftr c 1) 3988292384 else N.shiftr c 1.
Definition crc_byte (c b : N) : N :=
  crc_step (crc_step (crc_step (crc_step (crc_step (crc_step (crc_step (crc_step (N.lxor c b)))))))).
Definition crc32 (bs : list byte) : N :=
  (N.lxor (fold_left crc_byte bs 4294967295) 4294967295) mod 4294967296.
Lemma crc32_bound d : crc32 d < 4294967296.
Proof. unfold crc32. apply N.mod_lt. discriminate. Qed.
(* the standard check value: crc32("123456789") = 0xCBF43926 *)
Example crc32_check : crc32 [49; 50; 51; 52; 53; 54; 55; 56; 57] = 3421780262.
Proof. vm_compute. reflexivity. Qed.

(* ---------------------------------------------------------------- list helpers *)
Lemma firstn_app_le {A} (l1 l2 : list A) k :
  (k <= length l1)%nat -> firstn k (l1 ++ l2) = firstn k l1.
Proof.
  intros H. rewrite firstn_app. replace (k - length l1)%nat with 0%nat by lia.
  cbn. apply app_nil_r.
Qed.
Lemma firstn_app_ge {A} (l1 l2 : list A) k :
  (length l1 <= k)%nat -> firstn k (l1 ++ l2) = l1 ++ firstn (k - length l1) l2.
Proof. intros H. rewrite firstn_app. rewrite firstn_all2 by lia. reflexivity. Qed.
Lemma skipn_app_exact {A} (l1 l2 : list A) n : n = length l1 -> skipn n (l1 ++ l2) = l2.
Proof. intros ->. rewrite skipn_app, Nat.sub_diag, skipn_all. reflexivity. Qed.
Lemma firstn_app_exact {A} (l1 l2 : list A) n : n = length l1 -> firstn n (l1 ++ l2) = l1.
Proof. intros ->. rewrite firstn_app, Nat.sub_diag, firstn_all. cbn. apply app_nil_r. Qed.

Inductive res (entry : Type) := Ok (l : list entry) | ErrChecksum (idx : nat).
Arguments Ok {entry} l.
Arguments ErrChecksum {entry} idx.

Section W.
Variable entry : Type.
Variable ser : entry -> list byte.
Variable deser : list byte -> option entry.
Variable crc : list byte -> N.
Variable cks : bool.      (* writer: WalConfig.enable_checksums *)
Variable verify : bool.   (* reader: WalConfig.verify_on_replay *)

Definition stored_crc (p : list byte) : N := if cks then crc p else 0.

(* write_entry_no_sync / write_entry_bytes / TxWal::append: the bytes of one record *)
Definition frame (e : entry) : list byte :=
  let p := ser e in le32 (N.of_nat (length p)) ++ le32 (stored_crc p) ++ p.

Definition log_bytes (es : list entry) : list byte := flat_map frame es.

(* replay_with_validation *)
Fixpoint replay (fuel : nat) (idx : nat) (bs : list byte) : res entry :=
  match fuel with
  | O => Ok []
  | S f =>
    if (length bs <? 4)%nat then Ok [] else
    let len := N.to_nat (de32 (firstn 4 bs)) in
    let r1 := skipn 4 bs in
    if (length r1 <? 4)%nat then Ok [] else
    let c := de32 (firstn 4 r1) in
    let r2 := skipn 4 r1 in
    if (length r2 <? len)%nat then Ok [] else
    let data := firstn len r2 in
    let r3 := skipn len r2 in
    if verify && negb (c =? 0) && negb (c =? crc data) then ErrChecksum idx else
    match deser data with
    | None => Ok []
    | Some e => match replay f (S idx) r3 with
                | Ok l => Ok (e :: l)
                | err => err
                end
    end
  end.
(* every record consumes at least 8 bytes, so this fuel never runs out *)
Definition replay_file (bs : list byte) : res entry := replay (S (length bs)) 0 bs.

(* tail repair on open: the number of bytes covered by structurally complete records
   (length fields only -- checksums and payloads are not looked at) *)
Fixpoint scan_end (fuel : nat) (bs : list byte) : nat :=
  match fuel with
  | O => 0%nat
  | S f =>
    if (length bs <? 8)%nat then 0%nat else
    let len := N.to_nat (de32 (firstn 4 bs)) in
    let r := skipn 8 bs in
    if (length r <? len)%nat then 0%nat else (8 + len + scan_end f (skipn len r))%nat
  end.
Definition repair (bs : list byte) : list byte := firstn (scan_end (S (length bs)) bs) bs.

(* ================================================================ theorems *)
Hypothesis deser_ser : forall e, deser (ser e) = Some e.
Hypothesis crc_bound : forall d, crc d < 4294967296.

Definition wf (e : entry) := N.of_nat (length (ser e)) < 4294967296.

Lemma stored_crc_bound p : stored_crc p < 4294967296.
Proof. unfold stored_crc. destruct cks; [apply crc_bound | reflexivity]. Qed.

Lemma stored_crc_ok p :
  verify && negb (stored_crc p =? 0) && negb (stored_crc p =? crc p) = false.
Proof.
  unfold stored_crc. destruct cks.
  - rewrite N.eqb_refl. cbn. apply andb_false_r.
  - cbn. rewrite andb_false_r. reflexivity.
Qed.

Lemma frame_len e : length (frame e) = (8 + length (ser e))%nat.
Proof. unfold frame. rewrite !app_length, !le32_len. lia. Qed.

Lemma replay_frame : forall f idx e rest, wf e ->
  replay (S f) idx (frame e ++ rest) =
  match replay f (S idx) rest with Ok l => Ok (e :: l) | err => err end.
Proof.
  intros f idx e rest Hwf. unfold frame. cbn [replay].
  set (p := ser e).
  assert (L: (length ((le32 (N.of_nat (length p)) ++ le32 (stored_crc p) ++ p) ++ rest) <? 4)%nat = false).
  { apply Nat.ltb_ge. rewrite !app_length, le32_len. lia. }
  rewrite L. rewrite <- !app_assoc.
  change (firstn 4 (le32 (N.of_nat (length p)) ++ le32 (stored_crc p) ++ p ++ rest))
    with (le32 (N.of_nat (length p))).
  change (skipn 4 (le32 (N.of_nat (length p)) ++ le32 (stored_crc p) ++ p ++ rest))
    with (le32 (stored_crc p) ++ p ++ rest).
  rewrite de32_le32 by exact Hwf. rewrite Nat2N.id.
  assert (L2: (length (le32 (stored_crc p) ++ p ++ rest) <? 4)%nat = false).
  { apply Nat.ltb_ge. rewrite !app_length, le32_len. lia. }
  rewrite L2.
  change (firstn 4 (le32 (stored_crc p) ++ p ++ rest)) with (le32 (stored_crc p)).
  change (skipn 4 (le32 (stored_crc p) ++ p ++ rest)) with (p ++ rest).
  rewrite de32_le32 by apply stored_crc_bound.
  assert (L3: (length (p ++ rest) <? length p)%nat = false).
  { apply Nat.ltb_ge. rewrite app_length. lia. }
  rewrite L3. rewrite firstn_app_exact by reflexivity. rewrite skipn_app_exact by reflexivity.
  rewrite stored_crc_ok.
  unfold p at 1. rewrite deser_ser. reflexivity.
Qed.

Theorem replay_all : forall es f idx, Forall wf es -> (length es <= f)%nat ->
  replay (S f) idx (log_bytes es) = Ok es.
Proof.
  unfold log_bytes.
  induction es as [|e es IH]; intros f idx Hwf Hf.
  - reflexivity.
  - inversion Hwf; subst. cbn [flat_map]. destruct f; [cbn in Hf; lia|].
    rewrite replay_frame by assumption. rewrite IH; auto. cbn in Hf; lia.
Qed.

(* ---------------- crash = byte prefix ---------------- *)
(* a strict prefix of one frame replays to nothing (EOF in length / checksum / payload) *)
Lemma replay_torn : forall f idx e k, wf e -> (k < length (frame e))%nat ->
  replay f idx (firstn k (frame e)) = Ok [].
Proof.
  intros f idx e k Hwf Hk. destruct f; [reflexivity|]. cbn [replay].
  rewrite frame_len in Hk.
  assert (Lk: length (firstn k (frame e)) = k) by (rewrite firstn_length, frame_len; lia).
  destruct (Nat.ltb_spec (length (firstn k (frame e))) 4) as [|H4]; [reflexivity|].
  rewrite Lk in H4.
  assert (F4: firstn 4 (firstn k (frame e)) = le32 (N.of_nat (length (ser e)))).
  { rewrite firstn_firstn. replace (Nat.min 4 k) with 4%nat by lia. reflexivity. }
  rewrite F4. rewrite de32_le32 by exact Hwf. rewrite Nat2N.id.
  assert (L1: length (skipn 4 (firstn k (frame e))) = (k - 4)%nat)
    by (rewrite skipn_length, Lk; reflexivity).
  destruct (Nat.ltb_spec (length (skipn 4 (firstn k (frame e)))) 4) as [|H8]; [reflexivity|].
  rewrite L1 in H8.
  assert (L2: length (skipn 4 (skipn 4 (firstn k (frame e)))) = (k - 8)%nat)
    by (rewrite !skipn_length, Lk; lia).
  destruct (Nat.ltb_spec (length (skipn 4 (skipn 4 (firstn k (frame e))))) (length (ser e)))
    as [|H9]; [reflexivity|].
  rewrite L2 in H9. lia.
Qed.

(* number of complete records inside the first k bytes *)
Fixpoint complete (es : list entry) (k : nat) : nat :=
  match es with
  | [] => 0
  | e :: es' =>
      if (length (frame e) <=? k)%nat then S (complete es' (k - length (frame e))) else 0
  end.

(* THE crash-prefix theorem: for EVERY byte offset k, replaying the first k bytes of a clean
   log returns exactly the records that lie completely inside them -- never an error, never
   a partial record, never a record out of order. *)
Lemma replay_prefix_fuel : forall es f idx k, Forall wf es -> (complete es k < f)%nat ->
  replay f idx (firstn k (log_bytes es)) = Ok (firstn (complete es k) es).
Proof.
  unfold log_bytes.
  induction es as [|e es IH]; intros f idx k Hwf Hf.
  - cbn. rewrite firstn_nil. destruct f; reflexivity.
  - inversion Hwf; subst. cbn [flat_map complete] in *.
    destruct (Nat.leb_spec (length (frame e)) k) as [Hle|Hlt].
    + rewrite firstn_app_ge by exact Hle. destruct f; [lia|].
      rewrite replay_frame by assumption. rewrite IH; auto. lia.
    + rewrite firstn_app_le by lia. apply replay_torn; auto.
Qed.

Lemma complete_le es : forall k, (complete es k <= length es)%nat.
Proof.
  induction es as [|e es IH]; intros k; cbn [complete length]; [lia|].
  destruct (length (frame e) <=? k)%nat; [specialize (IH (k - length (frame e))%nat)|]; lia.
Qed.

Theorem replay_prefix : forall es f idx k, Forall wf es -> (length es < f)%nat ->
  replay f idx (firstn k (log_bytes es)) = Ok (firstn (complete es k) es).
Proof.
  intros es f idx k Hwf Hf. apply replay_prefix_fuel; [exact Hwf|].
  pose proof (complete_le es k). lia.
Qed.

Lemma log_bytes_len_ge es : (length es <= length (log_bytes es))%nat.
Proof.
  unfold log_bytes. induction es as [|e es IH]; cbn [flat_map length]; [lia|].
  rewrite app_length, frame_len. lia.
Qed.

(* bytes occupied by the first j records *)
Fixpoint bytes_upto (es : list entry) (j : nat) : nat :=
  match j, es with
  | S j', e :: es' => (length (frame e) + bytes_upto es' j')%nat
  | _, _ => 0
  end.

Lemma bytes_upto_log es : forall j, bytes_upto es j = length (log_bytes (firstn j es)).
Proof.
  unfold log_bytes. induction es as [|e es IH]; intros [|j]; cbn [bytes_upto firstn flat_map length]; try reflexivity.
  rewrite app_length, IH. reflexivity.
Qed.

Lemma complete_ge : forall es j k, (j <= length es)%nat -> (bytes_upto es j <= k)%nat ->
  (j <= complete es k)%nat.
Proof.
  induction es as [|e es IH]; intros j k Hj Hb; destruct j; cbn [complete bytes_upto length] in *; try lia.
  destruct (Nat.leb_spec (length (frame e)) k); [|lia]. apply le_n_S. apply IH; lia.
Qed.

Lemma complete_bytes_le : forall es k, (bytes_upto es (complete es k) <= k)%nat.
Proof.
  induction es as [|e es IH]; intros k; cbn [complete bytes_upto]; [lia|].
  destruct (Nat.leb_spec (length (frame e)) k); cbn [bytes_upto]; [|lia].
  specialize (IH (k - length (frame e))%nat). lia.
Qed.

(* the prefix read back is maximal: the next record does NOT fit *)
Lemma complete_maximal : forall es k, (complete es k < length es)%nat ->
  (k < bytes_upto es (S (complete es k)))%nat.
Proof.
  induction es as [|e es IH]; intros k Hc; cbn [complete bytes_upto length] in *; [lia|].
  destruct (Nat.leb_spec (length (frame e)) k); cbn [bytes_upto].
  - specialize (IH (k - length (frame e))%nat). cbn [bytes_upto] in IH. lia.
  - lia.
Qed.

Lemma replay_file_prefix es k : Forall wf es ->
  replay_file (firstn k (log_bytes es)) = Ok (firstn (complete es k) es).
Proof.
  intros Hwf. unfold replay_file.
  destruct (Nat.le_gt_cases k (length (log_bytes es))) as [Hk|Hk].
  - (* fuel: the surviving prefix has `complete es k` <= k records *)
    apply replay_prefix_fuel; [exact Hwf|].
    rewrite firstn_length. rewrite Nat.min_l by exact Hk.
    pose proof (complete_bytes_le es k) as Hb.
    pose proof (complete_le es k) as Hc.
    assert (Hd: (complete es k <= bytes_upto es (complete es k))%nat).
    { rewrite bytes_upto_log. etransitivity; [|apply log_bytes_len_ge].
      rewrite firstn_length. lia. }
    lia.
  - rewrite firstn_all2 by lia.
    assert (E: complete es k = length es).
    { pose proof (complete_ge es (length es) k (le_n _)) as G.
      rewrite bytes_upto_log, firstn_all in G. pose proof (complete_le es k). lia. }
    rewrite E, firstn_all. apply replay_all; [exact Hwf|]. apply log_bytes_len_ge.
Qed.

Lemma complete_lt : forall es j k, (k < bytes_upto es j)%nat -> (complete es k < j)%nat.
Proof.
  induction es as [|e es IH]; intros j k Hk; destruct j; cbn [complete bytes_upto] in *; try lia.
  destruct (Nat.leb_spec (length (frame e)) k); [|lia].
  apply -> Nat.succ_lt_mono. apply IH. lia.
Qed.

Lemma complete_all es k : (length (log_bytes es) <= k)%nat -> complete es k = length es.
Proof.
  intros H. pose proof (complete_ge es (length es) k (le_n _)) as G.
  rewrite bytes_upto_log, firstn_all in G. pose proof (complete_le es k). lia.
Qed.

Lemma replay_file_clean es : Forall wf es -> replay_file (log_bytes es) = Ok es.
Proof.
  intros Hwf. pose proof (replay_file_prefix es (length (log_bytes es)) Hwf) as H.
  rewrite firstn_all in H. rewrite H. rewrite complete_all by lia. rewrite firstn_all. reflexivity.
Qed.

(* every acknowledged (= completely written and synced) record survives, in order: if the crash
   point is at or after the end of record j, records 1..j are the head of the recovered list *)
Corollary acknowledged_survive : forall es k j, Forall wf es ->
  (j <= length es)%nat -> (bytes_upto es j <= k)%nat ->
  exists rest, replay_file (firstn k (log_bytes es)) = Ok (firstn j es ++ rest)
               /\ firstn j es ++ rest = firstn (complete es k) es.
Proof.
  intros es k j Hwf Hj Hb. rewrite replay_file_prefix by assumption.
  pose proof (complete_ge es j k Hj Hb) as Hc.
  exists (skipn j (firstn (complete es k) es)).
  assert (E: firstn j es = firstn j (firstn (complete es k) es)).
  { rewrite firstn_firstn. replace (Nat.min j (complete es k)) with j by lia. reflexivity. }
  rewrite E, firstn_skipn. split; reflexivity.
Qed.

(* ---------------- tail repair on open ---------------- *)
Lemma scan_frame : forall f e rest, wf e ->
  scan_end (S f) (frame e ++ rest) = (length (frame e) + scan_end f rest)%nat.
Proof.
  intros f e rest Hwf. cbn [scan_end]. rewrite frame_len.
  unfold frame. set (p := ser e). rewrite <- !app_assoc.
  assert (L: (length (le32 (N.of_nat (length p)) ++ le32 (stored_crc p) ++ p ++ rest) <? 8)%nat = false).
  { apply Nat.ltb_ge. rewrite !app_length, !le32_len. lia. }
  rewrite L.
  change (firstn 4 (le32 (N.of_nat (length p)) ++ le32 (stored_crc p) ++ p ++ rest))
    with (le32 (N.of_nat (length p))).
  change (skipn 8 (le32 (N.of_nat (length p)) ++ le32 (stored_crc p) ++ p ++ rest)) with (p ++ rest).
  rewrite de32_le32 by exact Hwf. rewrite Nat2N.id.
  assert (L3: (length (p ++ rest) <? length p)%nat = false).
  { apply Nat.ltb_ge. rewrite app_length. lia. }
  rewrite L3. rewrite skipn_app_exact by reflexivity. reflexivity.
Qed.

Lemma scan_torn : forall f e k, wf e -> (k < length (frame e))%nat ->
  scan_end f (firstn k (frame e)) = 0%nat.
Proof.
  intros f e k Hwf Hk. destruct f; [reflexivity|]. cbn [scan_end].
  rewrite frame_len in Hk.
  assert (Lk: length (firstn k (frame e)) = k) by (rewrite firstn_length, frame_len; lia).
  destruct (Nat.ltb_spec (length (firstn k (frame e))) 8) as [|H8]; [reflexivity|].
  rewrite Lk in H8.
  assert (F4: firstn 4 (firstn k (frame e)) = le32 (N.of_nat (length (ser e)))).
  { rewrite firstn_firstn. replace (Nat.min 4 k) with 4%nat by lia. reflexivity. }
  rewrite F4. rewrite de32_le32 by exact Hwf. rewrite Nat2N.id.
  assert (L2: length (skipn 8 (firstn k (frame e))) = (k - 8)%nat) by (rewrite skipn_length, Lk; lia).
  destruct (Nat.ltb_spec (length (skipn 8 (firstn k (frame e)))) (length (ser e))) as [|H9]; [reflexivity|].
  rewrite L2 in H9. lia.
Qed.

Lemma scan_prefix : forall es f k, Forall wf es -> (complete es k < f)%nat ->
  scan_end f (firstn k (log_bytes es)) = bytes_upto es (complete es k).
Proof.
  unfold log_bytes.
  induction es as [|e es IH]; intros f k Hwf Hf.
  - cbn. rewrite firstn_nil. destruct f; reflexivity.
  - inversion Hwf; subst. cbn [flat_map complete] in *.
    destruct (Nat.leb_spec (length (frame e)) k) as [Hle|Hlt].
    + rewrite firstn_app_ge by exact Hle. destruct f; [lia|].
      rewrite scan_frame by assumption. rewrite IH; [reflexivity|assumption|lia].
    + rewrite firstn_app_le by lia. cbn [bytes_upto]. apply scan_torn; auto.
Qed.

Lemma firstn_bytes_upto : forall es j, firstn (bytes_upto es j) (log_bytes es) = log_bytes (firstn j es).
Proof.
  unfold log_bytes. induction es as [|e es IH]; intros [|j]; cbn [bytes_upto firstn flat_map]; try reflexivity.
  rewrite firstn_app_ge by lia. replace (length (frame e) + bytes_upto es j - length (frame e))%nat
    with (bytes_upto es j) by lia. rewrite IH. reflexivity.
Qed.

Lemma bytes_upto_total : forall es j, (bytes_upto es j <= length (log_bytes es))%nat.
Proof.
  unfold log_bytes. induction es as [|e es IH]; intros [|j]; cbn [bytes_upto flat_map length]; try lia.
  rewrite app_length. specialize (IH j). lia.
Qed.

(* open after a crash at ANY byte offset leaves exactly the clean log of the surviving records *)
Theorem repair_prefix : forall es k, Forall wf es ->
  repair (firstn k (log_bytes es)) = log_bytes (firstn (complete es k) es).
Proof.
  intros es k Hwf. unfold repair.
  rewrite scan_prefix; [|exact Hwf|].
  - rewrite firstn_firstn. pose proof (complete_bytes_le es k).
    rewrite Nat.min_l by lia. apply firstn_bytes_upto.
  - pose proof (complete_bytes_le es k) as Hb. pose proof (complete_le es k) as Hc.
    assert (complete es k <= bytes_upto es (complete es k))%nat.
    { rewrite bytes_upto_log. etransitivity; [|apply log_bytes_len_ge]. rewrite firstn_length. lia. }
    rewrite firstn_length.
    destruct (Nat.le_gt_cases k (length (log_bytes es))).
    + rewrite Nat.min_l by lia. lia.
    + rewrite Nat.min_r by lia.
      pose proof (bytes_upto_total es (complete es k)). lia.
Qed.

Corollary repair_clean es : Forall wf es -> repair (log_bytes es) = log_bytes es.
Proof.
  intros Hwf. pose proof (repair_prefix es (length (log_bytes es)) Hwf) as H.
  rewrite firstn_all in H. rewrite H.
  assert (E: complete es (length (log_bytes es)) = length es).
  { pose proof (complete_ge es (length es) (length (log_bytes es)) (le_n _)) as G.
    rewrite bytes_upto_log, firstn_all in G. pose proof (complete_le es (length (log_bytes es))). lia. }
  rewrite E, firstn_all. reflexivity.
Qed.

(* ---------------- several generations: open (repair) / append / crash, repeated ---------------- *)
Lemma log_bytes_app a b : log_bytes (a ++ b) = log_bytes a ++ log_bytes b.
Proof. unfold log_bytes. apply flat_map_app. Qed.

Lemma complete_app : forall a b k, Forall wf a ->
  complete (a ++ b) (length (log_bytes a) + k) = (length a + complete b k)%nat.
Proof.
  induction a as [|e a IH]; intros b k Hwf; cbn [app complete length log_bytes flat_map].
  - reflexivity.
  - inversion Hwf; subst. fold (log_bytes a). rewrite app_length.
    destruct (Nat.leb_spec (length (frame e)) (length (frame e) + length (log_bytes a) + k)); [|lia].
    replace (length (frame e) + length (log_bytes a) + k - length (frame e))%nat
      with (length (log_bytes a) + k)%nat by lia.
    rewrite IH by assumption. reflexivity.
Qed.

(* One generation = (records appended after open, number of BYTES of those appends that reached
   the disk before the crash).  Bytes that were in the file at open time are durable, so the
   crash point is counted inside the appended region; k beyond the region = clean shutdown. *)
Definition generation := (list entry * nat)%type.
Definition gen_step (file : list byte) (g : generation) : list byte :=
  repair file ++ firstn (snd g) (log_bytes (fst g)).
Definition gen_logical (acc : list entry) (g : generation) : list entry :=
  acc ++ firstn (complete (fst g) (snd g)) (fst g).

Lemma gen_step_shape acc file g : Forall wf acc -> Forall wf (fst g) ->
  repair file = log_bytes acc ->
  gen_step file g = firstn (length (log_bytes acc) + snd g) (log_bytes (acc ++ fst g)).
Proof.
  intros Ha Hg Hr. unfold gen_step. rewrite Hr, log_bytes_app.
  rewrite firstn_app_ge by lia.
  replace (length (log_bytes acc) + snd g - length (log_bytes acc))%nat with (snd g) by lia.
  reflexivity.
Qed.

Lemma firstn_app_len {A} (a b : list A) c : firstn (length a + c) (a ++ b) = a ++ firstn c b.
Proof. rewrite firstn_app_ge by lia. replace (length a + c - length a)%nat with c by lia. reflexivity. Qed.

Theorem multi_generation_inv : forall gens file acc,
  Forall wf acc -> repair file = log_bytes acc ->
  Forall (fun g => Forall wf (fst g)) gens ->
  let file' := fold_left gen_step gens file in
  let acc' := fold_left gen_logical gens acc in
  Forall wf acc' /\ repair file' = log_bytes acc' /\
  (gens <> [] -> replay_file file' = Ok acc').
Proof.
  induction gens as [|g gens IH]; intros file acc Ha Hr Hg; cbn [fold_left].
  - split; [exact Ha|]. split; [exact Hr|]. intros C; congruence.
  - inversion Hg as [|? ? Hg1 Hg2]; subst.
    assert (Hall: Forall wf (acc ++ fst g)) by (apply Forall_app; split; assumption).
    pose proof (gen_step_shape acc file g Ha Hg1 Hr) as Hs.
    assert (Ha': Forall wf (gen_logical acc g)).
    { unfold gen_logical. apply Forall_app. split; [exact Ha|].
      rewrite <- (firstn_skipn (complete (fst g) (snd g)) (fst g)) in Hg1.
      apply Forall_app in Hg1. tauto. }
    assert (Hr': repair (gen_step file g) = log_bytes (gen_logical acc g)).
    { rewrite Hs, repair_prefix by exact Hall. rewrite complete_app by exact Ha.
      rewrite firstn_app_len. reflexivity. }
    specialize (IH (gen_step file g) (gen_logical acc g) Ha' Hr' Hg2).
    cbn zeta in IH. destruct IH as (I1 & I2 & I3).
    split; [exact I1|]. split; [exact I2|]. intros _.
    destruct gens as [|g2 gens].
    + cbn [fold_left]. rewrite Hs, replay_file_prefix by exact Hall.
      rewrite complete_app by exact Ha. rewrite firstn_app_len. reflexivity.
    + apply I3. discriminate.
Qed.

(* THE multi-generation theorem: any number of crash / reopen / append rounds, each crash at
   ANY byte; the log read back is the concatenation, in order, of what survived each round,
   and what survives a round includes every record of that round that was completely on disk. *)
Theorem multi_generation : forall gens,
  Forall (fun g => Forall wf (fst g)) gens ->
  replay_file (fold_left gen_step gens []) = Ok (fold_left gen_logical gens []).
Proof.
  intros gens Hg. destruct gens as [|g gens]; [reflexivity|].
  refine (proj2 (proj2 (multi_generation_inv (g :: gens) [] [] (Forall_nil _) eq_refl Hg)) _).
  discriminate.
Qed.

Lemma gen_logical_prefix gens : forall acc, exists post, fold_left gen_logical gens acc = acc ++ post.
Proof.
  induction gens as [|g gens IH]; intros acc; cbn [fold_left].
  - exists []. rewrite app_nil_r. reflexivity.
  - destruct (IH (gen_logical acc g)) as [post E]. rewrite E. unfold gen_logical.
    eexists. rewrite <- app_assoc. reflexivity.
Qed.

(* acknowledged records of ANY generation are in the final log, after everything that survived
   earlier generations and before everything written later *)
Corollary multi_generation_acknowledged : forall g1 es k g2 j,
  Forall (fun g => Forall wf (fst g)) (g1 ++ (es, k) :: g2) ->
  (j <= length es)%nat -> (bytes_upto es j <= k)%nat ->
  exists post,
    replay_file (fold_left gen_step (g1 ++ (es, k) :: g2) []) =
      Ok (fold_left gen_logical g1 [] ++ firstn j es ++ post).
Proof.
  intros g1 es k g2 j Hg Hj Hb. rewrite multi_generation by exact Hg.
  rewrite fold_left_app. cbn [fold_left].
  destruct (gen_logical_prefix g2 (gen_logical (fold_left gen_logical g1 []) (es, k))) as [post E].
  pose proof (complete_ge es j k Hj Hb) as Hc.
  exists (skipn j (firstn (complete es k) es) ++ post).
  f_equal. etransitivity; [exact E|]. unfold gen_logical. cbn [fst snd].
  rewrite <- !app_assoc. f_equal. rewrite app_assoc. f_equal.
  assert (E2: firstn j es = firstn j (firstn (complete es k) es)).
  { rewrite firstn_firstn. replace (Nat.min j (complete es k)) with j by lia. reflexivity. }
  rewrite E2, firstn_skipn. reflexivity.
Qed.

End W.

Arguments frame {entry} ser crc cks e.
Arguments log_bytes {entry} ser crc cks es.
Arguments replay {entry} deser crc verify fuel idx bs.
Arguments replay_file {entry} deser crc verify bs.
Arguments complete {entry} ser crc cks es k.
Arguments bytes_upto {entry} ser crc cks es j.
Arguments wf {entry} ser e.
Arguments gen_step {entry} ser crc cks file g.
Arguments gen_logical {entry} ser crc cks acc g.

(* ---------------- why the repair is needed (the pre-fix behaviour, F-WAL-torn) ----------------
   Reopening WITHOUT repair appends behind the torn record.  Concretely (payload = raw bytes,
   real CRC-32): a record of 8 bytes torn after 12 bytes, then a complete record appended:
   replay fails with a checksum mismatch at entry 0, so the acknowledged second record is lost
   together with the possibility of recovering at all. *)
Definition raw_ser (e : list byte) : list byte := e.
Definition raw_deser (b : list byte) : option (list byte) := Some b.
Example append_behind_torn_tail_without_repair_refuted :
  let e1 := [1; 2; 3; 4; 5; 6; 7; 8] in
  let e2 := [9; 9; 9; 9; 9; 9; 9; 9] in
  replay_file raw_deser crc32 true
    (firstn 12 (frame raw_ser crc32 true e1) ++ frame raw_ser crc32 true e2) = ErrChecksum 0
  /\ replay_file raw_deser crc32 true
    (repair (firstn 12 (frame raw_ser crc32 true e1)) ++ frame raw_ser crc32 true e2) = Ok [e2].
Proof. vm_compute. split; reflexivity. Qed.
