//! C01 correspondence harness: a cluster of real `RaftNode`s (WAL-backed, so a restart recovers from
//! what the node itself made durable) whose every outgoing message is captured by the harness'
//! own `Transport`.  The seeded schedule decides which pool message is delivered next (a message
//! stays in the pool: delivering it twice = duplication, never = loss, any order = reordering),
//! which node times out, proposes, heartbeats or crashes.  After every step the touched node's
//! (term, vote, role, commit index, log image) and the envelopes it produced are recorded; the Coq
//! side (NV.C01.Run.check_sched) replays the schedule on the model and evaluates the four safety
//! oracles on these implementation observations.
use async_trait::async_trait;
use nvh_common::*;
use parking_lot::Mutex;
use std::path::PathBuf;
use std::sync::Arc;
use tensor_chain::block::{Block, BlockHeader};
use tensor_chain::network::{Message, PeerConfig, Transport};
use tensor_chain::raft::{RaftConfig, RaftNode, RaftState};

type Pool = Arc<Mutex<Vec<(String, Message)>>>;

struct Cap {
    local: String,
    peers: Vec<String>,
    out: Pool,
}
#[async_trait]
impl Transport for Cap {
    async fn send(&self, to: &String, msg: Message) -> tensor_chain::Result<()> {
        self.out.lock().push((to.clone(), msg));
        Ok(())
    }
    async fn broadcast(&self, msg: Message) -> tensor_chain::Result<()> {
        for p in &self.peers {
            self.out.lock().push((p.clone(), msg.clone()));
        }
        Ok(())
    }
    async fn recv(&self) -> tensor_chain::Result<(String, Message)> {
        std::future::pending().await
    }
    async fn connect(&self, _peer: &PeerConfig) -> tensor_chain::Result<()> {
        Ok(())
    }
    async fn disconnect(&self, _peer_id: &String) -> tensor_chain::Result<()> {
        Ok(())
    }
    fn peers(&self) -> Vec<String> {
        self.peers.clone()
    }
    fn local_id(&self) -> &String {
        &self.local
    }
}

fn name(i: u64) -> String {
    format!("n{i}")
}
fn idx(s: &str) -> u64 {
    s[1..].parse().unwrap()
}

struct Sim {
    n: u64,
    cfg: RaftConfig,
    dir: PathBuf,
    nodes: Vec<RaftNode>,
    outs: Vec<Pool>,
    pool: Vec<(u64, u64, Message)>, // (src, dst, msg)
    rt: tokio::runtime::Runtime,
}

fn block(payload: u64) -> Block {
    Block::new(BlockHeader::new(payload, [0u8; 32], [0u8; 32], [0u8; 32], "p".to_string()), vec![])
}

impl Sim {
    fn mk_node(&self, i: u64) -> (RaftNode, Pool) {
        let peers: Vec<String> = (0..self.n).filter(|j| *j != i).map(name).collect();
        let out: Pool = Arc::new(Mutex::new(vec![]));
        let tr = Arc::new(Cap { local: name(i), peers: peers.clone(), out: out.clone() });
        let node = RaftNode::with_wal(name(i), peers, tr, self.cfg.clone(), self.dir.join(format!("n{i}.wal"))).expect("with_wal");
        (node, out)
    }
    fn new(n: u64, cfg: RaftConfig, dir: PathBuf) -> Sim {
        let _ = std::fs::remove_dir_all(&dir);
        std::fs::create_dir_all(&dir).unwrap();
        let rt = tokio::runtime::Builder::new_current_thread().build().unwrap();
        let mut s = Sim { n, cfg, dir, nodes: vec![], outs: vec![], pool: vec![], rt };
        for i in 0..n {
            let (nd, o) = s.mk_node(i);
            s.nodes.push(nd);
            s.outs.push(o);
        }
        s
    }
    /// move everything node i's transport captured into the pool; returns the new envelopes
    fn drain(&mut self, i: u64) -> Vec<(u64, u64, Message)> {
        let v: Vec<(String, Message)> = std::mem::take(&mut *self.outs[i as usize].lock());
        let envs: Vec<(u64, u64, Message)> = v.into_iter().map(|(to, m)| (i, idx(&to), m)).collect();
        self.pool.extend(envs.iter().cloned());
        envs
    }
    fn obs(&self, i: u64) -> String {
        let nd = &self.nodes[i as usize];
        let role = match nd.state() {
            RaftState::Follower => 0,
            RaftState::Candidate => 1,
            RaftState::Leader => 2,
            _ => 3,
        };
        let log = list(nd.verif_log_image().iter().map(|(ix, t, h)| format!("E {t} {ix} {h}")));
        format!("({}, {}, {}, {}, {})", nd.current_term(), opt(nd.verif_voted_for().map(|v| n(idx(&v)))), role, nd.commit_index(), log)
    }
}

fn kind_of(m: &Message) -> &'static str {
    match m {
        Message::RequestVote(_) => "RV",
        Message::RequestVoteResponse(_) => "RVR",
        Message::PreVote(_) => "PV",
        Message::PreVoteResponse(_) => "PVR",
        Message::AppendEntries(_) => "AE",
        Message::AppendEntriesResponse(_) => "AER",
        _ => "?",
    }
}
fn entries_coq(es: &[tensor_chain::network::LogEntry]) -> String {
    list(es.iter().map(|e| format!("E {} {} {}", e.term, e.index, e.block.header.height)))
}
fn msg_coq(m: &Message) -> Option<String> {
    Some(match m {
        Message::RequestVote(r) => format!("RV {} {} {} {}", r.term, idx(&r.candidate_id), r.last_log_index, r.last_log_term),
        Message::RequestVoteResponse(r) => format!("RVR {} {} {}", r.term, b(r.vote_granted), idx(&r.voter_id)),
        Message::PreVote(r) => format!("PV {} {} {} {}", r.term, idx(&r.candidate_id), r.last_log_index, r.last_log_term),
        Message::PreVoteResponse(r) => format!("PVR {} {} {}", r.term, b(r.vote_granted), idx(&r.voter_id)),
        Message::AppendEntries(a) => format!("AE {} {} {} {} {} {}", a.term, idx(&a.leader_id), a.prev_log_index, a.prev_log_term, entries_coq(&a.entries), a.leader_commit),
        Message::AppendEntriesResponse(a) => format!("AER {} {} {} {}", a.term, b(a.success), idx(&a.follower_id), a.match_index),
        _ => return None,
    })
}
fn envs_coq(es: &[(u64, u64, Message)]) -> String {
    list(es.iter().filter_map(|(s, d, m)| msg_coq(m).map(|mc| format!("({s}, {d}, {mc})"))))
}

#[derive(Clone, Debug)]
enum Op {
    Elect(u64),
    PreVote(u64),
    RequestVotes(u64),
    Heartbeat(u64),
    Propose(u64),
    Deliver(u64),
    /// scripted schedules: deliver the most recent pool message of that kind from src to dst
    /// (resolved to a pool index when executed; skipped when there is none)
    DeliverLast(u64, u64, &'static str),
    /// the second most recent such message (an older, delayed one)
    DeliverPrev(u64, u64, &'static str),
    Restart(u64),
    /// leadership transfer: a TimeoutNow from src (stamped with src's term) reaches dst
    TimeoutNow(u64, u64),
    /// the application finalizes what the node has committed, minus `back` entries
    Finalize(u64, u64),
    /// the application asks to finalize `up` entries ABOVE the commit index (must be refused)
    FinalizeUp(u64, u64),
    /// create_snapshot + truncate_log, as perform_compaction does
    Compact(u64),
}

struct Run {
    sim: Sim,
    geometric: bool,
    payload: u64,
    ops: Vec<String>,
    human: Vec<String>,
    obs: Vec<String>,
    fresh: std::collections::VecDeque<u64>,
    leaders: u32,
    commits: u64,
}

impl Run {
    fn exec(&mut self, op: &Op, dist: &mut Dist) {
        let n = self.sim.n;
        let resolved;
        let op = match op {
            Op::DeliverLast(src, dst, kind) | Op::DeliverPrev(src, dst, kind) => {
                let mut ixs: Vec<usize> = self.sim.pool.iter().enumerate()
                    .filter(|(_, (s0, d0, m))| s0 == src && d0 == dst && kind_of(m) == *kind).map(|(ix, _)| ix).collect();
                ixs.reverse();
                let pick = if matches!(op, Op::DeliverPrev(..)) { ixs.get(1) } else { ixs.first() };
                match pick {
                    Some(ix) => { resolved = Op::Deliver(*ix as u64); &resolved }
                    None => return,
                }
            }
            _ => op,
        };
        let (opc, h, touched): (String, String, u64) = match op {
            Op::DeliverLast(..) | Op::DeliverPrev(..) => unreachable!(),
            Op::Deliver(pick) => {
                let (src, dst, m) = self.sim.pool[*pick as usize].clone();
                let resp = self.sim.nodes[dst as usize].handle_message(&name(src), &m);
                // refusal oracle bit: what the implementation answered
                let ok = match (&m, &resp) {
                    (Message::RequestVote(_), Some(Message::RequestVoteResponse(x))) => if self.geometric { x.vote_granted } else { true },
                    (Message::PreVote(_), Some(Message::PreVoteResponse(x))) => x.vote_granted,
                    _ => true,
                };
                if let Some(resp) = resp {
                    self.sim.outs[dst as usize].lock().push((name(src), resp));
                }
                dist.hit(match m {
                    Message::RequestVote(_) => "deliver.rv",
                    Message::RequestVoteResponse(_) => "deliver.rvr",
                    Message::PreVote(_) => "deliver.pv",
                    Message::PreVoteResponse(_) => "deliver.pvr",
                    Message::AppendEntries(_) => "deliver.ae",
                    Message::AppendEntriesResponse(_) => "deliver.aer",
                    _ => "deliver.other",
                });
                (format!("GDeliver {} {}", pick, b(ok)), format!("deliver#{pick}({src}->{dst})"), dst)
            }
            Op::PreVote(i) => {
                let _ = self.sim.rt.block_on(self.sim.nodes[*i as usize].start_pre_vote_async());
                dist.hit("op.prevote");
                (format!("GPreVote {i}"), format!("prevote({i})"), *i)
            }
            Op::Elect(i) => {
                let _ = self.sim.rt.block_on(self.sim.nodes[*i as usize].start_election_async());
                dist.hit("op.elect");
                (format!("GElect {i}"), format!("elect({i})"), *i)
            }
            Op::RequestVotes(i) => {
                // a candidate re-broadcasts RequestVote for its current term (what a driver does after a
                // pre-vote quorum turned the node into a candidate inside handle_message)
                let nd = &self.sim.nodes[*i as usize];
                if nd.state() == RaftState::Candidate {
                    let rv = Message::RequestVote(tensor_chain::network::RequestVote {
                        term: nd.current_term(),
                        candidate_id: name(*i),
                        last_log_index: nd.last_log_index(),
                        last_log_term: nd.last_log_term(),
                        state_embedding: tensor_store::SparseVector::new(0),
                    });
                    for j in (0..n).filter(|j| j != i) {
                        self.sim.outs[*i as usize].lock().push((name(j), rv.clone()));
                    }
                }
                dist.hit("op.request_votes");
                (format!("GRequestVotes {i}"), format!("request_votes({i})"), *i)
            }
            Op::Heartbeat(i) => {
                let _ = self.sim.rt.block_on(self.sim.nodes[*i as usize].send_heartbeats());
                dist.hit("op.heartbeat");
                (format!("GHeartbeat {i}"), format!("heartbeat({i})"), *i)
            }
            Op::Propose(i) => {
                self.payload += 1;
                let payload = self.payload;
                let was_leader = self.sim.nodes[*i as usize].state() == RaftState::Leader;
                let res = self.sim.nodes[*i as usize].propose(block(payload));
                let ok = res.is_ok() || !was_leader;
                dist.hit(if res.is_ok() { "op.propose.ok" } else if was_leader { "op.propose.refused_by_quorum_guard" } else { "op.propose.not_leader" });
                (format!("GPropose {i} {payload} {}", b(ok)), format!("propose({i},{payload})"), *i)
            }
            Op::Restart(i) => {
                // crash: drop the node (its WAL file stays), restart from the WAL
                let (nd, o) = self.sim.mk_node(*i);
                self.sim.nodes[*i as usize] = nd;
                self.sim.outs[*i as usize] = o;
                dist.hit("op.restart");
                (format!("GRestart {i}"), format!("restart({i})"), *i)
            }
            Op::TimeoutNow(src, dst) => {
                let before = self.sim.nodes[*dst as usize].current_term();
                let tn = Message::TimeoutNow(tensor_chain::network::TimeoutNow {
                    term: self.sim.nodes[*src as usize].current_term(),
                    leader_id: name(*src),
                });
                let resp = self.sim.nodes[*dst as usize].handle_message(&name(*src), &tn);
                if let Some(resp) = resp {
                    self.sim.outs[*dst as usize].lock().push((name(*src), resp));
                }
                // refusal oracle bit: did the node start an election (believed leader and term matched)?
                let ok = self.sim.nodes[*dst as usize].current_term() > before;
                dist.hit(if ok { "op.timeout_now.accepted" } else { "op.timeout_now.ignored" });
                (format!("GTimeoutNow {dst} {}", b(ok)), format!("timeout_now({src}->{dst})"), *dst)
            }
            Op::Finalize(i, back) => {
                let h = self.sim.nodes[*i as usize].commit_index().saturating_sub(*back);
                let _ = self.sim.nodes[*i as usize].finalize_to(h);
                dist.hit("op.finalize");
                (format!("GFinalize {i} {h}"), format!("finalize({i},{h})"), *i)
            }
            Op::FinalizeUp(i, up) => {
                let h = self.sim.nodes[*i as usize].commit_index() + *up;
                let r = self.sim.nodes[*i as usize].finalize_to(h);
                dist.hit(if r.is_ok() { "op.finalize_above_commit.accepted" } else { "op.finalize_above_commit.refused" });
                (format!("GFinalize {i} {h}"), format!("finalize({i},{h} above commit)"), *i)
            }
            Op::Compact(i) => {
                let before = self.sim.nodes[*i as usize].verif_log_image().first().map(|e| e.0);
                if let Ok((meta, _)) = self.sim.nodes[*i as usize].create_snapshot() {
                    let _ = self.sim.nodes[*i as usize].truncate_log(&meta);
                }
                let after = self.sim.nodes[*i as usize].verif_log_image().first().map(|e| e.0);
                dist.hit(if before != after { "op.compact.dropped_prefix" } else { "op.compact.noop" });
                (format!("GCompact {i}"), format!("compact({i})"), *i)
            }
        };
        let before = self.sim.pool.len() as u64;
        let envs = self.sim.drain(touched);
        for q in before..self.sim.pool.len() as u64 {
            self.fresh.push_back(q);
        }
        if self.sim.nodes[touched as usize].state() == RaftState::Leader {
            self.leaders += 1;
        }
        self.commits = self.commits.max(self.sim.nodes[touched as usize].commit_index());
        self.obs.push(format!("({}, {})", self.sim.obs(touched), envs_coq(&envs)));
        self.ops.push(opc);
        self.human.push(h);
    }
}

struct Knobs {
    n: u64,
    pre_vote: bool,
    fast_path: bool,
    geometric: bool,
    adaptive: bool,
    trailing: u64,
}

fn start(k: &Knobs, r: &mut Rng, dir: PathBuf) -> (Run, u64) {
    let mut cfg = RaftConfig::default();
    cfg.snapshot_trailing_logs = k.trailing as usize;
    cfg.enable_pre_vote = k.pre_vote;
    cfg.enable_fast_path = k.fast_path;
    cfg.enable_geometric_tiebreak = k.geometric;
    cfg.enable_adaptive_backoff = k.adaptive;
    cfg.auto_heartbeat = false;
    cfg.election_timeout = (0, 0);
    let max_power = cfg.max_backoff_power as u64;
    let sim = Sim::new(k.n, cfg, dir);
    if k.geometric {
        for i in 0..k.n {
            let v: Vec<f32> = (0..4).map(|_| (r.below(5) as f32) - 2.0).collect();
            sim.nodes[i as usize].update_state_embedding_dense(&v);
        }
    }
    (Run { sim, geometric: k.geometric, payload: 100, ops: vec![], human: vec![], obs: vec![], fresh: Default::default(), leaders: 0, commits: 0 }, max_power)
}

fn finish(k: &Knobs, run: Run, max_power: u64, dist: &mut Dist, tag: &str) -> (String, String, bool) {
    if run.leaders > 0 {
        dist.hit("case.had_leader");
    }
    if run.commits > 0 {
        dist.hit("case.had_commit");
    }
    let q = k.n / 2 + 1;
    let term = format!("(Cfg {} {} {} {} {}, {}, {})", k.n, q, b(k.adaptive), max_power, k.trailing, list(run.ops), list(run.obs));
    (term, format!("{tag}n={} prevote={} fast={} geo={} :: {}", k.n, k.pre_vote, k.fast_path, k.geometric, run.human.join(" ")), run.leaders > 0)
}

/// a scripted schedule (corpus)
fn run_script(script: &[Op], k: &Knobs, r: &mut Rng, dir: PathBuf, dist: &mut Dist, tag: &str) -> (String, String, bool) {
    let (mut run, mp) = start(k, r, dir);
    for op in script {
        if let Op::Deliver(p) = op {
            if *p as usize >= run.sim.pool.len() {
                continue; // the script no longer fits the code's message flow: skip the step
            }
        }
        run.exec(op, dist);
    }
    finish(k, run, mp, dist, tag)
}

/// one generated schedule, executed on real nodes; returns (Gallina case, readable form, non-trivial?)
fn run_case(r: &mut Rng, dir: PathBuf, dist: &mut Dist, steps: usize, n: u64) -> (String, String, bool) {
    let k = Knobs { n, pre_vote: r.chance(1, 2), fast_path: r.chance(1, 2), geometric: r.chance(1, 2), adaptive: r.chance(1, 2), trailing: *r.pick(&[0u64, 0, 1, 2]) };
    dist.hit(&format!("cfg.n{}.prevote{}.fast{}.geo{}", n, k.pre_vote as u8, k.fast_path as u8, k.geometric as u8));
    let (mut run, mp) = start(&k, r, dir);
    let loss = *r.pick(&[0u64, 0, 10, 30]); // per-message loss percentage for this schedule
    // half of the schedules start from a warm cluster: a leader with a few entries committed on a quorum (one node
    // possibly left behind), so that the commit clauses and compaction have something to act on
    if r.chance(1, 2) {
        let l = r.below(n);
        let voters: Vec<u64> = (0..n).filter(|j| *j != l).collect();
        let need = (n / 2) as usize; // votes besides its own
        let mut warm: Vec<Op> = vec![Op::Elect(l)];
        for v in voters.iter().take(need) { warm.push(Op::DeliverLast(l, *v, "RV")); warm.push(Op::DeliverLast(*v, l, "RVR")); }
        warm.push(Op::Heartbeat(l));
        for v in voters.iter().take(need) { warm.push(Op::DeliverLast(l, *v, "AE")); warm.push(Op::DeliverLast(*v, l, "AER")); }
        for _ in 0..r.range(1, 5) { warm.push(Op::Propose(l)); }
        for _ in 0..2 {
            warm.push(Op::Heartbeat(l));
            for v in voters.iter().take(need) { warm.push(Op::DeliverLast(l, *v, "AE")); warm.push(Op::DeliverLast(*v, l, "AER")); }
        }
        for op in &warm { run.exec(op, dist); }
        run.fresh.clear();
        dist.hit("case.warm_start");
    }
    for _ in 0..steps {
        let have_pool = !run.sim.pool.is_empty();
        let leader_now: Option<u64> = (0..n).find(|i| run.sim.nodes[*i as usize].state() == RaftState::Leader);
        // mostly let request/response flows run to completion, with reordering, duplication (old
        // messages stay deliverable) and loss mixed in
        let d0 = r.below(100);
        let op = if !run.fresh.is_empty() && d0 < 62 {
            let pos = r.below((run.fresh.len() as u64).min(3)) as usize;
            let p = run.fresh.remove(pos).unwrap();
            if r.below(100) < loss {
                dist.hit("net.lost");
                match run.fresh.pop_front() { Some(q) => Op::Deliver(q), None => Op::Deliver(p) }
            } else {
                Op::Deliver(p)
            }
        } else if have_pool && d0 < 70 {
            dist.hit("net.old_or_duplicate");
            Op::Deliver(r.below(run.sim.pool.len() as u64))
        } else {
            let d = r.below(100);
            let any = r.below(n);
            let elect = |r: &mut Rng| if k.pre_vote && r.chance(2, 3) { Op::PreVote(any) } else { Op::Elect(any) };
            match leader_now {
                Some(l) => {
                    let li = if r.chance(5, 6) { l } else { any };
                    if d < 34 { Op::Propose(li) } else if d < 68 { Op::Heartbeat(li) } else if d < 72 { Op::TimeoutNow(l, any) }
                    else if d < 75 { Op::Finalize(if r.chance(4, 5) { l } else { any }, r.below(2)) } else if d < 77 { Op::FinalizeUp(if r.chance(1, 2) { l } else { any }, r.range(1, 3)) } else if d < 82 { Op::Compact(if r.chance(4, 5) { l } else { any }) }
                    else if d < 89 { elect(r) } else if d < 94 { Op::RequestVotes(any) } else { Op::Restart(any) }
                }
                None => if d < 70 { elect(r) } else if d < 78 { Op::RequestVotes(any) } else if d < 90 { Op::Heartbeat(any) } else { Op::Restart(any) },
            }
        };
        run.exec(&op, dist);
    }
    finish(&k, run, mp, dist, "")
}


// ------------------------------------------------------------------ schedules with log compaction (oracle only)
#[derive(Clone, Debug)]
enum COp {
    Elect(u64),
    Heartbeat(u64),
    Propose(u64),
    /// deliver the most recent pool message of that kind from src to dst
    Last(u64, u64, &'static str),
    /// deliver pool message number k
    Deliver(u64),
    Restart(u64),
    /// the application finalizes what the node has committed, minus `back` entries
    Finalize(u64, u64),
    /// create_snapshot + truncate_log, as perform_compaction does
    Compact(u64),
}

/// Runs one schedule with finalize/compact steps on real nodes; returns the Gallina term
/// (n, [(touched, observation)]), a readable form, and whether some node really dropped a log prefix.
fn run_compact(script: &[COp], trailing: usize, dir: PathBuf, dist: &mut Dist, tag: &str) -> (String, String, bool) {
    let mut cfg = RaftConfig::default();
    cfg.enable_pre_vote = false;
    cfg.enable_fast_path = false;
    cfg.enable_geometric_tiebreak = false;
    cfg.auto_heartbeat = false;
    cfg.election_timeout = (0, 0);
    cfg.snapshot_trailing_logs = trailing;
    let n = 3u64;
    let mut sim = Sim::new(n, cfg, dir);
    let mut obs: Vec<String> = vec![];
    let mut human: Vec<String> = vec![];
    let mut payload = 0u64;
    let mut compacted = false;
    for op in script {
        let touched: u64 = match op {
            COp::Elect(i) => { let _ = sim.rt.block_on(sim.nodes[*i as usize].start_election_async()); human.push(format!("elect({i})")); *i }
            COp::Heartbeat(i) => { let _ = sim.rt.block_on(sim.nodes[*i as usize].send_heartbeats()); human.push(format!("heartbeat({i})")); *i }
            COp::Propose(i) => { payload += 1; let _ = sim.nodes[*i as usize].propose(block(payload)); human.push(format!("propose({i},{payload})")); *i }
            COp::Restart(i) => { let (nd, o) = sim.mk_node(*i); sim.nodes[*i as usize] = nd; sim.outs[*i as usize] = o; human.push(format!("restart({i})")); *i }
            COp::Finalize(i, back) => {
                let c = sim.nodes[*i as usize].commit_index().saturating_sub(*back);
                let _ = sim.nodes[*i as usize].finalize_to(c);
                human.push(format!("finalize({i},{c})"));
                *i
            }
            COp::Compact(i) => {
                let before = sim.nodes[*i as usize].verif_log_image().first().map(|e| e.0);
                if let Ok((meta, _)) = sim.nodes[*i as usize].create_snapshot() {
                    let _ = sim.nodes[*i as usize].truncate_log(&meta);
                }
                let after = sim.nodes[*i as usize].verif_log_image().first().map(|e| e.0);
                if before != after { compacted = true; dist.hit("compact.dropped_prefix"); } else { dist.hit("compact.noop"); }
                human.push(format!("compact({i})"));
                *i
            }
            COp::Last(..) | COp::Deliver(_) => {
                let pick = match op {
                    COp::Last(src, dst, kind) => sim.pool.iter().enumerate().rev().find(|(_, (s0, d0, m))| s0 == src && d0 == dst && kind_of(m) == *kind).map(|(ix, _)| ix),
                    COp::Deliver(k) => if (*k as usize) < sim.pool.len() { Some(*k as usize) } else { None },
                    _ => None,
                };
                let Some(ix) = pick else { continue };
                let (src, dst, m) = sim.pool[ix].clone();
                if let Some(r) = sim.nodes[dst as usize].handle_message(&name(src), &m) { sim.outs[dst as usize].lock().push((name(src), r)); }
                human.push(format!("deliver#{ix}({src}->{dst} {})", kind_of(&m)));
                dst
            }
        };
        sim.drain(touched);
        obs.push(format!("({touched}, {})", sim.obs(touched)));
    }
    dist.hit(if compacted { "compact.case.with_compaction" } else { "compact.case.without" });
    (format!("({n}, {})", list(obs.into_iter())), format!("{tag}trailing={trailing} {}", human.join("; ")), compacted)
}

fn compact_corpus() -> Vec<(&'static str, usize, Vec<COp>)> {
    use COp::*;
    let elect = |c: u64, v: u64| vec![Elect(c), Last(c, v, "RV"), Last(v, c, "RVR")];
    let rep = |l: u64, f: u64| vec![Heartbeat(l), Last(l, f, "AE"), Last(f, l, "AER")];
    // (1) F-C01-gap: the leader compacts entries a follower never received; the follower must not store entry 6 first
    let mut s1 = elect(0, 1);
    s1.extend(rep(0, 1));
    s1.extend((0..6).map(|_| Propose(0)));
    s1.extend(rep(0, 1)); s1.extend(rep(0, 1));
    s1.extend(elect(1, 0));
    s1.extend(vec![Finalize(1, 1), Compact(1)]);
    for _ in 0..4 { s1.extend(rep(1, 2)); }
    // (2) F-C01-prev: a follower whose log diverges below the leader's compaction point
    let mut s2 = elect(0, 1);
    s2.extend(rep(0, 1));
    s2.extend((0..4).map(|_| Propose(0)));
    s2.extend(vec![Heartbeat(0), Last(0, 1, "AE"), Last(1, 0, "AER"), Last(0, 2, "AE"), Last(2, 0, "AER")]);
    s2.push(Propose(0)); // 5' stays on node 0 alone
    s2.extend(elect(1, 2));
    s2.extend(rep(1, 2));
    s2.extend(vec![Propose(1), Propose(1)]);
    s2.extend(rep(1, 2)); s2.extend(rep(1, 2));
    s2.extend(elect(2, 1));
    s2.extend(vec![Finalize(2, 1), Compact(2)]);
    for _ in 0..4 { s2.extend(rep(2, 0)); }
    // (3) compaction with trailing entries, then normal replication and a restart
    let mut s3 = elect(0, 1);
    s3.extend(rep(0, 1));
    s3.extend((0..5).map(|_| Propose(0)));
    s3.extend(rep(0, 1)); s3.extend(rep(0, 1)); s3.extend(rep(0, 2)); s3.extend(rep(0, 2));
    s3.extend(vec![Finalize(0, 0), Compact(0), Finalize(1, 0), Compact(1), Propose(0)]);
    s3.extend(rep(0, 1)); s3.extend(rep(0, 2)); s3.extend(vec![Restart(1)]); s3.extend(rep(0, 1)); s3.extend(rep(0, 1));
    vec![("corpus lagging-follower-behind-compaction: ", 0, s1), ("corpus divergent-follower-behind-compaction: ", 0, s2), ("corpus compaction-with-trailing: ", 2, s3)]
}

fn random_compact(r: &mut Rng) -> (usize, Vec<COp>) {
    use COp::*;
    let trailing = *r.pick(&[0usize, 0, 1, 2]);
    // a warm-up that usually yields a leader with committed entries (so that compaction has something to drop),
    // one follower possibly left behind; then a random tail
    let l = r.below(3);
    let f = (l + 1 + r.below(2)) % 3;
    let g = 3 - l - f;
    let mut s = vec![Elect(l), Last(l, f, "RV"), Last(f, l, "RVR"), Heartbeat(l), Last(l, f, "AE"), Last(f, l, "AER")];
    for _ in 0..r.range(2, 7) { s.push(Propose(l)); }
    for _ in 0..2 { s.extend(vec![Heartbeat(l), Last(l, f, "AE"), Last(f, l, "AER")]); }
    if r.chance(1, 2) { s.extend(vec![Last(l, g, "AE"), Last(g, l, "AER")]); }
    if r.chance(1, 3) { s.push(Propose(l)); }
    let steps = r.range(30, 100);
    let mut pool_guess = 12u64;
    for _ in 0..steps {
        let any = r.below(3);
        let d = r.below(100);
        let op = if d < 10 { Elect(any) } else if d < 26 { Propose(any) } else if d < 44 { Heartbeat(any) }
                 else if d < 54 { Finalize(any, r.below(3)) } else if d < 64 { Compact(any) } else if d < 67 { Restart(any) }
                 else if d < 90 {
                     let (a, b) = (r.below(3), r.below(3));
                     Last(a, b, *r.pick(&["AE", "AER", "RV", "RVR", "AE", "AER"]))
                 } else { Deliver(r.below(pool_guess + 1)) };
        if matches!(op, Elect(_) | Heartbeat(_)) { pool_guess += 2; }
        s.push(op);
    }
    (trailing, s)
}

/// exploratory probe (NV_C01_PROBE=compact): log compaction on the leader followed by replication to a
/// follower that is behind the compaction point.  Prints what the real nodes do.
fn probe_compact(out: &std::path::Path) {
    let mut cfg = RaftConfig::default();
    cfg.enable_pre_vote = false;
    cfg.enable_fast_path = false;
    cfg.enable_geometric_tiebreak = false;
    cfg.auto_heartbeat = false;
    cfg.election_timeout = (0, 0);
    cfg.snapshot_threshold = 2;
    cfg.snapshot_trailing_logs = 0;
    cfg.compaction_check_interval = 1;
    cfg.compaction_cooldown_ms = 0;
    let mut sim = Sim::new(3, cfg, out.join("probe_wal"));
    let show = |sim: &Sim, tag: &str| {
        for i in 0..3u64 { eprintln!("  [{tag}] n{i}: {}", sim.obs(i)); }
    };
    let deliver_last = |sim: &mut Sim, src: u64, dst: u64, kind: &str| -> bool {
        let ix = sim.pool.iter().enumerate().rev().find(|(_, (s0, d0, m))| *s0 == src && *d0 == dst && kind_of(m) == kind).map(|(i, _)| i);
        match ix {
            Some(ix) => {
                let (s0, d0, m) = sim.pool[ix].clone();
                eprintln!("  deliver {} {}->{}: {}", kind, s0, d0, msg_coq(&m).unwrap_or_default());
                if let Some(r) = sim.nodes[d0 as usize].handle_message(&name(s0), &m) { sim.outs[d0 as usize].lock().push((name(s0), r)); }
                sim.drain(d0);
                true
            }
            None => { eprintln!("  (no {kind} {src}->{dst})"); false }
        }
    };
    // leader 0, term 1
    let _ = sim.rt.block_on(sim.nodes[0].start_election_async()); sim.drain(0);
    deliver_last(&mut sim, 0, 1, "RV"); deliver_last(&mut sim, 1, 0, "RVR");
    let _ = sim.rt.block_on(sim.nodes[0].send_heartbeats()); sim.drain(0);
    deliver_last(&mut sim, 0, 1, "AE"); deliver_last(&mut sim, 1, 0, "AER");
    for p in 1..=6u64 { eprintln!("  propose {p}: {:?}", sim.nodes[0].propose(block(p)).is_ok()); }
    let _ = sim.rt.block_on(sim.nodes[0].send_heartbeats()); sim.drain(0);
    deliver_last(&mut sim, 0, 1, "AE"); deliver_last(&mut sim, 1, 0, "AER");
    let _ = sim.rt.block_on(sim.nodes[0].send_heartbeats()); sim.drain(0);
    deliver_last(&mut sim, 0, 1, "AE"); deliver_last(&mut sim, 1, 0, "AER");
    show(&sim, "replicated to n1, n2 saw nothing");
    // node 1 becomes leader of term 2 with node 0's vote
    let _ = sim.rt.block_on(sim.nodes[1].start_election_async()); sim.drain(1);
    deliver_last(&mut sim, 1, 0, "RV"); deliver_last(&mut sim, 0, 1, "RVR");
    show(&sim, "n1 leader");
    // the application finalizes 5 entries on the leader; the leader compacts
    eprintln!("  finalize_to(5) on n1: {:?}", sim.nodes[1].finalize_to(5).is_ok());
    match sim.nodes[1].create_snapshot() {
        Ok((meta, _data)) => eprintln!("  truncate_log on n1: {:?}", sim.nodes[1].truncate_log(&meta).is_ok()),
        Err(e) => eprintln!("  create_snapshot failed: {e}"),
    }
    show(&sim, "n1 compacted");
    for round in 0..4 {
        let _ = sim.rt.block_on(sim.nodes[1].send_heartbeats()); sim.drain(1);
        deliver_last(&mut sim, 1, 2, "AE"); deliver_last(&mut sim, 2, 1, "AER");
        show(&sim, &format!("round {round}"));
    }
}

/// exploratory probe (NV_C01_PROBE=compact2): a follower whose log DIVERGES below the leader's compaction point
fn probe_compact2(out: &std::path::Path) {
    let mut cfg = RaftConfig::default();
    cfg.enable_pre_vote = false;
    cfg.enable_fast_path = false;
    cfg.enable_geometric_tiebreak = false;
    cfg.auto_heartbeat = false;
    cfg.election_timeout = (0, 0);
    cfg.snapshot_trailing_logs = 0;
    let mut sim = Sim::new(3, cfg, out.join("probe_wal2"));
    let show = |sim: &Sim, tag: &str| { for i in 0..3u64 { eprintln!("  [{tag}] n{i}: {}", sim.obs(i)); } };
    let dl = |sim: &mut Sim, src: u64, dst: u64, kind: &str| -> bool {
        let ix = sim.pool.iter().enumerate().rev().find(|(_, (s0, d0, m))| *s0 == src && *d0 == dst && kind_of(m) == kind).map(|(i, _)| i);
        match ix {
            Some(ix) => {
                let (s0, d0, m) = sim.pool[ix].clone();
                eprintln!("  deliver {} {}->{}: {}", kind, s0, d0, msg_coq(&m).unwrap_or_default());
                if let Some(r) = sim.nodes[d0 as usize].handle_message(&name(s0), &m) { sim.outs[d0 as usize].lock().push((name(s0), r)); }
                sim.drain(d0);
                true
            }
            None => { eprintln!("  (no {kind} {src}->{dst})"); false }
        }
    };
    let hb = |sim: &mut Sim, l: u64| { let _ = sim.rt.block_on(sim.nodes[l as usize].send_heartbeats()); sim.drain(l); };
    // n0 leader of term 1; entries 1..4 on everyone, committed
    let _ = sim.rt.block_on(sim.nodes[0].start_election_async()); sim.drain(0);
    dl(&mut sim, 0, 1, "RV"); dl(&mut sim, 1, 0, "RVR");
    hb(&mut sim, 0); dl(&mut sim, 0, 1, "AE"); dl(&mut sim, 1, 0, "AER");
    for p in 1..=4u64 { let _ = sim.nodes[0].propose(block(p)); }
    hb(&mut sim, 0); dl(&mut sim, 0, 1, "AE"); dl(&mut sim, 1, 0, "AER"); dl(&mut sim, 0, 2, "AE"); dl(&mut sim, 2, 0, "AER");
    // n0 appends 5' (term 1) that nobody else gets
    let _ = sim.nodes[0].propose(block(50));
    show(&sim, "n0 has 5' alone");
    // n1 leader of term 2 (vote of n2), appends 5 and 6, replicates to n2, commits
    let _ = sim.rt.block_on(sim.nodes[1].start_election_async()); sim.drain(1);
    dl(&mut sim, 1, 2, "RV"); dl(&mut sim, 2, 1, "RVR");
    hb(&mut sim, 1); dl(&mut sim, 1, 2, "AE"); dl(&mut sim, 2, 1, "AER");
    let _ = sim.nodes[1].propose(block(5)); let _ = sim.nodes[1].propose(block(6));
    hb(&mut sim, 1); dl(&mut sim, 1, 2, "AE"); dl(&mut sim, 2, 1, "AER");
    hb(&mut sim, 1); dl(&mut sim, 1, 2, "AE"); dl(&mut sim, 2, 1, "AER");
    show(&sim, "n1 committed 6");
    // n2 leader of term 3 (vote of n1): next_index[n0] = 7; it finalizes and compacts 1..5
    let _ = sim.rt.block_on(sim.nodes[2].start_election_async()); sim.drain(2);
    dl(&mut sim, 2, 1, "RV"); dl(&mut sim, 1, 2, "RVR");
    eprintln!("  finalize_to(5) on n2: {:?}", sim.nodes[2].finalize_to(5).is_ok());
    match sim.nodes[2].create_snapshot() {
        Ok((meta, _)) => eprintln!("  truncate_log on n2: {:?}", sim.nodes[2].truncate_log(&meta).is_ok()),
        Err(e) => eprintln!("  create_snapshot failed: {e}"),
    }
    show(&sim, "n2 leader, compacted");
    for round in 0..4 {
        hb(&mut sim, 2); dl(&mut sim, 2, 0, "AE"); dl(&mut sim, 0, 2, "AER");
        show(&sim, &format!("round {round}"));
    }
}

fn main() {
    let args = Args::parse();
    if std::env::var("NV_C01_PROBE").as_deref() == Ok("compact") {
        probe_compact(&args.out);
        return;
    }
    if std::env::var("NV_C01_PROBE").as_deref() == Ok("compact2") {
        probe_compact2(&args.out);
        return;
    }
    quiet_panics();
    let mut rng = Rng::new(args.seed);
    let mut dist = Dist::default();
    let mut w = CaseWriter::new(&args.out, "sched");
    // corpus: scripted schedules for the classical ways Raft safety breaks (each found or motivated by a
    // real defect or a seeded change); message steps are symbolic (latest message of a kind from a to b)
    {
        use Op::*;
        let dl = |a: u64, b: u64, k: &'static str| DeliverLast(a, b, k);
        // elect `c` with the vote of `v` (pre-vote off), then make it write-safe by one acknowledged heartbeat to `v`
        let elect = |c: u64, v: u64| vec![Elect(c), dl(c, v, "RV"), dl(v, c, "RVR")];
        let warm = |l: u64, f: u64| vec![Heartbeat(l), dl(l, f, "AE"), dl(f, l, "AER")];
        let mut scripts: Vec<(&str, Vec<Op>)> = vec![];
        // (1) F-C01-ack: a follower acknowledges its whole local log (fixed in 30e11964)
        let mut s1 = elect(0, 1);
        s1.extend(warm(0, 1));
        s1.extend(vec![Propose(0), Propose(0), Heartbeat(0), dl(0, 1, "AE"), dl(0, 2, "AE"), Propose(0)]);
        s1.extend(elect(2, 1));
        s1.extend(vec![Heartbeat(2), dl(2, 0, "AE"), dl(0, 2, "AER"), Propose(2), dl(0, 2, "AER")]);
        s1.extend(elect(0, 1));
        scripts.push(("corpus F-C01-ack: ", s1));
        // (2) Figure 8: an old-term entry must not be committed by counting replicas
        let mut s2 = elect(0, 1);
        s2.extend(warm(0, 1));
        s2.push(dl(0, 2, "AE")); // node 2 learns term 1
        s2.push(Propose(0)); // A1 (term 1) on node 0 only
        s2.extend(elect(2, 1)); // term 2, node 1's log is still empty
        s2.extend(warm(2, 1));
        s2.push(Propose(2)); // C1 (term 2) on node 2 only
        s2.push(dl(2, 0, "RV")); // node 0 learns term 2 (refuses: its log is more up to date)
        s2.extend(elect(0, 1)); // term 3
        s2.extend(vec![Heartbeat(0), dl(0, 1, "AE"), dl(1, 0, "AER")]); // prev mismatch -> next_index back to 1
        s2.extend(vec![Heartbeat(0), dl(0, 1, "AE"), dl(1, 0, "AER")]); // ships A1, ack match 1
        s2.push(Propose(0)); // A2 (term 3), local only
        s2.push(dl(1, 0, "AER")); // the same acknowledgement again, now with an own-term entry on top
        s2.push(dl(0, 2, "RV")); // node 2 learns term 3
        s2.extend(elect(2, 1)); // term 4: node 2's last term 2 beats node 1's term 1
        s2.extend(vec![Heartbeat(2), dl(2, 1, "AE"), dl(1, 2, "AER"), Heartbeat(2), dl(2, 1, "AE"), dl(1, 2, "AER")]);
        s2.extend(vec![Propose(2), Heartbeat(2), dl(2, 1, "AE"), dl(1, 2, "AER")]);
        scripts.push(("corpus figure-8: ", s2));
        // (3) a delayed, shorter AppendEntries arrives after a longer one was acknowledged and committed
        let mut s3 = elect(0, 1);
        s3.extend(warm(0, 1));
        s3.push(dl(0, 2, "AE")); // node 2 learns term 1, log stays empty
        s3.extend(vec![Propose(0), Heartbeat(0)]); // AE [1] to 1 and 2 (kept in the pool, not delivered yet)
        s3.extend(vec![Propose(0), Heartbeat(0), dl(0, 1, "AE"), dl(1, 0, "AER")]); // AE [1,2] delivered, acked, committed
        s3.push(DeliverPrev(0, 2, "AE")); // node 2 receives only the older AE [1]
        s3.push(DeliverPrev(0, 1, "AE")); // and the older AE [1] reaches node 1 late
        s3.extend(elect(2, 1)); // lagging node 2 asks node 1
        s3.extend(warm(2, 1));
        s3.extend(vec![Propose(2), Heartbeat(2), dl(2, 1, "AE"), dl(1, 2, "AER")]);
        scripts.push(("corpus delayed-shorter-append: ", s3));
        // (4) a vote granted by the RequestVote that also raised the voter's term must survive a restart
        let s4 = vec![Elect(0), dl(0, 1, "RV"), Restart(1), Elect(2), dl(2, 1, "RV"), dl(1, 0, "RVR"), dl(1, 2, "RVR")];
        scripts.push(("corpus vote-survives-restart: ", s4));
        // (5) a leader that restarts in its own term must still remember that it voted for itself
        let mut s5 = elect(0, 1);
        s5.extend(vec![Restart(0), Elect(2), dl(2, 0, "RV"), dl(0, 2, "RVR")]);
        scripts.push(("corpus self-vote-survives-restart: ", s5));
        // (6) the same two with pre-vote messages interleaved and a 5-node cluster: votes of a minority
        let s6 = vec![Elect(0), dl(0, 1, "RV"), dl(1, 0, "RVR"), Elect(2), dl(2, 3, "RV"), dl(3, 2, "RVR"), dl(0, 4, "RV"), dl(2, 4, "RV"),
                      dl(4, 0, "RVR"), dl(4, 2, "RVR")];
        // (7) leadership transfer: the leader's TimeoutNow makes a caught-up follower start an election at once
        let mut s7 = elect(0, 1);
        s7.extend(warm(0, 1));
        s7.extend(vec![dl(0, 2, "AE"), TimeoutNow(0, 1), RequestVotes(1), dl(1, 2, "RV"), dl(2, 1, "RVR"), dl(1, 0, "RV"),
                       Propose(1), Heartbeat(1), dl(1, 2, "AE"), dl(2, 1, "AER"), TimeoutNow(0, 2), TimeoutNow(1, 1)]);
        scripts.push(("corpus leadership-transfer: ", s7));
        // (8) F-C01-gap: the leader compacts entries a follower never received (model correspondence included)
        let rep = |l: u64, f: u64| vec![Heartbeat(l), dl(l, f, "AE"), dl(f, l, "AER")];
        let mut s8 = elect(0, 1);
        s8.extend(warm(0, 1));
        s8.extend((0..6).map(|_| Propose(0)));
        s8.extend(rep(0, 1)); s8.extend(rep(0, 1));
        s8.extend(elect(1, 0));
        s8.extend(vec![Finalize(1, 1), Compact(1)]);
        for _ in 0..4 { s8.extend(rep(1, 2)); }
        scripts.push(("corpus lagging-follower-behind-compaction: ", s8));
        // (9) F-C01-prev: a follower whose log diverges below the leader's compaction point
        let mut s9 = elect(0, 1);
        s9.extend(warm(0, 1));
        s9.extend((0..4).map(|_| Propose(0)));
        s9.extend(vec![Heartbeat(0), dl(0, 1, "AE"), dl(1, 0, "AER"), dl(0, 2, "AE"), dl(2, 0, "AER")]);
        s9.push(Propose(0));
        s9.extend(elect(1, 2));
        s9.extend(rep(1, 2));
        s9.extend(vec![Propose(1), Propose(1)]);
        s9.extend(rep(1, 2)); s9.extend(rep(1, 2));
        s9.extend(elect(2, 1));
        s9.extend(vec![Finalize(2, 1), Compact(2)]);
        for _ in 0..4 { s9.extend(rep(2, 0)); }
        scripts.push(("corpus divergent-follower-behind-compaction: ", s9));
        // (10) compaction on leader and follower, more entries, restart of the compacted follower
        let mut s10 = elect(0, 1);
        s10.extend(warm(0, 1));
        s10.extend((0..5).map(|_| Propose(0)));
        s10.extend(rep(0, 1)); s10.extend(rep(0, 1)); s10.extend(rep(0, 2)); s10.extend(rep(0, 2));
        s10.extend(vec![Finalize(0, 0), Compact(0), Finalize(1, 1), Compact(1), Propose(0)]);
        s10.extend(rep(0, 1)); s10.extend(rep(0, 2)); s10.push(Restart(1)); s10.extend(rep(0, 1)); s10.extend(rep(0, 1));
        scripts.push(("corpus compaction-then-restart: ", s10));
        // (11) the application asks to finalize above the commit index (a checkpoint on a cut-off leader): it must
        //      be refused, so compaction cannot cut into the uncommitted tail that a new leader then overwrites
        let mut s11 = elect(0, 1);
        s11.extend(warm(0, 1));
        s11.extend(vec![Propose(0), Propose(0), Propose(0)]); // uncommitted on node 0 alone
        s11.extend(vec![FinalizeUp(0, 2), Compact(0)]);
        s11.extend(elect(1, 2));
        s11.extend(rep(1, 2));
        s11.extend(vec![Propose(1), Propose(1)]);
        s11.extend(rep(1, 2)); s11.extend(rep(1, 2));
        s11.extend(rep(1, 0)); s11.extend(rep(1, 0)); s11.extend(rep(1, 0));
        scripts.push(("corpus finalize-above-commit: ", s11));
        // (12) two candidates in one term: the winner's first heartbeat reaches the voter before the loser's delayed
        //      RequestVote -- the vote cast in this term must still be remembered
        let s12 = vec![Elect(0), Elect(2), dl(0, 1, "RV"), dl(1, 0, "RVR"), Heartbeat(0), dl(0, 1, "AE"), dl(2, 1, "RV"), dl(1, 2, "RVR"),
                       dl(1, 0, "AER"), Propose(0), Propose(2), Heartbeat(0), Heartbeat(2), dl(0, 1, "AE"), dl(1, 0, "AER"), dl(2, 1, "AE"), dl(1, 2, "AER")];
        scripts.push(("corpus delayed-vote-request-after-heartbeat: ", s12));
        // (14) compaction that covers the whole log, then a candidate with an empty log: the compacted node must still
        //      know its last position and refuse the vote
        let mut s14 = elect(0, 1);
        s14.extend(warm(0, 1));
        s14.extend(vec![Propose(0), Propose(0), Propose(0)]);
        s14.extend(rep(0, 1)); s14.extend(rep(0, 1));
        s14.extend(vec![Finalize(0, 0), Compact(0), Elect(2), Elect(2), dl(2, 0, "RV"), dl(0, 2, "RVR"), dl(2, 1, "RV"), dl(1, 2, "RVR"),
                        Propose(2), Heartbeat(2), dl(2, 0, "AE"), dl(0, 2, "AER"), dl(2, 1, "AE"), dl(1, 2, "AER")]);
        scripts.push(("corpus empty-log-candidate-after-full-compaction: ", s14));
        for (ci, (tag, script)) in scripts.iter().enumerate() {
            let k = Knobs { n: 3, pre_vote: false, fast_path: false, geometric: false, adaptive: false, trailing: 0 };
            let dir = args.out.join("wal").join(format!("corpus{ci}"));
            let (t, h, nt) = run_script(script, &k, &mut rng, dir.clone(), &mut dist, tag);
            let _ = std::fs::remove_dir_all(&dir);
            w.push(&t, &h, nt);
        }
        let k5 = Knobs { n: 5, pre_vote: false, fast_path: false, geometric: false, adaptive: true, trailing: 0 };
        let dir = args.out.join("wal").join("corpus5");
        let (t, h, nt) = run_script(&s6, &k5, &mut rng, dir.clone(), &mut dist, "corpus split-vote-5: ");
        let _ = std::fs::remove_dir_all(&dir);
        w.push(&t, &h, nt);
        // (13) five voters, the same node leads twice with its uncommitted tail overwritten and regrown in between; an
        //      acknowledgement of its FIRST term is delayed across both leader changes and must be ignored
        let el5 = |c: u64, v1: u64, v2: u64| vec![Elect(c), dl(c, v1, "RV"), dl(v1, c, "RVR"), dl(c, v2, "RV"), dl(v2, c, "RVR"),
                                                   Heartbeat(c), dl(c, v1, "AE"), dl(v1, c, "AER"), dl(c, v2, "AE"), dl(v2, c, "AER")];
        let mut s13 = el5(0, 1, 2);
        s13.extend(vec![Propose(0), Propose(0), Propose(0), Heartbeat(0), dl(0, 1, "AE")]); // node 1 stores e1..e3, its ack stays in the network
        s13.extend(el5(2, 3, 4));
        s13.extend(vec![Propose(2), Heartbeat(2), dl(2, 0, "AE"), dl(0, 2, "AER"), dl(2, 3, "AE"), dl(3, 2, "AER")]); // node 0: e1..e3 -> f1
        s13.extend(el5(0, 2, 3));
        s13.extend(vec![Propose(0), Propose(0), dl(1, 0, "AER")]); // g2 g3 local; the term-1 acknowledgement (match 3) arrives
        s13.extend(vec![Heartbeat(0), dl(0, 2, "AE"), dl(2, 0, "AER")]); // g2 g3 on nodes 0 and 2 only
        s13.extend(el5(3, 4, 1)); // node 3 ([f1]) asks 4 (empty) and 1 (e1..e3, last term 1)
        s13.extend(vec![Propose(3), Heartbeat(3), dl(3, 4, "AE"), dl(4, 3, "AER"), dl(3, 1, "AE"), dl(1, 3, "AER"), dl(3, 1, "AE"), dl(1, 3, "AER")]);
        // (15) a candidate that campaigns again in the next term must not count the votes of its failed election
        let s15 = vec![Elect(0), dl(0, 1, "RV"), dl(1, 0, "RVR"), Elect(0), Elect(3), Elect(3), dl(3, 1, "RV"), dl(1, 3, "RVR"), dl(3, 4, "RV"),
                       dl(4, 3, "RVR"), dl(0, 2, "RV"), dl(2, 0, "RVR"), Heartbeat(3), dl(3, 0, "AE"), dl(0, 3, "AER"), Heartbeat(0), dl(0, 2, "AE")];
        let dir15 = args.out.join("wal").join("corpus5c");
        let (t, h, nt) = run_script(&s15, &k5, &mut rng, dir15.clone(), &mut dist, "corpus stale-votes-of-failed-election-5: ");
        let _ = std::fs::remove_dir_all(&dir15);
        w.push(&t, &h, nt);
        let dir = args.out.join("wal").join("corpus5b");
        let (t, h, nt) = run_script(&s13, &k5, &mut rng, dir.clone(), &mut dist, "corpus stale-term-ack-5: ");
        let _ = std::fs::remove_dir_all(&dir);
        w.push(&t, &h, nt);
    }
    let ncases = args.budget(120, 4000);
    for c in 0..ncases {
        let n = if rng.chance(2, 3) { 3 } else { 5 };
        let steps = rng.range(20, 90) as usize;
        let dir = args.out.join("wal").join(format!("c{c}"));
        let (t, h, nt) = run_case(&mut rng, dir.clone(), &mut dist, steps, n);
        let _ = std::fs::remove_dir_all(&dir);
        w.push(&t, &h, nt);
    }
    // schedules with finalize / compact steps: safety oracles by entry index on the implementation's observations
    let mut wc = CaseWriter::new(&args.out, "compact");
    for (ci, (tag, trailing, script)) in compact_corpus().into_iter().enumerate() {
        let dir = args.out.join("wal").join(format!("cc{ci}"));
        let (t, h, nt) = run_compact(&script, trailing, dir.clone(), &mut dist, tag);
        let _ = std::fs::remove_dir_all(&dir);
        wc.push(&t, &h, nt);
    }
    for c in 0..args.budget(60, 2000) {
        let (trailing, script) = random_compact(&mut rng);
        let dir = args.out.join("wal").join(format!("cr{c}"));
        let (t, h, nt) = run_compact(&script, trailing, dir.clone(), &mut dist, "");
        let _ = std::fs::remove_dir_all(&dir);
        wc.push(&t, &h, nt);
    }
    write_meta(
        &args.out,
        json!({
            "property": "C01", "seed": args.seed, "tier": args.tier,
            "kinds": [w.summary(), wc.summary()],
            "distribution": dist.json(),
            "nontrivial_rule": "sched: some node was observed as Leader during the schedule; compact: some node really dropped a prefix of its log during the schedule",
        }),
    );
}
