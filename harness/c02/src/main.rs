//! C02 correspondence harness: drives the REAL durable `TensorStore` (open_durable / put_durable /
//! delete_durable / checkpoint / recover), performs crashes itself by truncating the real WAL file
//! at EVERY byte offset of what each generation appended, recovers, and records what the caller
//! can see.  Up to three generations (crash, recover, write again, crash, ...).
//!
//! kind `gens` : (payload table, K, [generation])  -> NV.C02.Run.check_gens
//!   generation = (ops, call results, live observations after 0..n calls, file length after each
//!                 call, file length right after open, file bytes after the last call,
//!                 recovery observations per crash-offset range, offset the next generation
//!                 continues from)
//! kind `ckpt` : crashes at the three step boundaries inside checkpoint() -> check_ckpt
use nvh_common::*;
use std::collections::BTreeMap;
use std::fs;
use std::path::{Path, PathBuf};
use tensor_store::{
    EntityId, ScalarValue, SparseVector, TensorData, TensorStore, TensorValue, WalConfig, WalEntry,
};

const K: u64 = 24;

/// key names: by class k % 5 (emb: / user: / node: / table: / _cache:), plus keys that only LOOK like
/// a class: bare class names, a class prefix without the colon, the empty key -- all of them are
/// ordinary metadata keys (their ids have k % 5 in 1..3)
fn kname(k: u64) -> String {
    match k {
        11 => "_cache".into(),
        12 => "emb".into(),
        13 => "node".into(),
        16 => "edge".into(),
        17 => "table".into(),
        18 => "_blob".into(),
        21 => "_cachex".into(),
        22 => "embk".into(),
        23 => String::new(),
        _ => match k % 5 {
            0 => format!("emb:k{k}"),
            1 => format!("user:{k}"),
            2 => format!("node:{k}"),
            3 => format!("table:{k}"),
            _ => format!("_cache:{k}"),
        },
    }
}
fn is_cache(k: u64) -> bool {
    k % 5 == 4
}

/// vector ids: < 100 short vectors (rejected by the 384-dim slab), >= 100 vectors of dimension 384
fn vector(id: u64) -> Vec<f32> {
    match id {
        1 => vec![1.0, 2.0],
        2 => vec![0.5, -0.5, 3.0],
        3 => vec![-0.0, 1e-30, f32::MAX, -7.25],
        _ => (0..384).map(|i| ((i as u64 * 7 + id * 13) % 101) as f32 * 0.25 - 3.0).collect(),
    }
}
const VEC_IDS: [u64; 6] = [1, 2, 3, 100, 101, 102];

/// base ids: the TensorData without `_embedding`; 0 = empty
fn base_fields(id: u64) -> Vec<(&'static str, TensorValue)> {
    use ScalarValue as S;
    use TensorValue as T;
    match id {
        0 => vec![],
        1 => vec![("f", T::Scalar(S::Int(1)))],
        2 => vec![("f", T::Scalar(S::Int(2)))],
        3 => vec![("name", T::Scalar(S::String("alice \u{e9}".into())))],
        4 => vec![("x", T::Scalar(S::Float(-2.5)))],
        5 => vec![("b", T::Scalar(S::Bool(true)))],
        6 => vec![("raw", T::Scalar(S::Bytes(vec![0, 255, 7, 13])))],
        7 => vec![("n", T::Scalar(S::Null))],
        8 => vec![("ptr", T::Pointer("user:1".into()))],
        9 => vec![("ptrs", T::Pointers(vec!["node:2".into(), "emb:k0".into()]))],
        10 => vec![("sp", T::Sparse(SparseVector::from_dense(&[0.0, 1.5, 0.0, 0.0, -2.0])))],
        11 => vec![("vec", T::Vector(vec![9.0, 8.0, 7.0]))],
        12 => vec![("f", T::Scalar(S::Int(i64::MIN))), ("g", T::Scalar(S::String(String::new())))],
        // large values (records above the log writer's 8 KiB buffer); only drawn on request
        13 => vec![("raw", T::Scalar(S::Bytes((0..8400u32).map(|i| (i.wrapping_mul(2654435761) >> 13) as u8).collect())))],
        _ => vec![("raw", T::Scalar(S::Bytes((0..8700u32).map(|i| (i.wrapping_mul(40503) >> 7) as u8).collect())))],
    }
}
const NBASE: u64 = 13;
const NBASE_ALL: u64 = 15;

#[derive(Clone, Copy, PartialEq, Eq, Hash, PartialOrd, Ord, Debug)]
struct Val {
    base: u64,
    emb: Option<u64>,
}
impl Val {
    fn coq(&self) -> String {
        format!("(V {} {})", self.base, opt(self.emb.map(n)))
    }
}

/// every TensorData is built once and always cloned from here, so the field order inside the
/// HashMap (which bitcode serialises) is the same for the table entry and for the real call
struct Values {
    made: BTreeMap<Val, TensorData>,
}
impl Values {
    fn new() -> Self {
        Values { made: BTreeMap::new() }
    }
    fn data(&mut self, v: Val) -> TensorData {
        self.made
            .entry(v)
            .or_insert_with(|| {
                let mut d = TensorData::new();
                for (f, x) in base_fields(v.base) {
                    d.set(f, x);
                }
                if let Some(e) = v.emb {
                    d.set("_embedding", TensorValue::Vector(vector(e)));
                }
                d
            })
            .clone()
    }
}
/// canonical name of a TensorData the store returned (999 = not a value of the universe)
fn canon(d: &TensorData) -> Val {
    let mut rest = d.clone();
    let emb = match rest.remove("_embedding") {
        Some(TensorValue::Vector(v)) => Some(
            VEC_IDS
                .iter()
                .copied()
                .find(|id| {
                    let w = vector(*id);
                    w.len() == v.len() && w.iter().zip(v.iter()).all(|(a, b)| a.to_bits() == b.to_bits())
                })
                .unwrap_or(999),
        ),
        Some(_) => Some(998),
        None => None,
    };
    let mut base = 999;
    static BASES: std::sync::OnceLock<Vec<TensorData>> = std::sync::OnceLock::new();
    let bases = BASES.get_or_init(|| {
        (0..NBASE_ALL)
            .map(|id| {
                let mut t = TensorData::new();
                for (f, x) in base_fields(id) {
                    t.set(f, x);
                }
                t
            })
            .collect()
    });
    for id in 0..NBASE_ALL {
        if bases[id as usize] == rest {
            base = id;
            break;
        }
    }
    Val { base, emb }
}

#[derive(Clone, Debug)]
enum Op {
    Put(u64, Val),
    Del(u64),
    /// explicit TensorStore::sync() -- a no-op for the model (not printed), only moves the ack watermark
    Sync,
    /// a checkpoint() that fails while writing the snapshot (0: target directory missing,
    /// 1: the temp file name is occupied by a directory); must leave store, log and snapshot as
    /// they were -- a no-op for the model (not printed)
    CkptFail(u64),
}
impl Op {
    fn coq(&self) -> String {
        match self {
            Op::Put(k, v) => format!("Put {} {}", k, v.coq()),
            Op::Del(k) => format!("Del {k}"),
            Op::Sync | Op::CkptFail(_) => unreachable!("not a model op"),
        }
    }
}

type Obs = Vec<(Option<Val>, bool)>;
fn observe(s: &TensorStore) -> Obs {
    let scan: std::collections::HashSet<String> = s.scan("").into_iter().collect();
    (0..K)
        .map(|k| {
            if is_cache(k) {
                (None, false)
            } else {
                let name = kname(k);
                (s.get(&name).ok().map(|d| canon(&d)), scan.contains(&name))
            }
        })
        .collect()
}
fn obs_coq(o: &Obs) -> String {
    list(o.iter().map(|(g, sc)| format!("({}, {})", opt(g.map(|v| v.coq())), b(*sc))))
}
fn obs_human(o: &Obs) -> String {
    let mut s = String::new();
    for (k, (g, sc)) in o.iter().enumerate() {
        if g.is_some() || *sc {
            s.push_str(&format!("{}={:?}{} ", kname(k as u64), g.map(|v| (v.base, v.emb)), if *sc { "" } else { "!noscan" }));
        }
    }
    format!("{{{}}}", s.trim_end())
}

/// payload table for the model: every record the calls of this case can produce
fn table(vals: &mut Values, ops: &[Op], max_ids: u64) -> String {
    let mut rows: Vec<String> = vec![];
    let mut seen = std::collections::BTreeSet::new();
    let mut push = |term: String, e: WalEntry, rows: &mut Vec<String>| {
        if seen.insert(term.clone()) {
            let bytes_ = bitcode::serialize(&e).expect("serialize");
            rows.push(format!("({}, {})", term, bytes(&bytes_)));
        }
    };
    let mut vecs = std::collections::BTreeSet::new();
    for op in ops {
        match op {
            Op::Put(k, v) => {
                if is_cache(*k) {
                    continue;
                }
                push(
                    format!("MetaSet {} {}", k, v.coq()),
                    WalEntry::MetadataSet { key: kname(*k), data: vals.data(*v) },
                    &mut rows,
                );
                if let Some(e) = v.emb {
                    vecs.insert(e);
                }
            }
            Op::Del(k) => {
                if is_cache(*k) {
                    continue;
                }
                push(format!("MetaDel {k}"), WalEntry::MetadataDelete { key: kname(*k) }, &mut rows);
                push(format!("EntRemove {k}"), WalEntry::EntityRemove { key: kname(*k) }, &mut rows);
            }
            Op::Sync | Op::CkptFail(_) => {}
        }
    }
    for id in 0..max_ids {
        push(format!("EmbDel {id}"), WalEntry::EmbeddingDelete { entity_id: EntityId(id) }, &mut rows);
        for e in &vecs {
            push(
                format!("EmbSet {id} {e}"),
                WalEntry::EmbeddingSet { entity_id: EntityId(id), embedding: vector(*e) },
                &mut rows,
            );
        }
    }
    for id in 0..3 {
        push(format!("Checkpoint {id}"), WalEntry::Checkpoint { snapshot_id: id }, &mut rows);
    }
    list(rows)
}

struct GenOut {
    term: String,
    human: String,
    oracle_fail: Option<String>,
}

struct OpsOut {
    results: Vec<bool>,
    lives: Vec<Obs>,
    ends: Vec<u64>,
    acks: Vec<u64>,
    model_ops: Vec<Op>,
}
/// run calls on the live store; observe after each; `ends` = logical end offset of each call's
/// records, `acks` = that offset once an fsync covered it (NEVER otherwise)
fn run_ops(store: &TensorStore, wal: &Path, vals: &mut Values, ops: &[Op], dist: &mut Dist, snap_for_fail: &Path, mode: tensor_store::SyncMode) -> OpsOut {
    let mut results = vec![];
    let mut lives: Vec<Obs> = vec![observe(store)];
    let mut ends: Vec<u64> = vec![];
    let mut acks: Vec<u64> = vec![];
    const NEVER: u64 = 1_000_000_000_000_000_000;
    for op in ops {
        if matches!(op, Op::Sync) {
            dist.hit("op.sync");
            let _ = store.sync();
            let on_disk = fs::metadata(wal).map(|m| m.len()).unwrap_or(0);
            for (e, a) in ends.iter().zip(acks.iter_mut()) {
                // acknowledged from the moment this fsync completed: crash images shorter than
                // what it made durable predate it
                if *e <= on_disk && *a == NEVER {
                    *a = on_disk;
                }
            }
            continue;
        }
        if let Op::CkptFail(kind) = op {
            // the snapshot cannot be written: checkpoint() must fail and change nothing
            let r = if *kind == 0 {
                store.checkpoint(snap_for_fail.parent().unwrap().join("no-such-dir").join("x.snap"))
            } else {
                let mut tmp = snap_for_fail.as_os_str().to_owned();
                tmp.push(".tmp");
                let tmp = PathBuf::from(tmp);
                let _ = fs::create_dir_all(&tmp);
                let r = store.checkpoint(snap_for_fail);
                let _ = fs::remove_dir_all(&tmp);
                r
            };
            dist.hit(if r.is_err() { "op.checkpoint_fails" } else { "op.checkpoint_fails.UNEXPECTED_OK" });
            continue;
        }
        let ok = match op {
            Op::Put(k, v) => {
                dist.hit(&format!("op.put.class{}", k % 5));
                if v.emb.map_or(false, |e| e >= 100) {
                    dist.hit("op.put.embedding384");
                } else if v.emb.is_some() {
                    dist.hit("op.put.embedding_short");
                }
                guarded(std::panic::AssertUnwindSafe(|| store.put_durable(kname(*k), vals.data(*v)).is_ok())).unwrap_or(false)
            }
            Op::Del(k) => {
                dist.hit(&format!("op.del.class{}", k % 5));
                guarded(std::panic::AssertUnwindSafe(|| store.delete_durable(&kname(*k)).is_ok())).unwrap_or(false)
            }
            Op::Sync | Op::CkptFail(_) => unreachable!(),
        };
        dist.hit(if ok { "call.ok" } else { "call.err" });
        results.push(ok);
        lives.push(observe(store));
        // logical end of this call's records (includes bytes still in the writer's buffer)
        ends.push(store.wal_status().map_or(0, |st| st.size_bytes));
        acks.push(NEVER);
        // acknowledged = covered by an fsync.  Immediate: every call.  Batched: the log grows on
        // disk only when a full batch is synced -- except that a record larger than the writer's
        // 8 KiB buffer is passed through (flushed, NOT fsynced), which acknowledges nothing.
        // Manual: explicit sync() only (handled above).
        let large = matches!(op, Op::Put(_, val) if val.base >= NBASE);
        let fsynced = match mode {
            tensor_store::SyncMode::Immediate => true,
            tensor_store::SyncMode::Batched { .. } => !large,
            tensor_store::SyncMode::Manual => false,
        };
        if fsynced {
            let on_disk = fs::metadata(wal).map(|m| m.len()).unwrap_or(0);
            for (e, a) in ends.iter().zip(acks.iter_mut()) {
                // acknowledged from the moment this fsync completed: crash images shorter than
                // what it made durable predate it
                if *e <= on_disk && *a == NEVER {
                    *a = on_disk;
                }
            }
        }
    }
    let model_ops: Vec<Op> = ops.iter().filter(|o| matches!(o, Op::Put(..) | Op::Del(..))).cloned().collect();
    OpsOut { results, lives, ends, acks, model_ops }
}

/// runs one generation on `store` (already opened on `wal`), then crashes at every byte of the
/// appended region; returns the Gallina term and the file bytes
#[allow(clippy::too_many_arguments)]
fn run_generation(
    store: TensorStore,
    wal: &Path,
    scratch: &Path,
    vals: &mut Values,
    ops: &[Op],
    chosen_pick: &mut dyn FnMut(u64, u64, &[u64]) -> u64,
    dist: &mut Dist,
    thorough: bool,
    snapshot: Option<&Path>,
    cfg: &WalConfig,
) -> (GenOut, Vec<u8>, u64) {
    run_generation_seg(store, wal, scratch, vals, ops, chosen_pick, dist, thorough, snapshot, cfg, &[])
}
/// `segments`: rotated log files (n, bytes) that lie next to the live log; every crash image gets
/// copies of them under the matching names
#[allow(clippy::too_many_arguments)]
fn run_generation_seg(
    store: TensorStore,
    wal: &Path,
    scratch: &Path,
    vals: &mut Values,
    ops: &[Op],
    chosen_pick: &mut dyn FnMut(u64, u64, &[u64]) -> u64,
    dist: &mut Dist,
    thorough: bool,
    snapshot: Option<&Path>,
    cfg: &WalConfig,
    segments: &[(usize, Vec<u8>)],
) -> (GenOut, Vec<u8>, u64) {
    let cfg = cfg.clone();
    let base = fs::metadata(wal).map(|m| m.len()).unwrap_or(0);
    let fail_snap = snapshot.map_or_else(|| wal.with_extension("failsnap"), |p| p.to_path_buf());
    let OpsOut { results, lives, ends, acks, model_ops } = run_ops(&store, wal, vals, ops, dist, &fail_snap, cfg.sync_mode);
    let all_calls = ops;
    let ops = &model_ops[..];
    drop(store);
    let fbytes = fs::read(wal).unwrap_or_default();
    let len = fbytes.len() as u64;
    // crash at every byte offset of what this generation appended (base..=len); the recoveries
    // are independent, so they run on a few threads (results are merged in offset order)
    let t_rec = std::time::Instant::now();
    // every byte offset; in the quick tier the interior of LARGE records (384-dim vectors,
    // > 200 bytes) is visited with stride 13 (all offsets within 24 bytes of a record edge are
    // always visited); the thorough tier visits every byte of everything
    let mut interior = vec![false; fbytes.len() + 1];
    if !thorough {
        let mut pos = base as usize;
        while pos + 8 <= fbytes.len() {
            let l = u32::from_le_bytes([fbytes[pos], fbytes[pos + 1], fbytes[pos + 2], fbytes[pos + 3]]) as usize;
            let end = pos + 8 + l;
            if end > fbytes.len() {
                break;
            }
            if l > 200 {
                for (i, x) in interior.iter_mut().enumerate().take(end - 24).skip(pos + 24) {
                    *x = i % 13 != 0;
                }
            }
            pos = end;
        }
    }
    let offsets: Vec<u64> = (base..=len).filter(|k| !interior[*k as usize]).collect();
    let nthreads = 12usize.min(offsets.len().max(1));
    let chunk = (offsets.len() + nthreads - 1) / nthreads.max(1);
    let mut all: Vec<(u64, Option<Obs>)> = vec![];
    std::thread::scope(|sc| {
        let mut hs = vec![];
        for (ti, part) in offsets.chunks(chunk.max(1)).enumerate() {
            let fb = &fbytes;
            let cfg = cfg.clone();
            let path = scratch.with_extension(format!("t{ti}"));
            hs.push(sc.spawn(move || {
                let mut out = vec![];
                let seg_path = |n: usize| {
                    let mut p = path.as_os_str().to_owned();
                    p.push(format!(".{n}"));
                    PathBuf::from(p)
                };
                for (n, bs) in segments {
                    fs::write(seg_path(*n), bs).unwrap();
                }
                for &k in part {
                    fs::write(&path, &fb[..k as usize]).unwrap();
                    let ro = match guarded(std::panic::AssertUnwindSafe(|| TensorStore::recover(&path, &cfg, snapshot))) {
                        Ok(Ok(s)) => Some(observe(&s)),
                        _ => None,
                    };
                    out.push((k, ro));
                }
                let _ = fs::remove_file(&path);
                for (n, _) in segments {
                    let _ = fs::remove_file(seg_path(*n));
                }
                out
            }));
        }
        for h in hs {
            all.extend(h.join().unwrap());
        }
    });
    all.sort_by_key(|x| x.0);
    if std::env::var("NVH_TIMING").is_ok() {
        eprintln!("gen: {} ops, {} offsets, recoveries took {:?}", ops.len(), offsets.len(), t_rec.elapsed());
    }
    let mut runs: Vec<(u64, u64, u64, Option<Obs>)> = vec![]; // (from, to, step, observation)
    let mut oracle_fail = None;
    for (k, ro) in all {
        // the same oracle the Coq side evaluates, here only to label the evidence / replay
        let acked = acks.iter().filter(|e| **e <= k).count();
        let holds = ro.as_ref().map_or(false, |o| lives[acked..].iter().any(|l| l == o));
        if !holds && oracle_fail.is_none() {
            oracle_fail = Some(format!(
                "crash at byte {k} of {len} (acknowledged calls {acked}/{}): recovery {}",
                ops.len(),
                match &ro {
                    None => "FAILED".to_string(),
                    Some(o) => format!("gave {} which no acknowledged-covering prefix produces", obs_human(o)),
                }
            ));
        }
        dist.hit(if ro.is_some() { "recover.ok" } else { "recover.err" });
        match runs.last_mut() {
            Some((from, to, step, o)) if *o == ro && (*from == *to || k - *to == *step) => {
                *step = k - *to;
                *to = k;
            }
            _ => runs.push((k, k, 1, ro)),
        }
    }
    let chosen = chosen_pick(base, len, &ends);
    let term = format!(
        "({}, {}, {}, {}, {}, {}, {}, {}, {})",
        list(ops.iter().map(|o| o.coq())),
        list(results.iter().map(|r| b(*r))),
        list(lives.iter().map(obs_coq)),
        list(ends.iter().map(|e| n(*e))),
        list(acks.iter().map(|e| n(*e))),
        base,
        bytes(&fbytes),
        list(runs.iter().map(|(a, z, st, o)| format!("({}, {}, {}, {})", a, z, st, opt(o.as_ref().map(obs_coq))))),
        chosen
    );
    // `ops` are the calls the model sees; explicit sync calls and checkpoint attempts that fail
    // while writing the snapshot are listed too when there are any
    let extra = if all_calls.len() != ops.len() { format!(" all_calls={all_calls:?}") } else { String::new() };
    let human = format!(
        "sync={:?} ops={:?}{extra} results={:?} base={} len={} chosen_crash={} final_live={}",
        cfg.sync_mode,
        ops,
        results,
        base,
        len,
        chosen,
        obs_human(lives.last().unwrap())
    );
    (GenOut { term, human, oracle_fail }, fbytes, chosen)
}

fn gen_val(r: &mut Rng, big: bool) -> Val {
    let base = r.below(NBASE);
    let emb = if r.chance(2, 5) {
        Some(if big && r.chance(2, 3) { *r.pick(&[100u64, 101, 102]) } else { *r.pick(&[1u64, 2, 3]) })
    } else {
        None
    };
    Val { base, emb }
}
fn gen_ops(r: &mut Rng, nops: usize, big: bool, keys: &[u64]) -> Vec<Op> {
    (0..nops)
        .map(|_| {
            let k = *r.pick(keys);
            if r.chance(7, 10) {
                Op::Put(k, gen_val(r, big))
            } else {
                Op::Del(k)
            }
        })
        .collect()
}

struct Ctx<'a> {
    args: &'a Args,
    vals: Values,
    dist: Dist,
    w: CaseWriter,
    hits: Hits,
    counter: usize,
}

/// a whole case: generations = [(ops, how to pick the continuing crash offset)]
fn run_case(cx: &mut Ctx, label: &str, gens: Vec<Vec<Op>>, picks: Vec<Box<dyn FnMut(u64, u64, &[u64]) -> u64>>) {
    run_case_cfg(cx, label, gens, picks, WalConfig::default())
}
fn run_case_cfg(cx: &mut Ctx, label: &str, gens: Vec<Vec<Op>>, picks: Vec<Box<dyn FnMut(u64, u64, &[u64]) -> u64>>, cfg: WalConfig) {
    cx.counter += 1;
    let dir: PathBuf = cx.args.out.join("scratch");
    fs::create_dir_all(&dir).unwrap();
    let wal = dir.join(format!("c{}.wal", cx.counter));
    let scratch = dir.join("crash.wal");
    let _ = fs::remove_file(&wal);
    let all_ops: Vec<Op> = gens.iter().flatten().cloned().collect();
    let tab = table(&mut cx.vals, &all_ops, all_ops.len() as u64 + 1);
    let mut terms = vec![];
    let mut humans = vec![];
    let mut fail: Option<String> = None;
    let mut picks = picks;
    let ngen = gens.len();
    for (gi, ops) in gens.iter().enumerate() {
        let store = if gi == 0 {
            TensorStore::open_durable(&wal, cfg.clone()).expect("open_durable")
        } else {
            match TensorStore::recover(&wal, &cfg, None) {
                Ok(s) => s,
                Err(e) => {
                    // the generation cannot even start: recovery after the chosen crash failed;
                    // (already recorded as an oracle failure of the previous generation)
                    humans.push(format!("gen{}: recover failed: {e}", gi + 1));
                    break;
                }
            }
        };
        let (out, fbytes, chosen) = run_generation(store, &wal, &scratch, &mut cx.vals, ops, &mut *picks[gi], &mut cx.dist, cx.args.thorough(), None, &cfg);
        if fail.is_none() {
            if let Some(f) = &out.oracle_fail {
                fail = Some(format!("generation {}: {}", gi + 1, f));
            }
        }
        terms.push(out.term);
        humans.push(format!("gen{}: {}", gi + 1, out.human));
        // the crash the next generation starts from
        fs::write(&wal, &fbytes[..chosen as usize]).unwrap();
        cx.dist.hit(&format!("generations.{}", gi + 1));
    }
    let _ = fs::remove_file(&wal);
    let term = format!("({}, {}, {})", tab, K, list(terms));
    let human = format!("{label}: {}{}", humans.join(" | "), fail.as_ref().map(|f| format!(" ORACLE-FALSE: {f}")).unwrap_or_default());
    cx.w.push(&term, &human, ngen >= 1 && all_ops.len() >= 2);
}

/// Crash images around and inside checkpoint(): what is on disk (log + snapshot file) when it is
/// called, at EVERY hook point reached inside it (in whatever order the code reaches them), when it
/// returns, and at every byte between two images whose log grew.  Optionally after an earlier
/// complete checkpoint (`pre`).  Then one more generation of calls recovered WITH the snapshot.
#[allow(clippy::too_many_arguments)]
fn run_ckpt_case(cx: &mut Ctx, wck: &mut CaseWriter, label: &str, pre: Option<Vec<Op>>, ops1: Vec<Op>, ops2: Vec<Op>, cfg: WalConfig) {
    run_ckpt_case_x(cx, wck, label, pre, None, ops1, ops2, cfg)
}
/// `stale` = calls followed by a checkpoint() that is INTERRUPTED by a crash at the step boundary
/// "snapshot written to <snapshot>.tmp, not yet renamed" (hook point snapshot.before_rename): the
/// disk keeps the log, the previous snapshot (if any) and the temp file; the store is recovered from
/// that image and goes on with `ops1`, the checkpoint under test (to the same path), `ops2`.  For the
/// model this is the same history without the crash (recovery of a fully synced log gives the live
/// state), which the check confirms observation by observation.  Only without `pre` (a recovered
/// store numbers its checkpoints from 0 again).
#[allow(clippy::too_many_arguments)]
fn run_ckpt_case_x(cx: &mut Ctx, wck: &mut CaseWriter, label: &str, pre: Option<Vec<Op>>, stale: Option<Vec<Op>>, ops1: Vec<Op>, ops2: Vec<Op>, cfg: WalConfig) {
    use std::sync::{Arc, Mutex};
    cx.counter += 1;
    let dir: PathBuf = cx.args.out.join("scratch");
    fs::create_dir_all(&dir).unwrap();
    let wal = dir.join(format!("k{}.wal", cx.counter));
    let snap = dir.join(format!("k{}.snap", cx.counter));
    let scratch = dir.join(format!("crashk{}.wal", cx.counter));
    let scratch_snap = dir.join(format!("crashk{}.snap", cx.counter));
    let _ = fs::remove_file(&wal);
    let _ = fs::remove_file(&snap);
    let tmp_path = {
        let mut t = snap.as_os_str().to_owned();
        t.push(".tmp");
        PathBuf::from(t)
    };
    let _ = fs::remove_file(&tmp_path);
    let all_ops: Vec<Op> = pre.iter().flatten().chain(stale.iter().flatten()).chain(ops1.iter()).chain(ops2.iter()).cloned().collect();
    let tab = table(&mut cx.vals, &all_ops, all_ops.len() as u64 + 1);
    let mut store = TensorStore::open_durable(&wal, cfg.clone()).expect("open_durable");
    // an earlier, complete checkpoint
    let mut old_snap: Option<Vec<u8>> = None;
    let pre_model: Option<Vec<Op>> = pre.as_ref().map(|p| p.iter().filter(|o| matches!(o, Op::Put(..) | Op::Del(..))).cloned().collect());
    if let Some(p0) = &pre {
        let _ = run_ops(&store, &wal, &mut cx.vals, p0, &mut cx.dist, &snap, cfg.sync_mode);
        let _ = store.sync();
        if store.checkpoint(&snap).is_err() {
            cx.dist.hit("ckpt.first_checkpoint_failed");
            return;
        }
        old_snap = fs::read(&snap).ok();
    }
    // calls, then a checkpoint interrupted at snapshot.before_rename; recovery from that crash image
    let mut o0: Option<OpsOut> = None;
    let mut stale_len = 0usize;
    if let Some(s0) = &stale {
        let mut s0 = s0.clone();
        s0.push(Op::Sync); // the whole log is on disk when the checkpoint starts
        let o = run_ops(&store, &wal, &mut cx.vals, &s0, &mut cx.dist, &snap, cfg.sync_mode);
        let cap: Arc<Mutex<Option<(Vec<u8>, Option<Vec<u8>>, Vec<u8>)>>> = Arc::new(Mutex::new(None));
        {
            let cap = cap.clone();
            let (walp, snapp, tmpp) = (wal.clone(), snap.clone(), tmp_path.clone());
            tensor_store::verif_hook::set(Some(Arc::new(move |name: &str| {
                if name == "snapshot.before_rename" {
                    let mut c = cap.lock().unwrap();
                    if c.is_none() {
                        *c = Some((fs::read(&walp).unwrap_or_default(), fs::read(&snapp).ok(), fs::read(&tmpp).unwrap_or_default()));
                    }
                }
            })));
        }
        let _ = store.checkpoint(&snap);
        tensor_store::verif_hook::set(None);
        drop(store);
        let Some((w0, s_old, t0)) = cap.lock().unwrap().clone() else {
            cx.dist.hit("ckpt.interrupted.point_not_reached");
            return;
        };
        // the disk as the crash left it
        fs::write(&wal, &w0).unwrap();
        match &s_old {
            Some(bs) => fs::write(&snap, bs).unwrap(),
            None => {
                let _ = fs::remove_file(&snap);
            }
        }
        fs::write(&tmp_path, &t0).unwrap();
        stale_len = t0.len();
        store = match guarded(std::panic::AssertUnwindSafe(|| TensorStore::recover(&wal, &cfg, Some(snap.as_path())))) {
            Ok(Ok(st)) => st,
            _ => {
                cx.dist.hit("ckpt.interrupted.recovery_FAILED");
                return;
            }
        };
        cx.dist.hit("ckpt.interrupted_checkpoint_left_temp_file");
        o0 = Some(o);
    }
    let mut o1 = run_ops(&store, &wal, &mut cx.vals, &ops1, &mut cx.dist, &snap, cfg.sync_mode);
    if let Some(o) = o0 {
        // one history for the model: the calls before the interrupted checkpoint, then ops1; the first
        // observation of the recovered store takes the place of the last one of the crashed store
        // (a difference is a difference between live and recovered state and shows up in the check)
        let mut lives = o.lives;
        lives.pop();
        lives.extend(o1.lives);
        o1 = OpsOut {
            results: o.results.into_iter().chain(o1.results).collect(),
            lives,
            ends: o.ends.into_iter().chain(o1.ends).collect(),
            acks: o.acks.into_iter().chain(o1.acks).collect(),
            model_ops: o.model_ops.into_iter().chain(o1.model_ops).collect(),
        };
    }
    let live = o1.lives.last().unwrap().clone();
    let wdisk = fs::read(&wal).unwrap_or_default();
    // images: (point name, log bytes, snapshot bytes if the file exists)
    type Img = (String, Vec<u8>, Option<Vec<u8>>);
    let seen: Arc<Mutex<Vec<Img>>> = Arc::new(Mutex::new(vec![]));
    seen.lock().unwrap().push(("checkpoint.called".into(), wdisk.clone(), fs::read(&snap).ok()));
    {
        let seen = seen.clone();
        let (walp, snapp) = (wal.clone(), snap.clone());
        tensor_store::verif_hook::set(Some(Arc::new(move |name: &str| {
            if name.starts_with("checkpoint.") || name.starts_with("snapshot.") {
                seen.lock().unwrap().push((name.to_string(), fs::read(&walp).unwrap_or_default(), fs::read(&snapp).ok()));
            }
        })));
    }
    let ck = store.checkpoint(&snap);
    tensor_store::verif_hook::set(None);
    seen.lock().unwrap().push(("checkpoint.returned".into(), fs::read(&wal).unwrap_or_default(), fs::read(&snap).ok()));
    let seen: Vec<Img> = seen.lock().unwrap().clone();
    if ck.is_err() {
        cx.dist.hit("ckpt.checkpoint_failed");
        return;
    }
    for (name, _, _) in &seen {
        cx.dist.hit(&format!("ckpt.point.{name}"));
    }
    let new_snap = fs::read(&snap).unwrap_or_default();
    if stale.is_some() {
        cx.dist.hit(if new_snap.len() < stale_len { "ckpt.interrupted.new_snapshot_shorter_than_temp_file" } else { "ckpt.interrupted.new_snapshot_not_shorter" });
    }
    let code = |sb: &Option<Vec<u8>>| -> u64 {
        match sb {
            None => 0,
            Some(b_) if *b_ == new_snap => 2,
            Some(b_) if Some(b_) == old_snap.as_ref() => 1,
            Some(_) => 3,
        }
    };
    // the marker record, if it ever was on disk behind the log as it was at the call
    // (what the log gained on disk up to the point "marker logged", if the marker reached the disk there)
    let marker: Vec<u8> = seen
        .iter()
        .position(|(name, _, _)| name == "checkpoint.marker_logged")
        .filter(|i| *i > 0 && seen[*i].1.len() > seen[*i - 1].1.len() && seen[*i].1.starts_with(&wdisk))
        .map(|i| seen[i].1[wdisk.len()..].to_vec())
        .unwrap_or_default();
    // crash states: every image, plus every byte between two images whose log grew
    let mut fail: Option<String> = None;
    let mut images: Vec<String> = vec![];
    let mut nstates = 0u64;
    let n1 = o1.results.len();
    let mut prev: Option<(Vec<u8>, Option<Vec<u8>>)> = None;
    for (name, w, sb) in &seen {
        let mut jobs: Vec<(Vec<u8>, Option<Vec<u8>>, u64, u64, String)> = vec![];
        if let Some((pw, psb)) = &prev {
            if w.len() > pw.len() + 1 && w.starts_with(pw) {
                jobs.push((w.clone(), psb.clone(), pw.len() as u64 + 1, w.len() as u64 - 1, format!("between the previous point and {name}")));
            }
            if pw == w && psb == sb {
                continue; // nothing changed on disk
            }
        }
        jobs.push((w.clone(), sb.clone(), w.len() as u64, w.len() as u64, format!("at {name}")));
        prev = Some((w.clone(), sb.clone()));
        for (wb, sbytes, lo, hi, what) in jobs {
            let sc = code(&sbytes);
            let mut runs: Vec<(u64, u64, u64, Option<Obs>)> = vec![];
            for k in lo..=hi {
                fs::write(&scratch, &wb[..k as usize]).unwrap();
                let sp = match &sbytes {
                    Some(bs) => {
                        fs::write(&scratch_snap, bs).unwrap();
                        Some(scratch_snap.as_path())
                    }
                    None => {
                        let _ = fs::remove_file(&scratch_snap);
                        None
                    }
                };
                let ro = match guarded(std::panic::AssertUnwindSafe(|| TensorStore::recover(&scratch, &cfg, sp))) {
                    Ok(Ok(st)) => Some(observe(&st)),
                    _ => None,
                };
                nstates += 1;
                // the oracle of Run.v (image_oracle), only to label the evidence
                let acked = if sc == 2 {
                    o1.acks.iter().filter(|e| **e < 1_000_000_000_000_000_000).count()
                } else {
                    o1.acks.iter().filter(|e| **e <= k).count()
                };
                let holds = ro.as_ref().map_or(false, |o| o1.lives[acked.min(n1)..].iter().any(|l| l == o));
                if !holds && fail.is_none() {
                    fail = Some(format!(
                        "crash inside checkpoint {what} (log prefix {k} of {}, snapshot {}, {acked} calls acknowledged): recovery {}, which is not the state after any acknowledged-covering prefix of the calls; the live store showed {}",
                        wb.len(),
                        ["absent", "of the previous checkpoint", "of this checkpoint", "unknown"][sc as usize],
                        ro.as_ref().map_or("FAILED".to_string(), |o| format!("gave {}", obs_human(o))),
                        obs_human(&live)
                    ));
                }
                match runs.last_mut() {
                    Some((from, to, step, o)) if *o == ro && (*from == *to || k - *to == *step) => {
                        *step = k - *to;
                        *to = k;
                    }
                    _ => runs.push((k, k, 1, ro)),
                }
            }
            images.push(format!(
                "({}, {}, {})",
                bytes(&wb),
                sc,
                list(runs.iter().map(|(a, z, st, o)| format!("({}, {}, {}, {})", a, z, st, opt(o.as_ref().map(obs_coq)))))
            ));
        }
    }
    cx.dist.add("ckpt.crash_states", nstates);
    // the calls after the checkpoint, crashed at every byte, recovered with the snapshot
    let mut pick = pick_end();
    let thorough = cx.args.thorough();
    let (g2, _fb, _ch) = run_generation(store, &wal, &scratch, &mut cx.vals, &ops2, &mut *pick, &mut cx.dist, thorough, Some(&snap), &cfg);
    if fail.is_none() {
        fail = g2.oracle_fail.clone().map(|f| format!("after the checkpoint: {f}"));
    }
    let term = format!(
        "({}, {}, {}, {}, {}, {}, {}, {}, {}, {}, {}, {})",
        tab,
        K,
        opt(pre_model.as_ref().map(|p| list(p.iter().map(|o| o.coq())))),
        list(o1.model_ops.iter().map(|o| o.coq())),
        list(o1.results.iter().map(|r| b(*r))),
        list(o1.lives.iter().map(obs_coq)),
        list(o1.ends.iter().map(|e| n(*e))),
        list(o1.acks.iter().map(|e| n(*e))),
        bytes(&wdisk),
        bytes(&marker),
        list(images),
        g2.term
    );
    let human = format!(
        "{label}: sync={:?} before_previous_checkpoint={:?}{} ops={:?} results={:?} live_at_checkpoint={} log_on_disk={} marker_len={} points={:?} crash_states={} | after checkpoint: {}{}",
        cfg.sync_mode, pre,
        stale.as_ref().map(|s0| format!(" before_a_checkpoint_interrupted_at_snapshot.before_rename(temp file of {stale_len} bytes left, store recovered)={s0:?}")).unwrap_or_default(),
        ops1, o1.results, obs_human(&live), wdisk.len(), marker.len(),
        seen.iter().map(|x| x.0.as_str()).collect::<Vec<_>>(), nstates, g2.human,
        fail.as_ref().map(|f| format!(" ORACLE-FALSE: {f}")).unwrap_or_default()
    );
    wck.push(&term, &human, o1.model_ops.len() >= 2);
    let _ = fs::remove_file(&wal);
    let _ = fs::remove_file(&snap);
    let _ = fs::remove_file(&tmp_path);
}

/// log rotation (small max_size_bytes) during the calls, then a COMPLETE checkpoint, then more
/// calls crashed at every byte and recovered with the snapshot: whatever rotation lost before the
/// checkpoint (known class wal-rotation), everything acknowledged after it must survive
fn run_rot_case(cx: &mut Ctx, wrot: &mut CaseWriter, label: &str, ops1: Vec<Op>, ops2: Vec<Op>, maxsz: u64) {
    cx.counter += 1;
    let dir: PathBuf = cx.args.out.join("scratch");
    fs::create_dir_all(&dir).unwrap();
    let wal = dir.join(format!("r{}.wal", cx.counter));
    let snap = dir.join(format!("r{}.snap", cx.counter));
    let scratch = dir.join(format!("crashr{}.wal", cx.counter));
    let rotated = |i: usize| dir.join(format!("r{}.wal.{i}", cx.counter));
    let cleanup = |all: bool| {
        for i in 1..4 {
            let _ = fs::remove_file(rotated(i));
        }
        if all {
            let _ = fs::remove_file(&wal);
            let _ = fs::remove_file(&snap);
        }
    };
    cleanup(true);
    let cfg = WalConfig { max_size_bytes: maxsz, ..WalConfig::default() };
    let all_ops: Vec<Op> = ops1.iter().chain(ops2.iter()).cloned().collect();
    let tab = table(&mut cx.vals, &all_ops, all_ops.len() as u64 + 1);
    let store = TensorStore::open_durable(&wal, cfg.clone()).expect("open_durable");
    let o1 = run_ops(&store, &wal, &mut cx.vals, &ops1, &mut cx.dist, &snap, cfg.sync_mode);
    let live = o1.lives.last().unwrap().clone();
    let wlen = fs::metadata(&wal).map(|m| m.len()).unwrap_or(0);
    if !rotated(1).exists() {
        cx.dist.hit("rot.no_rotation_happened");
        cleanup(true);
        return;
    }
    if store.checkpoint(&snap).is_err() {
        cx.dist.hit("rot.checkpoint_failed");
        cleanup(true);
        return;
    }
    let rot_before = (1..4).filter(|i| rotated(*i).exists()).count();
    let mut pick = pick_end();
    let thorough = cx.args.thorough();
    let segments: Vec<(usize, Vec<u8>)> = (1..4).filter_map(|i| fs::read(rotated(i)).ok().map(|bs| (i, bs))).collect();
    let (g2, fb, _ch) = run_generation_seg(store, &wal, &scratch, &mut cx.vals, &ops2, &mut *pick, &mut cx.dist, thorough, Some(&snap), &cfg, &segments);
    let rot_after = (1..4).filter(|i| rotated(*i).exists()).count();
    let segments_after: Vec<(usize, Vec<u8>)> = (1..4).filter_map(|i| fs::read(rotated(i)).ok().map(|bs| (i, bs))).collect();
    if rot_after != rot_before || segments_after != segments {
        // the calls after the checkpoint rotated the log again: back in the known class, not this stream
        cx.dist.hit("rot.rotated_again_after_checkpoint");
        cleanup(true);
        return;
    }
    let _ = fb;
    cx.dist.hit("rot.rotation_then_checkpoint_then_writes");
    let term = format!(
        "({}, {}, {}, {}, {}, {}, {}, {})",
        tab,
        K,
        maxsz,
        list(o1.model_ops.iter().map(|o| o.coq())),
        list(o1.results.iter().map(|r| b(*r))),
        obs_coq(&live),
        wlen,
        g2.term
    );
    let human = format!(
        "{label}: max_size_bytes={maxsz} ops_before_checkpoint={:?} (log rotated, {wlen} bytes in the live file) live_at_checkpoint={} | after checkpoint: {}{}",
        ops1, obs_human(&live), g2.human,
        g2.oracle_fail.as_ref().map(|f| format!(" ORACLE-FALSE: after the completed checkpoint: {f}")).unwrap_or_default()
    );
    wrot.push(&term, &human, true);
    cleanup(true);
}

fn pick_end() -> Box<dyn FnMut(u64, u64, &[u64]) -> u64> {
    Box::new(|_b, len, _e| len)
}
fn pick_fixed_back(back: u64) -> Box<dyn FnMut(u64, u64, &[u64]) -> u64> {
    Box::new(move |b, len, _e| len.saturating_sub(back).max(b))
}
fn pick_random(mut r: Rng) -> Box<dyn FnMut(u64, u64, &[u64]) -> u64> {
    Box::new(move |b, len, ends| {
        if len == b {
            return len;
        }
        match r.below(4) {
            0 => len,                                                   // clean shutdown
            1 => r.range(b, len),                                       // anywhere
            2 => {
                // inside the header of some record / just after a call boundary
                let e = if ends.is_empty() { b } else { *r.pick(ends) };
                (e + r.below(9)).min(len).max(b)
            }
            _ => len - 1 - r.below((len - b).min(6)),                   // torn last record
        }
    })
}

fn main() {
    let args = Args::parse();
    quiet_panics();
    let mut rng = Rng::new(args.seed);
    let mut cx = Ctx { args: &args, vals: Values::new(), dist: Dist::default(), w: CaseWriter::new(&args.out, "gens"), hits: Hits::default(), counter: 0 };
    let v = |base: u64, emb: Option<u64>| Val { base, emb };

    // ---------------- corpus (always first) ----------------
    // F-WAL-torn (DESIGN 5): put a, put b; drop the last 3 bytes; recover; put c (acknowledged); recover
    run_case(
        &mut cx,
        "corpus F-WAL-torn",
        vec![vec![Op::Put(1, v(1, None)), Op::Put(6, v(2, None))], vec![Op::Put(2, v(3, None))], vec![Op::Put(3, v(4, None))]],
        vec![pick_fixed_back(3), pick_fixed_back(5), pick_end()],
    );
    // F-C02-ghost: put_durable("user:1",{_embedding:[1,2]}); delete_durable("user:1"); live scan vs recovered
    run_case(&mut cx, "corpus F-C02-ghost", vec![vec![Op::Put(1, v(0, Some(1))), Op::Del(1)], vec![Op::Put(1, v(1, Some(2)))]], vec![pick_end(), pick_end()]);
    // entity ids re-derived by recovery differ from the logged ones (384-dim vectors)
    run_case(
        &mut cx,
        "corpus emb-ids",
        vec![vec![Op::Put(0, v(1, None)), Op::Put(5, v(2, Some(100))), Op::Put(10 % K, v(3, Some(101))), Op::Put(5, v(2, Some(102)))]],
        vec![pick_end()],
    );
    // torn multi-record put over an existing embedding key
    run_case(&mut cx, "corpus torn-op", vec![vec![Op::Put(0, v(1, Some(100))), Op::Put(0, v(2, Some(101)))], vec![Op::Put(5, v(3, None))]], vec![pick_fixed_back(20), pick_end()]);
    // deletes of embedding-class keys whose 384-dim vector lives in the slab (three records each:
    // EmbeddingDelete, EntityRemove, MetadataDelete), crashed at every byte; the next generation
    // continues from a cut behind the first / second record of such a delete
    run_case(
        &mut cx,
        "corpus torn-delete-of-indexed-embedding",
        vec![
            vec![Op::Put(0, v(1, Some(100))), Op::Put(5, v(2, Some(101))), Op::Del(0), Op::Put(10, v(3, Some(1))), Op::Del(5), Op::Del(10)],
            vec![Op::Put(0, v(4, Some(102))), Op::Del(0), Op::Put(0, v(5, None))],
            vec![Op::Del(0), Op::Put(5, v(6, Some(100)))],
        ],
        vec![Box::new(|_b, len, ends: &[u64]| (ends[1] + 20).min(len)), Box::new(|_b, len, ends: &[u64]| (ends[0] + 40).min(len)), pick_end()],
    );
    // a vector left behind by an overwrite without embedding, then a delete torn after its first record
    run_case(&mut cx, "corpus stale-vector-torn-delete", vec![vec![Op::Put(0, v(1, Some(100))), Op::Put(0, v(2, None)), Op::Del(0)], vec![Op::Put(0, v(3, None))]], vec![pick_fixed_back(30), pick_end()]);
    // delete then re-create
    run_case(
        &mut cx,
        "corpus delete-recreate",
        vec![vec![Op::Put(0, v(1, Some(1))), Op::Del(0), Op::Put(0, v(2, None)), Op::Del(7), Op::Put(3, v(6, None)), Op::Del(3)]],
        vec![pick_end()],
    );

    // keys that only LOOK like a class (bare class names, prefix without colon, empty key): plain
    // metadata keys, durable like any other
    run_case(
        &mut cx,
        "corpus look-alike keys",
        vec![
            vec![Op::Put(11, v(1, None)), Op::Put(12, v(2, Some(1))), Op::Put(23, v(3, None)), Op::Put(21, v(4, None)), Op::Put(13, v(5, None)), Op::Del(12), Op::Put(17, v(6, None))],
            vec![Op::Del(11), Op::Put(22, v(7, None)), Op::Put(16, v(8, None)), Op::Put(18, v(9, None)), Op::Del(23)],
        ],
        vec![pick_end(), pick_end()],
    );
    // small and large (> 8 KiB, above the writer's buffer) records mixed under manual / batched sync
    for (lbl, c) in [
        ("manual", WalConfig { sync_mode: tensor_store::SyncMode::Manual, ..WalConfig::default() }),
        ("batched-3", WalConfig { sync_mode: tensor_store::SyncMode::Batched { max_entries: 3 }, ..WalConfig::default() }),
    ] {
        run_case_cfg(
            &mut cx,
            &format!("corpus small-then-large-record ({lbl})"),
            vec![vec![Op::Put(1, v(1, None)), Op::Put(1, v(13, None)), Op::Sync, Op::Put(6, v(2, None)), Op::Put(2, v(14, None)), Op::Put(6, v(1, None))]],
            vec![pick_end()],
            c,
        );
    }

    // ---------------- seeded cases ----------------
    let ncases = args.budget(24, 500);
    for ci in 0..ncases {
        let big = ci % 6 == 5; // some cases exercise the 384-dim embedding slab
        let ngen = if big { rng.range(1, 2) } else { rng.range(1, 3) } as usize;
        let nkeys = rng.range(2, 6) as usize;
        let mut keys: Vec<u64> = (0..K).collect();
        rng.shuffle(&mut keys);
        keys.truncate(nkeys);
        if !keys.iter().any(|k| k % 5 == 0) && rng.chance(1, 2) {
            keys.push(*rng.pick(&[0u64, 5]));
        }
        let mut gens: Vec<Vec<Op>> = vec![];
        let mut picks: Vec<Box<dyn FnMut(u64, u64, &[u64]) -> u64>> = vec![];
        for _ in 0..ngen {
            let nops = if big { rng.range(2, 4) } else { rng.range(1, 7) } as usize;
            if big {
                // life cycles of embedding-class keys with slab-dimension vectors: put, overwrite
                // (with / without vector), delete -- the delete is three records
                let ek: Vec<u64> = keys.iter().copied().filter(|k| k % 5 == 0).collect();
                let ek = if ek.is_empty() { vec![*rng.pick(&[0u64, 5, 10])] } else { ek };
                let mut ops = vec![];
                for _ in 0..nops {
                    let k = if rng.chance(3, 4) { *rng.pick(&ek) } else { *rng.pick(&keys) };
                    ops.push(if rng.chance(3, 5) { Op::Put(k, gen_val(&mut rng, true)) } else { Op::Del(k) });
                }
                gens.push(ops);
            } else {
                gens.push(gen_ops(&mut rng, nops, big, &keys));
            }
            picks.push(pick_random(rng.fork()));
        }
        cx.dist.hit(if big { "case.with_384dim_vectors" } else { "case.small_values" });
        // sync modes: the default Immediate mostly; Manual and Batched with explicit syncs sprinkled in
        // (small values only: the writer's 8 KiB buffer must not spill by itself)
        let mode = if big { 0 } else { rng.below(10) };
        let cfg = match mode {
            7 | 8 => WalConfig { sync_mode: tensor_store::SyncMode::Manual, ..WalConfig::default() },
            9 => WalConfig { sync_mode: tensor_store::SyncMode::Batched { max_entries: rng.range(2, 3) as usize }, ..WalConfig::default() },
            _ => WalConfig::default(),
        };
        cx.dist.hit(&format!("case.sync_mode.{}", match mode { 7 | 8 => "manual", 9 => "batched", _ => "immediate" }));
        if mode >= 7 && rng.chance(1, 2) {
            // one or two large values among the small ones
            let mut budget = rng.range(1, 2);
            for g in gens.iter_mut() {
                for o in g.iter_mut() {
                    if budget > 0 && rng.chance(1, 3) {
                        if let Op::Put(_, val) = o {
                            *val = Val { base: rng.range(13, 14), emb: None };
                            budget -= 1;
                        }
                    }
                }
            }
            cx.dist.hit("case.sync_mode.with_large_records");
        }
        if mode >= 7 {
            for g in gens.iter_mut() {
                let mut i = 0;
                while i <= g.len() {
                    if rng.chance(1, 3) {
                        g.insert(i, Op::Sync);
                        i += 1;
                    }
                    i += 1;
                }
            }
        }
        if rng.chance(1, 6) {
            let gi = rng.below(gens.len() as u64) as usize;
            let i = rng.below(gens[gi].len() as u64 + 1) as usize;
            gens[gi].insert(i, Op::CkptFail(rng.below(2)));
        }
        run_case_cfg(&mut cx, &format!("seed{} #{}", args.seed, ci), gens, picks, cfg);
    }
    // ---------------- crashes inside checkpoint() ----------------
    let mut wck = CaseWriter::new(&args.out, "ckpt");
    let manual = WalConfig { sync_mode: tensor_store::SyncMode::Manual, ..WalConfig::default() };
    let batched = |n: usize| WalConfig { sync_mode: tensor_store::SyncMode::Batched { max_entries: n }, ..WalConfig::default() };
    run_ckpt_case(
        &mut cx,
        &mut wck,
        "corpus checkpoint",
        None,
        vec![Op::Put(1, v(1, None)), Op::Put(0, v(2, Some(1))), Op::Del(1), Op::Put(6, v(3, None)), Op::Del(0), Op::Put(0, v(4, Some(2)))],
        vec![Op::Put(2, v(5, None)), Op::Del(6), Op::Put(0, v(6, None))],
        WalConfig::default(),
    );
    // look-alike keys around a checkpoint: put "_cache", checkpoint, delete it, crash
    run_ckpt_case(
        &mut cx,
        &mut wck,
        "corpus checkpoint look-alike keys",
        None,
        vec![Op::Put(11, v(1, None)), Op::Put(12, v(2, None)), Op::Put(23, v(3, None))],
        vec![Op::Del(11), Op::Put(21, v(4, None)), Op::Del(23)],
        WalConfig::default(),
    );
    // a second checkpoint (an older snapshot is in place while the new one is being taken)
    run_ckpt_case(
        &mut cx,
        &mut wck,
        "corpus second-checkpoint",
        Some(vec![Op::Put(1, v(1, None)), Op::Put(6, v(2, None)), Op::Put(2, v(3, None))]),
        vec![Op::Put(1, v(2, None)), Op::Del(6), Op::Put(7, v(4, None))],
        vec![Op::Put(6, v(5, None)), Op::CkptFail(1), Op::Put(2, v(1, None))],
        WalConfig::default(),
    );
    // in-place, fixed-size updates under Manual / Batched sync, records still unsynced when
    // checkpoint() is called, then acknowledged (synced) overwrites, crash
    for (lbl, c) in [("manual", manual.clone()), ("batched", batched(1000)), ("batched-3", batched(3))] {
        run_ckpt_case(
            &mut cx,
            &mut wck,
            &format!("corpus checkpoint-with-unsynced-records ({lbl})"),
            None,
            vec![Op::Put(1, v(1, None)), Op::Put(6, v(1, None)), Op::Put(1, v(2, None)), Op::Put(6, v(2, None)), Op::Put(1, v(1, None))],
            vec![Op::Put(6, v(1, None)), Op::Sync, Op::Put(1, v(2, None)), Op::Del(6), Op::Sync],
            c.clone(),
        );
        // the same with records of one size only (every new record ends on an old record boundary)
        run_ckpt_case(
            &mut cx,
            &mut wck,
            &format!("corpus checkpoint-with-unsynced-records, fixed-size records ({lbl})"),
            None,
            vec![Op::Put(1, v(1, None)), Op::Put(6, v(1, None)), Op::Put(1, v(2, None)), Op::Put(6, v(2, None)), Op::Put(1, v(1, None))],
            vec![Op::Put(1, v(2, None)), Op::Sync, Op::Put(6, v(1, None)), Op::Sync],
            c,
        );
    }
    // a SECOND checkpoint under manual / batched sync (the log handle was re-created by the first
    // one), then exactly as many fixed-size records as the log held before
    for (lbl, c) in [("manual", manual.clone()), ("batched-3", batched(3))] {
        run_ckpt_case(
            &mut cx,
            &mut wck,
            &format!("corpus second-checkpoint, fixed-size records ({lbl})"),
            Some(vec![Op::Put(3, v(2, Some(1))), Op::Put(4, v(9, None))]),
            vec![Op::Put(1, v(1, None)), Op::Put(6, v(1, None)), Op::Put(6, v(2, None)), Op::Put(6, v(1, None)), Op::Put(1, v(1, None))],
            vec![Op::Put(1, v(2, None)), Op::Put(6, v(2, None)), Op::Put(1, v(1, None)), Op::Put(1, v(2, None)), Op::Put(6, v(2, None)), Op::Sync],
            c,
        );
    }
    // part of the log synced, the rest still buffered when checkpoint() is called: a crash right
    // after the snapshot rename must not replay the stale log prefix over the newer snapshot
    run_ckpt_case(
        &mut cx,
        &mut wck,
        "corpus checkpoint-partially-synced (manual)",
        None,
        vec![Op::Put(1, v(1, None)), Op::Put(6, v(1, None)), Op::Sync, Op::Put(1, v(2, None)), Op::Del(6), Op::Put(2, v(3, None))],
        vec![Op::Put(6, v(2, None)), Op::Sync],
        manual.clone(),
    );
    // an interrupted checkpoint leaves <snapshot>.tmp behind; the recovered store shrinks (deletes of
    // the large values) and completes a checkpoint to the same path: the new snapshot is shorter than
    // the leftover temp file; crash at every point of that checkpoint and after it
    run_ckpt_case_x(
        &mut cx,
        &mut wck,
        "corpus checkpoint-after-interrupted-checkpoint",
        None,
        Some(vec![Op::Put(1, v(1, None)), Op::Put(6, v(13, None)), Op::Put(2, v(14, None)), Op::Put(0, v(2, Some(100))), Op::Put(7, v(12, None))]),
        vec![Op::Del(6), Op::Del(2), Op::Del(0), Op::Put(7, v(1, None))],
        vec![Op::Put(3, v(2, None)), Op::Del(1)],
        WalConfig::default(),
    );
    // a checkpoint that fails while writing the snapshot, more writes, crash
    run_case(
        &mut cx,
        "corpus failed-checkpoint-then-crash",
        vec![vec![Op::Put(1, v(1, None)), Op::Put(6, v(2, None)), Op::CkptFail(0), Op::Put(2, v(3, None)), Op::CkptFail(1), Op::Del(1)], vec![Op::Put(1, v(4, None))]],
        vec![pick_end(), pick_end()],
    );
    let nck = args.budget(7, 120);
    for ci in 0..nck {
        let big = ci % 10 == 9;
        let mut keys: Vec<u64> = (0..K).collect();
        rng.shuffle(&mut keys);
        keys.truncate(rng.range(2, 5) as usize);
        let n0 = rng.range(1, 4) as usize;
        let n1 = if big { rng.range(1, 3) } else { rng.range(1, 8) } as usize;
        let n2 = if big { rng.range(0, 2) } else { rng.range(0, 5) } as usize;
        let pre = if rng.chance(1, 3) { Some(gen_ops(&mut rng, n0, false, &keys)) } else { None };
        let mut ops1 = gen_ops(&mut rng, n1, big, &keys);
        let mut ops2 = gen_ops(&mut rng, n2, big, &keys);
        // sync modes (small values only); unsynced records at the checkpoint are the interesting case
        let mode = if big { 0 } else { rng.below(10) };
        let cfg = match mode {
            6 | 7 => manual.clone(),
            8 | 9 => batched(*rng.pick(&[2usize, 3, 1000])),
            _ => WalConfig::default(),
        };
        if mode >= 6 && rng.chance(1, 2) {
            // in-place update workload: two keys of one length, values of one size
            let fixed = |r: &mut Rng, nn: usize| -> Vec<Op> { (0..nn).map(|_| Op::Put(*r.pick(&[1u64, 6]), Val { base: r.range(1, 2), emb: None })).collect() };
            ops1 = fixed(&mut rng, n1.max(2));
            ops2 = fixed(&mut rng, n2.max(1));
            cx.dist.hit("case.checkpoint.fixed_size_records");
        }
        if mode >= 6 {
            if rng.chance(1, 3) {
                let i = rng.below(ops1.len() as u64 + 1) as usize;
                ops1.insert(i, Op::Sync);
            }
            let mut i = 0;
            while i <= ops2.len() {
                if rng.chance(1, 2) {
                    ops2.insert(i, Op::Sync);
                    i += 1;
                }
                i += 1;
            }
            ops2.push(Op::Sync);
        }
        if rng.chance(1, 5) {
            let i = rng.below(ops2.len() as u64 + 1) as usize;
            ops2.insert(i, Op::CkptFail(rng.below(2)));
        }
        cx.dist.hit(&format!("case.checkpoint.{}", match mode { 6 | 7 => "manual", 8 | 9 => "batched", _ => "immediate" }));
        // every third case: an interrupted checkpoint first (its temp file stays), then mostly deletes
        let stale = if ci % 3 == 2 {
            let durable: Vec<u64> = keys.iter().copied().filter(|k| k % 5 != 4).collect();
            if durable.is_empty() {
                None
            } else {
                let ns = rng.range(2, 5) as usize;
                let s0: Vec<Op> = (0..ns).map(|_| Op::Put(*rng.pick(&durable), Val { base: rng.below(NBASE_ALL), emb: None })).collect();
                for o in ops1.iter_mut() {
                    if let Op::Put(k, _) = o {
                        if rng.chance(2, 3) {
                            *o = Op::Del(*k);
                        }
                    }
                }
                for k in &durable {
                    if rng.chance(1, 2) {
                        ops1.push(Op::Del(*k));
                    }
                }
                Some(s0)
            }
        } else {
            None
        };
        // (no earlier checkpoint in these cases: a recovered store numbers its checkpoints from 0
        // again, so its marker record differs from the one of a store that never crashed)
        let pre = if stale.is_some() { None } else { pre };
        run_ckpt_case_x(&mut cx, &mut wck, &format!("seed{} ckpt#{}", args.seed, ci), pre, stale, ops1, ops2, cfg);
    }

    // ---------------- rotation, then a completed checkpoint, then writes ----------------
    let mut wrot = CaseWriter::new(&args.out, "rot");
    run_rot_case(
        &mut cx,
        &mut wrot,
        "corpus rotate-checkpoint-write",
        vec![Op::Put(1, v(1, None)), Op::Put(6, v(2, None)), Op::Put(2, v(3, None)), Op::Put(7, v(4, None)), Op::Put(3, v(5, None)), Op::Put(8, v(1, None)), Op::Del(2)],
        vec![Op::Put(1, v(2, None)), Op::Del(6), Op::Put(2, v(6, None))],
        110,
    );
    run_rot_case(
        &mut cx,
        &mut wrot,
        "corpus rotate-delete-overwrite-checkpoint-write",
        vec![Op::Put(1, v(1, None)), Op::Put(6, v(2, None)), Op::Put(2, v(3, None)), Op::Put(7, v(4, None)), Op::Put(3, v(5, None)), Op::Del(1), Op::Put(6, v(5, None)), Op::Del(7)],
        vec![Op::Put(8, v(1, None)), Op::Put(2, v(6, None))],
        100,
    );
    let nrot = args.budget(6, 80);
    for ci in 0..nrot {
        let mut keys: Vec<u64> = (0..K).filter(|k| k % 5 != 4).collect();
        rng.shuffle(&mut keys);
        keys.truncate(rng.range(3, 6) as usize);
        let n1 = rng.range(5, 12) as usize;
        let n2 = rng.range(1, 3) as usize;
        let maxsz = rng.range(90, 150);
        let small = |r: &mut Rng, nn: usize, ks: &[u64]| -> Vec<Op> {
            (0..nn).map(|_| if r.chance(4, 5) { Op::Put(*r.pick(ks), Val { base: r.below(NBASE), emb: None }) } else { Op::Del(*r.pick(ks)) }).collect()
        };
        let ops1 = small(&mut rng, n1, &keys);
        let ops2 = small(&mut rng, n2, &keys);
        cx.dist.hit("case.rotation");
        run_rot_case(&mut cx, &mut wrot, &format!("seed{} rot#{}", args.seed, ci), ops1, ops2, maxsz);
    }

    // ---------------- implementation-only stream: log rotation (known finding class) ----------------
    // Rotation renames the live log to .1 and starts an empty one; recovery reads only the live
    // file.  With a small size limit (public WalConfig) acknowledged writes are gone after restart.
    {
        let dir = args.out.join("scratch");
        fs::create_dir_all(&dir).unwrap();
        let wal = dir.join("rotate.wal");
        for i in 0..4 {
            let _ = fs::remove_file(dir.join(format!("rotate.wal.{i}")));
        }
        let _ = fs::remove_file(&wal);
        let cfg = WalConfig { max_size_bytes: 100, ..WalConfig::default() };
        let store = TensorStore::open_durable(&wal, cfg.clone()).expect("open");
        let keys: Vec<u64> = vec![1, 2, 3, 6, 7, 8];
        let mut acked = vec![];
        for k in &keys {
            if store.put_durable(kname(*k), cx.vals.data(v(1, None))).is_ok() {
                acked.push(*k);
            }
        }
        drop(store);
        if let Ok(rec) = TensorStore::recover(&wal, &cfg, None) {
            let lost: Vec<String> = acked.iter().filter(|k| rec.get(&kname(**k)).is_err()).map(|k| kname(*k)).collect();
            cx.dist.hit("rotation.probe");
            if std::env::var("NVH_TIMING").is_ok() {
                eprintln!("rotation probe: acked {:?} lost {:?} files {:?}", acked, lost, fs::read_dir(&dir).unwrap().map(|e| (e.as_ref().unwrap().file_name(), e.unwrap().metadata().unwrap().len())).collect::<Vec<_>>());
            }
            if !lost.is_empty() {
                cx.hits.push(
                    "wal-rotation",
                    &format!("WalConfig{{max_size_bytes:100}}: {} acknowledged put_durable calls; after recover the keys {:?} are gone (the log was rotated to .1 and recovery reads only the live file)", acked.len(), lost),
                    json!({"config": "WalConfig{max_size_bytes:100, ..default}", "puts": acked.iter().map(|k| kname(*k)).collect::<Vec<_>>(), "lost_after_recover": lost}),
                );
            }
        }
    }
    // ---------------- implementation-only stream: one very large record ----------------
    // one ~17 MiB value (incompressible bytes), a small write after it, restart: both must be back
    {
        let dir = args.out.join("scratch");
        fs::create_dir_all(&dir).unwrap();
        let wal = dir.join("large.wal");
        let _ = fs::remove_file(&wal);
        let cfg = WalConfig::default();
        let mut r2 = rng.fork();
        let mut bigv = TensorData::new();
        bigv.set("raw", TensorValue::Scalar(ScalarValue::Bytes((0..17 * 1024 * 1024 / 8).flat_map(|_| r2.next().to_le_bytes()).collect())));
        if let Ok(store) = TensorStore::open_durable(&wal, cfg.clone()) {
            let p1 = store.put_durable("user:big", bigv.clone()).is_ok();
            let p2 = store.put_durable(kname(1), cx.vals.data(v(1, None))).is_ok();
            drop(store);
            cx.dist.hit("large_record.probe");
            let rec = TensorStore::recover(&wal, &cfg, None);
            let ok = match &rec {
                Ok(st) => st.get("user:big").ok().as_ref() == Some(&bigv) && st.get(&kname(1)).ok().map(|d| canon(&d)) == Some(v(1, None)),
                Err(_) => false,
            };
            if p1 && p2 && !ok {
                cx.hits.push(
                    "large-record",
                    &format!("put_durable(user:big, 17 MiB of bytes) -> Ok; put_durable(user:1) -> Ok; recover: {}", match &rec { Ok(st) => format!("user:big present: {}, user:1 present: {}", st.get("user:big").is_ok(), st.get(&kname(1)).is_ok()), Err(e) => format!("FAILED: {e}") }),
                    json!({"steps": "put_durable(user:big, Bytes(17 MiB)); put_durable(user:1, {f:1}); recover"}),
                );
            }
        }
        let _ = fs::remove_file(&wal);
    }
    let _ = fs::remove_dir_all(args.out.join("scratch"));

    write_meta(
        &args.out,
        json!({
            "property": "C02", "seed": args.seed, "tier": args.tier,
            "kinds": [cx.w.summary(), wck.summary(), wrot.summary()],
            "distribution": cx.dist.json(),
            "hits": cx.hits.0,
            "nontrivial_rule": "a case with at least 2 durable calls; every case recovers at EVERY byte offset of what each generation appended (quick tier: stride 13 inside the payload of records > 200 bytes, every byte within 24 bytes of each record edge)",
        }),
    );
}
