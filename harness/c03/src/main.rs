//! C03 correspondence harness: one REAL `DistributedTxCoordinator` and 1-3 REAL `TxParticipant`s
//! (tensor_chain/src/distributed_tx.rs) driven through a message bag with loss, duplication, reordering,
//! late votes and coordinator timeouts.  Case kind `sched` -> NV.C03.Run.check_2pc.
//! Time: guarded clock hook `distributed_tx::verif_clock`.
use nvh_common::*;
use std::time::Duration;
use tensor_chain::block::Transaction;
use tensor_chain::consensus::{ConsensusConfig, ConsensusManager, DeltaVector};
use tensor_chain::distributed_tx::{
    lock_handle_current, verif_clock, DistributedTxConfig, DistributedTxCoordinator, PrepareRequest, PrepareVote, TxParticipant, TxPhase,
};
use tensor_store::{ScalarValue, SparseVector, TensorData, TensorStore, TensorValue};

const T0: u64 = 1000;

fn key(k: u64) -> String {
    format!("k{k}")
}
fn ln(xs: &[u64]) -> String {
    list(xs.iter().map(|x| n(*x)))
}
fn on(x: Option<u64>) -> String {
    opt(x.map(n))
}

#[derive(Clone, Debug)]
enum POp {
    Put(u64, u64),
    Del(u64),
    Cas(u64, u64, u64), // key, expected, new
}
impl POp {
    fn coq(&self) -> String {
        match self {
            POp::Put(k, v) => format!("Put {k} {v}"),
            POp::Del(k) => format!("Del {k}"),
            POp::Cas(k, e, v) => format!("Cas {k} {e} {v}"),
        }
    }
    fn key(&self) -> u64 {
        match self {
            POp::Put(k, _) | POp::Del(k) | POp::Cas(k, _, _) => *k,
        }
    }
    fn real(&self) -> Transaction {
        match self {
            POp::Put(k, v) => Transaction::Put { key: key(*k), data: vec![*v as u8] },
            POp::Del(k) => Transaction::Delete { key: key(*k) },
            POp::Cas(k, e, v) => Transaction::CompareAndSwap { key: key(*k), expected_data: vec![*e as u8], new_data: vec![*v as u8] },
        }
    }
}

#[derive(Clone, Debug)]
enum Ev {
    Begin(Vec<u64>, Vec<(u64, Vec<POp>)>, bool),
    Deliver(u64, bool),
    Drop(u64),
    Commit(u64),
    Abort(u64),
    Timeouts,
    TakeAborts,
    Advance(u64),
    Stray(u64, u64, bool),
    Recover,
    CompleteCommit(u64),
    CompleteAbort(u64),
    Sweep(u64, bool, u64),
}
impl Ev {
    fn coq(&self) -> String {
        match self {
            Ev::Begin(ps, ops, x) => format!(
                "EBegin {} {} {}",
                ln(ps),
                list(ops.iter().map(|(s, o)| format!("({s}, {})", list(o.iter().map(|x| x.coq()))))),
                b(*x)
            ),
            Ev::Deliver(i, k) => format!("EDeliver {i} {}", b(*k)),
            Ev::Drop(i) => format!("EDrop {i}"),
            Ev::Commit(t) => format!("ECommit {t}"),
            Ev::Abort(t) => format!("EAbort {t}"),
            Ev::Timeouts => "ETimeouts".into(),
            Ev::TakeAborts => "ETakeAborts".into(),
            Ev::Advance(d) => format!("EAdvance {d}"),
            Ev::Stray(t, s, y) => format!("EStray {t} {s} {}", b(*y)),
            Ev::Recover => "ERecover".into(),
            Ev::CompleteCommit(t) => format!("ECompleteCommit {t}"),
            Ev::CompleteAbort(t) => format!("ECompleteAbort {t}"),
            Ev::Sweep(s, strict, tmo) => format!("ESweep {s} {} {tmo}", b(*strict)),
        }
    }
}

#[derive(Clone)]
enum Msg {
    Prepare(u64, u64, Vec<POp>, bool),
    Vote(u64, u64, PrepareVote),
    Commit(u64, u64),
    Abort(u64, u64),
}
impl Msg {
    fn kind(&self) -> (&'static str, u64, u64) {
        match self {
            Msg::Prepare(t, s, ..) => ("prepare", *t, *s),
            Msg::Vote(t, s, _) => ("vote", *t, *s),
            Msg::Commit(t, s) => ("commit", *t, *s),
            Msg::Abort(t, s) => ("abort", *t, *s),
        }
    }
}

struct World {
    c: DistributedTxCoordinator,
    ps: Vec<TxParticipant>,
    net: Vec<Msg>,
    ids: Vec<u64>,               // real id of tx i+1
    parts: Vec<Vec<u64>>,        // participants of tx i+1
    ops: Vec<Vec<(u64, Vec<POp>)>>, // operations per shard of tx i+1
    now: u64,
    h0: u64,
    kk: u64,
    tt: u64,
}

fn tensor(v: u64) -> TensorData {
    let mut t = TensorData::new();
    t.set("data", TensorValue::Scalar(ScalarValue::Bytes(vec![v as u8])));
    t
}

impl World {
    fn new(kk: u64, tt: u64, ctmo: u64, parts0: &[(Vec<(u64, u64)>, u64)]) -> World {
        verif_clock::set(Some(T0));
        let cfg = DistributedTxConfig { prepare_timeout_ms: ctmo, ..DistributedTxConfig::default() };
        let ps = parts0
            .iter()
            .map(|(st, tmo)| {
                let store = TensorStore::new();
                for (k, v) in st {
                    store.put(key(*k), tensor(*v)).unwrap();
                }
                let mut p = TxParticipant::new(store);
                p.locks.default_timeout = Duration::from_millis(*tmo);
                p
            })
            .collect();
        World {
            c: DistributedTxCoordinator::new(ConsensusManager::new(ConsensusConfig::default()), cfg),
            ps,
            net: vec![],
            ids: vec![],
            parts: vec![],
            ops: vec![],
            now: T0,
            h0: lock_handle_current(),
            kk,
            tt,
        }
    }
    fn small(&self, real: u64) -> u64 {
        self.ids.iter().position(|x| *x == real).map(|i| i as u64 + 1).unwrap_or(0)
    }
    fn real(&self, t: u64) -> u64 {
        self.ids.get((t as usize).wrapping_sub(1)).copied().unwrap_or(u64::MAX - t)
    }
    fn phase(&self, t: u64) -> Option<u64> {
        self.c.get(self.real(t)).map(|tx| match tx.phase {
            TxPhase::Preparing => 0,
            TxPhase::Prepared => 1,
            TxPhase::Aborting => 2,
            TxPhase::Committing => 3,
            TxPhase::Committed => 4,
            _ => 5,
        })
    }
    fn value(p: &TxParticipant, k: u64) -> Option<u64> {
        p.store().get(&key(k)).ok().map(|d| match d.get("data") {
            Some(TensorValue::Scalar(ScalarValue::Bytes(bs))) if bs.len() == 1 => bs[0] as u64,
            _ => 999,
        })
    }
    fn dump(&self) -> String {
        let phases: Vec<String> = (1..=self.tt).map(|t| on(self.phase(t))).collect();
        let pds: Vec<String> = self
            .ps
            .iter()
            .map(|p| {
                let st: Vec<String> = (0..self.kk).map(|k| on(Self::value(p, k))).collect();
                let mut prep: Vec<u64> = p.get_awaiting_decision().iter().map(|r| self.small(*r)).collect();
                prep.sort();
                let hold: Vec<String> = (0..self.kk).map(|k| on(p.locks.lock_holder(&key(k)).map(|r| self.small(r)))).collect();
                format!("(PD {} {} {})", list(st), ln(&prep), list(hold))
            })
            .collect();
        format!("{}, {}", list(phases), list(pds))
    }
    fn bcast_abort(&mut self, t: u64, shs: &[u64]) {
        for s in shs {
            self.net.push(Msg::Abort(t, *s));
        }
    }
    /// run one event on the real objects; returns the call's return value
    fn apply(&mut self, e: &Ev, dist: &mut Dist) -> Vec<u64> {
        match e {
            Ev::Begin(parts, ops, onehot) => {
                let shards: Vec<usize> = parts.iter().map(|s| *s as usize).collect();
                let tx = self.c.begin(&"n0".to_string(), &shards).expect("begin");
                self.ids.push(tx.tx_id);
                self.parts.push(parts.clone());
                self.ops.push(ops.clone());
                let t = self.ids.len() as u64;
                for s in parts {
                    let o = ops.iter().find(|(sh, _)| sh == s).map(|(_, o)| o.clone()).unwrap_or_default();
                    self.net.push(Msg::Prepare(t, *s, o, *onehot));
                }
                dist.hit("ev.begin");
                vec![t]
            }
            Ev::Deliver(i, keep) => {
                let m = self.net[*i as usize].clone();
                if !*keep {
                    self.net.remove(*i as usize);
                } else {
                    dist.hit("ev.duplicate");
                }
                match m {
                    Msg::Prepare(t, s, ops, onehot) => {
                        let req = PrepareRequest {
                            tx_id: self.real(t),
                            coordinator: "n0".to_string(),
                            operations: ops.iter().map(|o| o.real()).collect(),
                            delta_embedding: SparseVector::from_dense(if onehot { &[1.0, 0.0] } else { &[0.0, 0.0] }),
                            timeout_ms: 5000,
                        };
                        let v = self.ps[s as usize].prepare(req);
                        let ret = match &v {
                            PrepareVote::Yes { lock_handle, .. } => {
                                dist.hit("deliver.prepare.yes");
                                vec![0, lock_handle - self.h0 + 1]
                            }
                            PrepareVote::Conflict { conflicting_tx, .. } => {
                                dist.hit("deliver.prepare.conflict");
                                vec![1, self.small(*conflicting_tx)]
                            }
                            // PrepareVote::No: the participant refuses a transaction it has already decided (model: VConflict 0)
                            PrepareVote::No { .. } => {
                                dist.hit("deliver.prepare.refused_decided");
                                vec![1, 0]
                            }
                            _ => vec![9],
                        };
                        self.net.push(Msg::Vote(t, s, v));
                        ret
                    }
                    Msg::Vote(t, s, v) => {
                        let r = match self.c.record_vote(self.real(t), s as usize, v) {
                            Ok(None) => 0,
                            Ok(Some(TxPhase::Prepared)) => 1,
                            Ok(Some(_)) => 2,
                            Err(tensor_chain::distributed_tx::VoteRecordError::TxNotFound(_)) => 3,
                            Err(tensor_chain::distributed_tx::VoteRecordError::WrongPhase { .. }) => 4,
                            Err(tensor_chain::distributed_tx::VoteRecordError::DuplicateVote { .. }) => 5,
                        };
                        dist.hit(&format!("deliver.vote.{}", ["recorded", "prepared", "aborting", "late_unknown_tx", "wrong_phase", "duplicate"][r as usize]));
                        vec![r]
                    }
                    Msg::Commit(t, s) => {
                        let r = self.ps[s as usize].commit(self.real(t));
                        dist.hit(if r.success { "deliver.commit.applied" } else { "deliver.commit.unknown" });
                        vec![r.success as u64]
                    }
                    Msg::Abort(t, s) => {
                        let r = self.ps[s as usize].abort(self.real(t));
                        dist.hit("deliver.abort");
                        vec![r.success as u64]
                    }
                }
            }
            Ev::Drop(i) => {
                self.net.remove(*i as usize);
                dist.hit("ev.loss");
                vec![]
            }
            Ev::Commit(t) => {
                let ph = self.phase(*t);
                match self.c.commit(self.real(*t)) {
                    Ok(()) => {
                        dist.hit("ev.commit.ok");
                        for s in self.parts[*t as usize - 1].clone() {
                            self.net.push(Msg::Commit(*t, s));
                        }
                        vec![0]
                    }
                    Err(_) => {
                        dist.hit("ev.commit.refused");
                        vec![if ph.is_none() { 1 } else { 2 }]
                    }
                }
            }
            Ev::Abort(t) => match self.c.abort(self.real(*t), "driver") {
                Ok(()) => {
                    dist.hit("ev.abort.ok");
                    let shs = self.parts[*t as usize - 1].clone();
                    self.bcast_abort(*t, &shs);
                    vec![0]
                }
                Err(_) => {
                    dist.hit("ev.abort.refused");
                    vec![if self.phase(*t) == Some(3) { 2 } else { 1 }]
                }
            },
            Ev::Timeouts => {
                let mut out: Vec<u64> = self.c.cleanup_timeouts().iter().map(|r| self.small(*r)).collect();
                out.sort();
                dist.add("ev.timed_out", out.len() as u64);
                out
            }
            Ev::TakeAborts => {
                let mut q: Vec<(u64, Vec<u64>)> =
                    self.c.take_pending_aborts().into_iter().map(|(r, _why, shs)| (self.small(r), shs.iter().map(|s| *s as u64).collect())).collect();
                q.sort_by_key(|x| x.0); // stable
                let mut flat = vec![];
                for (t, shs) in &q {
                    flat.push(*t);
                    flat.push(shs.len() as u64);
                    flat.extend(shs);
                    self.bcast_abort(*t, shs);
                }
                dist.add("ev.abort_broadcasts", q.len() as u64);
                flat
            }
            Ev::Advance(d) => {
                self.now += d;
                verif_clock::set(Some(self.now));
                vec![]
            }
            Ev::Stray(t, s, yes) => {
                // a vote carrying tx's id from a shard that is not one of its participants (misrouted / stale)
                let v = if *yes {
                    PrepareVote::Yes { lock_handle: self.h0 - 1, delta: DeltaVector::from_sparse(SparseVector::from_dense(&[0.0, 0.0]), Default::default(), self.real(*t)) }
                } else {
                    PrepareVote::Conflict { similarity: 1.0, conflicting_tx: 0 }
                };
                let r = match self.c.record_vote(self.real(*t), *s as usize, v) {
                    Ok(None) => 0,
                    Ok(Some(TxPhase::Prepared)) => 1,
                    Ok(Some(_)) => 2,
                    Err(tensor_chain::distributed_tx::VoteRecordError::TxNotFound(_)) => 3,
                    Err(tensor_chain::distributed_tx::VoteRecordError::WrongPhase { .. }) => 4,
                    Err(tensor_chain::distributed_tx::VoteRecordError::DuplicateVote { .. }) => 5,
                };
                dist.hit("ev.stray_vote");
                vec![r]
            }
            Ev::Recover => {
                let st = self.c.recover();
                let mut ds: Vec<(u64, u64)> =
                    self.c.get_pending_decisions().into_iter().map(|(r, ph)| (self.small(r), if ph == TxPhase::Committing { 3 } else { 2 })).collect();
                ds.sort();
                let mut ret = vec![st.timed_out as u64, st.pending_prepare as u64, st.pending_commit as u64, st.pending_abort as u64];
                for (t, ph) in &ds {
                    ret.push(*t);
                    ret.push(*ph);
                    if *t == 0 {
                        continue;
                    }
                    for s in self.parts[*t as usize - 1].clone() {
                        self.net.push(if *ph == 3 { Msg::Commit(*t, s) } else { Msg::Abort(*t, s) });
                    }
                }
                dist.hit("ev.recover");
                dist.add("ev.recover.decisions", ds.len() as u64);
                ret
            }
            Ev::CompleteCommit(t) => {
                let ph = self.phase(*t);
                match self.c.complete_commit(self.real(*t)) {
                    Ok(()) => {
                        dist.hit("ev.complete_commit.ok");
                        vec![0]
                    }
                    Err(_) => vec![if ph.is_none() { 1 } else { 2 }],
                }
            }
            Ev::CompleteAbort(t) => {
                let ph = self.phase(*t);
                match self.c.complete_abort(self.real(*t)) {
                    Ok(()) => {
                        dist.hit("ev.complete_abort.ok");
                        vec![0]
                    }
                    Err(_) => vec![if ph.is_none() { 1 } else { 2 }],
                }
            }
            Ev::Sweep(s, strict, tmo) => {
                let p = &self.ps[*s as usize];
                let got = if *strict { p.recover(Duration::from_millis(*tmo)) } else { p.cleanup_stale(Duration::from_millis(*tmo)) };
                let mut out: Vec<u64> = got.iter().map(|r| self.small(*r)).collect();
                out.sort();
                dist.hit(if *strict { "ev.sweep.recover" } else { "ev.sweep.cleanup_stale" });
                if !*strict {
                    dist.add("ev.sweep.dropped", out.len() as u64);
                }
                out
            }
        }
    }
    /// the order in which a sweep drops several stale transactions is the HashMap's: it matters only when two prepared
    /// transactions of the shard share a key (possible after a lock expiry); such a shard is not swept
    fn sweep_safe(&self, sh: u64) -> bool {
        let awaiting: Vec<u64> = self.ps[sh as usize].get_awaiting_decision().iter().map(|r| self.small(*r)).collect();
        let keys = |t: u64| -> Vec<u64> {
            self.ops.get((t as usize).wrapping_sub(1)).and_then(|o| o.iter().find(|(s, _)| *s == sh)).map(|(_, o)| o.iter().map(|x| x.key()).collect()).unwrap_or_default()
        };
        for (i, a) in awaiting.iter().enumerate() {
            for b2 in awaiting.iter().skip(i + 1) {
                if keys(*a).iter().any(|k| keys(*b2).contains(k)) {
                    return false;
                }
            }
        }
        true
    }
}

/// scripted steps for corpus cases: messages addressed by (kind, tx, shard) instead of by index
enum Act {
    Ev(Ev),
    Deliver(&'static str, u64, u64, bool),
}

struct Outcome {
    term: String,
    human: String,
    commits: u64,
    aborts: u64,
    dup_or_loss: bool,
}

fn finish(w: World, kk: u64, tt: u64, ctmo: u64, parts0: &[(Vec<(u64, u64)>, u64)], evs: Vec<Ev>, obs: Vec<String>, commits: u64, aborts: u64) -> Outcome {
    verif_clock::set(None);
    drop(w);
    let p0 = list(parts0.iter().map(|(st, tmo)| format!("({}, {tmo})", list(st.iter().map(|(k, v)| format!("({k}, {v})"))))));
    let dup_or_loss = evs.iter().any(|e| matches!(e, Ev::Deliver(_, true) | Ev::Drop(_)));
    Outcome {
        term: format!("({kk}, {tt}, {ctmo}, {p0}, {}, {})", list(evs.iter().map(|e| e.coq())), list(obs)),
        human: format!("K={kk} T={tt} coordinator_timeout={ctmo} participants={parts0:?} events={evs:?}"),
        commits,
        aborts,
        dup_or_loss,
    }
}

fn run_script(acts: Vec<Act>, kk: u64, tt: u64, ctmo: u64, parts0: &[(Vec<(u64, u64)>, u64)], dist: &mut Dist) -> Outcome {
    let mut w = World::new(kk, tt, ctmo, parts0);
    let (mut evs, mut obs) = (vec![], vec![]);
    let (mut commits, mut aborts) = (0, 0);
    for a in acts {
        let e = match a {
            Act::Ev(Ev::Drop(i)) | Act::Ev(Ev::Deliver(i, _)) if i as usize >= w.net.len() => continue,
            Act::Ev(Ev::Sweep(sh, _, _)) if !w.sweep_safe(sh) => continue,
            Act::Ev(e) => e,
            Act::Deliver(kind, t, s, keep) => {
                // on a tree that behaves differently the scripted message may not exist: skip the step, never panic
                match w.net.iter().position(|m| m.kind() == (kind, t, s)) {
                    Some(i) => Ev::Deliver(i as u64, keep),
                    None => continue,
                }
            }
        };
        let ret = w.apply(&e, dist);
        if matches!(e, Ev::Commit(_)) && ret == [0] {
            commits += 1;
        }
        if matches!(e, Ev::Abort(_)) && ret == [0] {
            aborts += 1;
        }
        obs.push(format!("({}, {})", ln(&ret), w.dump()));
        evs.push(e);
    }
    finish(w, kk, tt, ctmo, parts0, evs, obs, commits, aborts)
}

fn gen_ops(r: &mut Rng, kk: u64) -> Vec<POp> {
    let cnt = r.range(1, 2);
    let cnt = if r.chance(1, 4) { cnt + 1 } else { cnt };
    (0..cnt)
        .map(|_| match r.below(10) {
            0..=5 => POp::Put(r.below(kk), r.range(1, 9)),
            6 | 7 => POp::Del(r.below(kk)),
            // a compare-and-swap whose expectation often fails (values are 1..9): the rest of the batch must still run
            _ => POp::Cas(r.below(kk), r.range(1, 9), r.range(1, 9)),
        })
        .collect()
}

fn run_random(r: &mut Rng, dist: &mut Dist) -> Outcome {
    let kk = r.range(1, 3);
    let tt = r.range(1, 3);
    let np = r.range(2, 3);
    let ctmo = *r.pick(&[5000u64, 5000, 100]);
    let parts0: Vec<(Vec<(u64, u64)>, u64)> = (0..np)
        .map(|_| ((0..kk).filter_map(|k| if r.chance(1, 2) { Some((k, r.range(1, 9))) } else { None }).collect(), *r.pick(&[30000u64, 30000, 50, 20])))
        .collect();
    let mut w = World::new(kk, tt, ctmo, &parts0);
    let (mut evs, mut obs) = (vec![], vec![]);
    let (mut commits, mut aborts) = (0, 0);
    let len = r.range(6, 40);
    let orderly = r.chance(2, 3);
    for _ in 0..len {
        let nb = w.ids.len() as u64;
        let k = r.below(100);
        let e = if (nb == 0 || k < 10) && nb < tt {
            let cnt = r.range(1, np);
            let mut parts: Vec<u64> = (0..np).collect();
            r.shuffle(&mut parts);
            parts.truncate(cnt as usize);
            parts.sort();
            let ops: Vec<(u64, Vec<POp>)> = parts.iter().map(|s| (*s, gen_ops(r, kk))).collect();
            // one-hot deltas on every shard + a key shared by two shards => record_vote's cross-shard conflict
            let onehot = r.chance(1, 8);
            let shared = ops.iter().enumerate().any(|(i, (_, a))| ops.iter().skip(i + 1).any(|(_, b2)| a.iter().any(|x| b2.iter().any(|y| x.key() == y.key()))));
            Ev::Begin(parts, ops, onehot && shared)
        } else if k < 56 && !w.net.is_empty() {
            let i = if orderly && r.chance(3, 4) { 0 } else { r.below(w.net.len() as u64) };
            Ev::Deliver(i, r.chance(1, 7))
        } else if k < 58 {
            Ev::Recover
        } else if k < 60 && nb > 0 {
            if r.chance(1, 2) { Ev::CompleteCommit(r.range(1, nb)) } else { Ev::CompleteAbort(r.range(1, nb)) }
        } else if k < 63 {
            let sh = r.below(np);
            if w.sweep_safe(sh) { Ev::Sweep(sh, r.chance(1, 3), *r.pick(&[0u64, 10, 50, 5000])) } else { Ev::Advance(1) }
        } else if k < 66 && !w.net.is_empty() {
            Ev::Drop(r.below(w.net.len() as u64))
        } else if k < 78 && nb > 0 {
            // prefer a transaction that is ready
            let ready: Vec<u64> = (1..=nb).filter(|t| w.phase(*t) == Some(1)).collect();
            Ev::Commit(if !ready.is_empty() && r.chance(4, 5) { *r.pick(&ready) } else { r.range(1, nb) })
        } else if k < 84 && nb > 0 {
            Ev::Abort(r.range(1, nb))
        } else if k < 89 {
            Ev::Timeouts
        } else if k < 94 {
            Ev::TakeAborts
        } else if k < 97 && nb > 0 {
            // stray vote from a shard that is not a participant of the transaction
            let t = r.range(1, nb);
            let outsiders: Vec<u64> = (0..np + 1).filter(|s| !w.parts[t as usize - 1].contains(s)).collect();
            // participants whose vote the coordinator has already recorded: a stale / re-sent vote with
            // (possibly) different content is a duplicate for them
            let voted: Vec<u64> = w
                .c
                .get(w.real(t))
                .map(|tx| w.parts[t as usize - 1].iter().copied().filter(|s| tx.votes.contains_key(&(*s as usize))).collect())
                .unwrap_or_default();
            if !voted.is_empty() && r.chance(1, 2) {
                Ev::Stray(t, *r.pick(&voted), r.chance(3, 4))
            } else {
                Ev::Stray(t, *r.pick(&outsiders), r.chance(3, 4))
            }
        } else {
            Ev::Advance(*r.pick(&[1u64, 10, 21, 51, 101, 5001]))
        };
        // EBegin's xconf flag as printed must be the effective one
        let ret = w.apply(&e, dist);
        if matches!(e, Ev::Commit(_)) && ret == [0] {
            commits += 1;
        }
        if (matches!(e, Ev::Abort(_)) && ret == [0]) || matches!(e, Ev::Timeouts) && !ret.is_empty() {
            aborts += 1;
        }
        obs.push(format!("({}, {})", ln(&ret), w.dump()));
        evs.push(e);
    }
    // quiescence: flush what is still in flight (each message once), so decisions reach the shards
    let mut guard = 0;
    while !w.net.is_empty() && guard < 60 {
        let e = Ev::Deliver(0, false);
        let ret = w.apply(&e, dist);
        obs.push(format!("({}, {})", ln(&ret), w.dump()));
        evs.push(e);
        guard += 1;
    }
    finish(w, kk, tt, ctmo, &parts0, evs, obs, commits, aborts)
}

/// random member of the family "stale duplicates of a finished transaction": T1 runs to its decision while copies
/// of its Prepare / Commit / Abort for one shard stay in flight; a later T2 (often on the same keys) prepares or
/// commits; then the stale copies of T1 arrive, in either order
fn run_stale_dup(r: &mut Rng, dist: &mut Dist) -> Outcome {
    let kk = r.range(1, 2);
    let np = r.range(2, 3);
    let parts0: Vec<(Vec<(u64, u64)>, u64)> = (0..np)
        .map(|_| ((0..kk).filter_map(|k| if r.chance(1, 2) { Some((k, r.range(1, 9))) } else { None }).collect(), *r.pick(&[30000u64, 30000, 30000, 50])))
        .collect();
    let pick_parts = |r: &mut Rng, must: Option<u64>| -> Vec<u64> {
        let mut parts: Vec<u64> = (0..np).collect();
        r.shuffle(&mut parts);
        parts.truncate(r.range(1, np) as usize);
        if let Some(m) = must {
            if !parts.contains(&m) {
                parts.push(m);
            }
        }
        parts.sort();
        parts
    };
    let p1 = pick_parts(r, None);
    let star = *r.pick(&p1);
    let p2 = if r.chance(5, 6) { pick_parts(r, Some(star)) } else { pick_parts(r, None) };
    let keep_prep = r.chance(3, 4);
    let keep_dec = r.chance(3, 4);
    let commit1 = r.chance(3, 4);
    let mut acts = vec![];
    let ops1: Vec<(u64, Vec<POp>)> = p1.iter().map(|s| (*s, gen_ops(r, kk))).collect();
    acts.push(Act::Ev(Ev::Begin(p1.clone(), ops1, false)));
    for s in &p1 {
        acts.push(Act::Deliver("prepare", 1, *s, keep_prep && *s == star));
    }
    for s in &p1 {
        acts.push(Act::Deliver("vote", 1, *s, false));
    }
    let dec: &'static str = if commit1 { "commit" } else { "abort" };
    acts.push(Act::Ev(if commit1 { Ev::Commit(1) } else { Ev::Abort(1) }));
    for s in &p1 {
        acts.push(Act::Deliver(dec, 1, *s, keep_dec && *s == star));
    }
    if r.chance(1, 4) {
        acts.push(Act::Ev(Ev::Advance(*r.pick(&[10u64, 51, 101]))));
    }
    let ops2: Vec<(u64, Vec<POp>)> = p2.iter().map(|s| (*s, gen_ops(r, kk))).collect();
    acts.push(Act::Ev(Ev::Begin(p2.clone(), ops2, false)));
    let stage2 = r.below(4); // 0: T2 only prepared; 1..: T2 decided
    for s in &p2 {
        acts.push(Act::Deliver("prepare", 2, *s, false));
    }
    if stage2 > 0 {
        for s in &p2 {
            acts.push(Act::Deliver("vote", 2, *s, false));
        }
        let commit2 = r.chance(4, 5);
        acts.push(Act::Ev(if commit2 { Ev::Commit(2) } else { Ev::Abort(2) }));
        for s in &p2 {
            acts.push(Act::Deliver(if commit2 { "commit" } else { "abort" }, 2, *s, false));
        }
    }
    // participant housekeeping in the window between T1's end and the arrival of its stale messages
    if r.chance(1, 2) {
        acts.push(Act::Ev(Ev::Sweep(star, r.chance(1, 3), *r.pick(&[0u64, 0, 10, 5000]))));
    }
    // the stale copies of T1 reach shard `star`
    let mut stale: Vec<&'static str> = vec![];
    if keep_prep {
        stale.push("prepare");
    }
    if keep_dec {
        stale.push(dec);
    }
    if r.chance(1, 5) {
        stale.reverse();
    }
    if keep_dec && r.chance(1, 4) {
        // the decision is re-sent once more (the driver retries broadcasts)
        acts.push(Act::Deliver(dec, 1, star, true));
    }
    for k in stale {
        acts.push(Act::Deliver(k, 1, star, false));
    }
    // whatever is still in flight, each once
    for _ in 0..12 {
        acts.push(Act::Ev(Ev::Deliver(0, false)));
    }
    if r.chance(1, 3) {
        acts.push(Act::Ev(Ev::Timeouts));
        acts.push(Act::Ev(Ev::TakeAborts));
        for _ in 0..4 {
            acts.push(Act::Ev(Ev::Deliver(0, false)));
        }
    }
    dist.hit("sched.stale_dup");
    run_script(acts, kk, 2, 100000, &parts0, dist)
}

/// random member of the family "coordinator recovery sweeps": one or two transactions reach some point of the protocol
/// (votes missing, all yes, a conflict), time may pass the coordinator's deadline, recover() runs (and its decisions
/// are broadcast), late votes and the driver's commit / abort / cleanup_timeouts / complete_* calls follow, then a
/// second recover() after more time
fn run_recover_family(r: &mut Rng, dist: &mut Dist) -> Outcome {
    let kk = 2;
    let np = r.range(2, 3);
    let ctmo = 100;
    let parts0: Vec<(Vec<(u64, u64)>, u64)> = (0..np)
        .map(|_| ((0..kk).filter_map(|k| if r.chance(1, 2) { Some((k, r.range(1, 9))) } else { None }).collect(), *r.pick(&[30000u64, 30000, 50])))
        .collect();
    let all: Vec<u64> = (0..np).collect();
    let mut acts = vec![];
    let ntx = r.range(1, 2);
    for t in 1..=ntx {
        let mut parts = all.clone();
        r.shuffle(&mut parts);
        parts.truncate(r.range(2, np) as usize);
        parts.sort();
        let ops: Vec<(u64, Vec<POp>)> = parts.iter().map(|s| (*s, vec![POp::Put((t + *s) % kk, r.range(1, 9))])).collect();
        acts.push(Act::Ev(Ev::Begin(parts.clone(), ops, false)));
        for s in &parts {
            acts.push(Act::Deliver("prepare", t, *s, false));
        }
        // how many votes reach the coordinator before the first recovery
        let upto = match r.below(4) {
            0 => 0,
            1 => parts.len() - 1,
            _ => parts.len(),
        };
        for s in parts.iter().take(upto) {
            acts.push(Act::Deliver("vote", t, *s, false));
        }
    }
    let tail = |r: &mut Rng, acts: &mut Vec<Act>| {
        for _ in 0..r.range(1, 6) {
            let t = r.range(1, ntx);
            acts.push(match r.below(9) {
                0 => Act::Ev(Ev::Commit(t)),
                1 => Act::Ev(Ev::Abort(t)),
                2 => Act::Ev(Ev::Timeouts),
                3 => Act::Ev(Ev::TakeAborts),
                4 => Act::Ev(Ev::CompleteCommit(t)),
                5 => Act::Ev(Ev::CompleteAbort(t)),
                6 => Act::Deliver("vote", t, r.below(np), false),
                7 => Act::Deliver("commit", t, r.below(np), r.chance(1, 3)),
                _ => Act::Deliver("abort", t, r.below(np), false),
            });
        }
    };
    if r.chance(1, 2) {
        acts.push(Act::Ev(Ev::Advance(*r.pick(&[50u64, 101, 101]))));
    }
    acts.push(Act::Ev(Ev::Recover));
    tail(r, &mut acts);
    acts.push(Act::Ev(Ev::Advance(*r.pick(&[10u64, 101, 101, 5001]))));
    if r.chance(3, 4) {
        acts.push(Act::Ev(Ev::Recover));
    }
    tail(r, &mut acts);
    for _ in 0..14 {
        acts.push(Act::Ev(Ev::Deliver(0, false)));
    }
    for t in 1..=ntx {
        acts.push(Act::Ev(if r.chance(1, 2) { Ev::CompleteCommit(t) } else { Ev::CompleteAbort(t) }));
    }
    dist.hit("sched.recover_family");
    run_script(acts, kk, ntx, ctmo, &parts0, dist)
}

/// random member of the family "a Prepare arrives again while the transaction is still undecided": T1 is prepared on
/// a shard, then loses its place there (its key locks time out, or a housekeeping sweep drops it), T2 prepares on the
/// same keys, and the duplicate of Prepare(T1) arrives: it must be refused while T2 holds the keys
fn run_reprepare(r: &mut Rng, dist: &mut Dist) -> Outcome {
    let kk = 2;
    let np = 2;
    let star = r.below(np);
    let parts0: Vec<(Vec<(u64, u64)>, u64)> = (0..np).map(|s| (vec![(0, r.range(1, 9))], if s == star { 50 } else { 30000 })).collect();
    let p1: Vec<u64> = if r.chance(1, 2) { vec![star] } else { vec![0, 1] };
    let p2: Vec<u64> = if r.chance(1, 2) { vec![star] } else { vec![0, 1] };
    let k = r.below(kk);
    let ops = |r: &mut Rng, ps: &[u64]| -> Vec<(u64, Vec<POp>)> {
        ps.iter().map(|s| (*s, if *s == star { vec![POp::Put(k, r.range(1, 9))] } else { gen_ops(r, kk) })).collect()
    };
    let mut acts = vec![];
    let o1 = ops(r, &p1);
    acts.push(Act::Ev(Ev::Begin(p1.clone(), o1, false)));
    let overtaken = r.chance(1, 4);
    if overtaken {
        // the coordinator gives up on T1 and its Abort reaches shard `star` before the Prepare does
        for s in p1.iter().filter(|s| **s != star) {
            acts.push(Act::Deliver("prepare", 1, *s, false));
        }
        acts.push(Act::Ev(if r.chance(2, 3) { Ev::Abort(1) } else { Ev::Advance(100001) }));
        acts.push(Act::Ev(Ev::Timeouts));
        acts.push(Act::Ev(Ev::TakeAborts));
        acts.push(Act::Deliver("abort", 1, star, r.chance(1, 3)));
    }
    for s in &p1 {
        acts.push(Act::Deliver("prepare", 1, *s, *s == star));
    }
    if r.chance(1, 2) {
        for s in &p1 {
            acts.push(Act::Deliver("vote", 1, *s, false));
        }
    }
    match r.below(if overtaken { 4 } else { 3 }) {
        3 => {}
        0 => acts.push(Act::Ev(Ev::Advance(51))),
        1 => acts.push(Act::Ev(Ev::Sweep(star, r.chance(1, 2), 0))),
        _ => {
            acts.push(Act::Ev(Ev::Advance(*r.pick(&[10u64, 51]))));
            acts.push(Act::Ev(Ev::Sweep(star, r.chance(1, 2), *r.pick(&[0u64, 10]))));
        }
    }
    let o2 = ops(r, &p2);
    acts.push(Act::Ev(Ev::Begin(p2.clone(), o2, false)));
    for s in &p2 {
        acts.push(Act::Deliver("prepare", 2, *s, false));
    }
    acts.push(Act::Deliver("prepare", 1, star, false)); // the duplicate
    for _ in 0..r.range(2, 8) {
        let t = r.range(1, 2);
        acts.push(match r.below(6) {
            0 => Act::Ev(Ev::Commit(t)),
            1 => Act::Ev(Ev::Abort(t)),
            2 => Act::Deliver("vote", t, r.below(np), false),
            3 => Act::Deliver("commit", t, r.below(np), false),
            4 => Act::Deliver("abort", t, r.below(np), false),
            _ => Act::Ev(Ev::Deliver(0, false)),
        });
    }
    for _ in 0..10 {
        acts.push(Act::Ev(Ev::Deliver(0, false)));
    }
    dist.hit("sched.reprepare");
    run_script(acts, kk, 2, 100000, &parts0, dist)
}

fn main() {
    let args = Args::parse();
    quiet_panics();
    let mut rng = Rng::new(args.seed);
    let mut dist = Dist::default();
    let mut sched = CaseWriter::new(&args.out, "sched");

    // ---- corpus: DESIGN section 5 F-C03-undo and neighbours
    let put = |k, v| vec![POp::Put(k, v)];
    {
        // participant lock timeout 5 ms; k0 = 5; T1 prepare(Put k0 7) -> Yes; 30 ms; T2 prepare(Put k0 9) -> Yes; T2 commits; late abort(T1)
        let parts0 = vec![(vec![(0u64, 5u64)], 5u64)];
        let acts = vec![
            Act::Ev(Ev::Begin(vec![0], vec![(0, put(0, 7))], false)),
            Act::Deliver("prepare", 1, 0, false),
            Act::Ev(Ev::Advance(30)),
            Act::Ev(Ev::Begin(vec![0], vec![(0, put(0, 9))], false)),
            Act::Deliver("prepare", 2, 0, false),
            Act::Deliver("vote", 2, 0, false),
            Act::Ev(Ev::Commit(2)),
            Act::Deliver("commit", 2, 0, false),
            Act::Ev(Ev::Abort(1)),
            Act::Deliver("abort", 1, 0, false),
        ];
        let o = run_script(acts, 1, 2, 100000, &parts0, &mut dist);
        sched.push(&o.term, "corpus F-C03-undo: lock timeout 5 ms; k0=5; T1 prepare(Put k0 7); 30 ms; T2 prepare+commit(Put k0 9); late abort(T1)", true);
    }
    {
        // same shape through the coordinator timeout: T1 times out, its abort broadcast arrives after T2 committed
        let parts0 = vec![(vec![(0u64, 5u64)], 5u64), (vec![], 30000u64)];
        let acts = vec![
            Act::Ev(Ev::Begin(vec![0, 1], vec![(0, put(0, 7)), (1, put(1, 1))], false)),
            Act::Deliver("prepare", 1, 0, false),
            Act::Ev(Ev::Advance(101)),
            Act::Ev(Ev::Timeouts),
            Act::Ev(Ev::Begin(vec![0], vec![(0, vec![POp::Del(0)])], false)),
            Act::Deliver("prepare", 2, 0, false),
            Act::Deliver("vote", 2, 0, false),
            Act::Ev(Ev::Commit(2)),
            Act::Deliver("commit", 2, 0, false),
            Act::Ev(Ev::TakeAborts),
            Act::Deliver("abort", 1, 0, false),
            Act::Deliver("vote", 1, 0, false),
        ];
        let o = run_script(acts, 2, 2, 100, &parts0, &mut dist);
        sched.push(&o.term, "corpus undo after coordinator timeout: T1 timed out, T2 deleted k0 and committed, T1's abort broadcast restores k0", true);
    }
    {
        // plain protocol order with a duplicated commit, a late duplicate vote and an abort of a fresh key
        let parts0 = vec![(vec![(0u64, 1u64)], 30000u64), (vec![], 30000u64)];
        let acts = vec![
            Act::Ev(Ev::Begin(vec![0, 1], vec![(0, put(0, 2)), (1, put(1, 3))], false)),
            Act::Deliver("prepare", 1, 0, true),
            Act::Deliver("prepare", 1, 1, false),
            Act::Deliver("vote", 1, 0, true),
            Act::Deliver("vote", 1, 1, false),
            Act::Ev(Ev::Commit(1)),
            Act::Deliver("commit", 1, 0, true),
            Act::Deliver("commit", 1, 1, false),
            Act::Deliver("commit", 1, 0, false),
            Act::Deliver("vote", 1, 0, false),
            Act::Ev(Ev::Begin(vec![1], vec![(1, put(0, 4))], false)),
            Act::Deliver("prepare", 2, 1, false),
            Act::Deliver("vote", 2, 1, false),
            Act::Ev(Ev::Abort(2)),
            Act::Deliver("abort", 2, 1, false),
            Act::Ev(Ev::Commit(2)),
        ];
        let o = run_script(acts, 2, 2, 5000, &parts0, &mut dist);
        sched.push(&o.term, "corpus orderly commit with duplicated prepare/vote/commit, then an aborted tx on an absent key", true);
    }

    {
        // a stray Yes from non-participant shard 2 must not stand in for participant 1 whose prepare was lost
        let parts0 = vec![(vec![(0u64, 1u64)], 30000u64), (vec![], 30000u64)];
        let acts = vec![
            Act::Ev(Ev::Begin(vec![0, 1], vec![(0, put(0, 2)), (1, put(1, 3))], false)),
            Act::Deliver("prepare", 1, 0, false),
            Act::Ev(Ev::Drop(0)), // the prepare for shard 1 is lost
            Act::Deliver("vote", 1, 0, false),
            Act::Ev(Ev::Stray(1, 2, true)),
            Act::Ev(Ev::Commit(1)),
            Act::Ev(Ev::Stray(1, 2, true)),
            Act::Ev(Ev::Stray(1, 3, false)),
            Act::Ev(Ev::Commit(1)),
        ];
        let o = run_script(acts, 2, 1, 5000, &parts0, &mut dist);
        sched.push(&o.term, "corpus stray vote: tx over shards {0,1}; prepare to 1 lost; Yes from 0; Yes from non-participant shard 2; commit must be refused", true);
    }
    {
        // a stale expired lock of a never-resolved T0 sits on k0 at shard 0; T1 prepares k0 (fresh lock), T2 must be refused
        let parts0 = vec![(vec![(0u64, 1u64)], 50u64), (vec![], 30000u64)];
        let acts = vec![
            Act::Ev(Ev::Begin(vec![0], vec![(0, put(0, 5))], false)),
            Act::Deliver("prepare", 1, 0, false),
            Act::Ev(Ev::Drop(0)), // T0's vote is lost; T0 is never resolved at shard 0
            Act::Ev(Ev::Advance(51)),
            Act::Ev(Ev::Begin(vec![0, 1], vec![(0, put(0, 7)), (1, put(1, 8))], false)),
            Act::Deliver("prepare", 2, 0, false),
            Act::Deliver("prepare", 2, 1, false),
            Act::Ev(Ev::Begin(vec![0, 1], vec![(0, put(0, 9)), (1, put(1, 9))], false)),
            Act::Deliver("prepare", 3, 0, false),
            Act::Deliver("prepare", 3, 1, false),
            Act::Deliver("vote", 2, 0, false),
            Act::Deliver("vote", 2, 1, false),
            Act::Ev(Ev::Commit(2)),
            Act::Deliver("commit", 2, 0, false),
            Act::Deliver("commit", 2, 1, false),
            Act::Deliver("vote", 3, 0, false),
            Act::Deliver("vote", 3, 1, false),
            Act::Ev(Ev::Abort(3)),
            Act::Deliver("abort", 3, 0, false),
            Act::Deliver("abort", 3, 1, false),
        ];
        let o = run_script(acts, 2, 3, 100000, &parts0, &mut dist);
        sched.push(&o.term, "corpus stale lock: never-resolved T1 leaves an expired lock on k0; T2 prepares k0+k1 and commits; T3 on the same keys must get Conflict, its abort must not touch T2's data", true);
    }
    {
        // the commit reaches shard 0 only after its key locks expired: it must still be applied
        let parts0 = vec![(vec![(0u64, 1u64)], 50u64), (vec![], 30000u64)];
        let acts = vec![
            Act::Ev(Ev::Begin(vec![0, 1], vec![(0, put(0, 7)), (1, put(1, 8))], false)),
            Act::Deliver("prepare", 1, 0, false),
            Act::Deliver("prepare", 1, 1, false),
            Act::Deliver("vote", 1, 0, false),
            Act::Deliver("vote", 1, 1, false),
            Act::Ev(Ev::Commit(1)),
            Act::Deliver("commit", 1, 1, false),
            Act::Ev(Ev::Advance(51)),
            Act::Deliver("commit", 1, 0, false),
        ];
        let o = run_script(acts, 2, 1, 100000, &parts0, &mut dist);
        sched.push(&o.term, "corpus late commit: shard 1 applies in time, shard 0 gets the commit 51 ms later, after its 50 ms key locks expired", true);
    }

    {
        // shard 0 answers Conflict (another tx holds k0); a re-sent vote for shard 0 with DIFFERENT content (Yes) arrives while
        // the tx is still Preparing and must stay rejected as a duplicate; shard 1 votes Yes -> the decision must be abort
        let parts0 = vec![(vec![(0u64, 1u64)], 30000u64), (vec![], 30000u64)];
        let acts = vec![
            Act::Ev(Ev::Begin(vec![0], vec![(0, put(0, 5))], false)),
            Act::Deliver("prepare", 1, 0, false),
            Act::Ev(Ev::Begin(vec![0, 1], vec![(0, put(0, 7)), (1, put(1, 8))], false)),
            Act::Deliver("prepare", 2, 0, false),
            Act::Deliver("vote", 2, 0, false),
            Act::Ev(Ev::Stray(2, 0, true)),
            Act::Deliver("prepare", 2, 1, false),
            Act::Deliver("vote", 2, 1, false),
            Act::Ev(Ev::Commit(2)),
            Act::Ev(Ev::TakeAborts),
            Act::Ev(Ev::Abort(2)),
            Act::Deliver("abort", 2, 0, false),
            Act::Deliver("abort", 2, 1, false),
            Act::Ev(Ev::Stray(2, 1, false)),
        ];
        let o = run_script(acts, 2, 2, 100000, &parts0, &mut dist);
        sched.push(&o.term, "corpus differing duplicate vote: shard 0 votes Conflict; a duplicate Yes for shard 0 is rejected; shard 1 votes Yes; commit must be refused and the abort broadcast must follow", true);
    }
    {
        // the other direction: shard 0 voted Yes, a differing duplicate (Conflict) must not turn the decision into abort... nor back
        let parts0 = vec![(vec![(0u64, 1u64)], 30000u64), (vec![], 30000u64)];
        let acts = vec![
            Act::Ev(Ev::Begin(vec![0, 1], vec![(0, put(0, 7)), (1, put(1, 8))], false)),
            Act::Deliver("prepare", 1, 0, false),
            Act::Deliver("vote", 1, 0, false),
            Act::Ev(Ev::Stray(1, 0, false)),
            Act::Ev(Ev::Stray(1, 0, true)),
            Act::Deliver("prepare", 1, 1, false),
            Act::Deliver("vote", 1, 1, false),
            Act::Ev(Ev::Stray(1, 1, false)),
            Act::Ev(Ev::Commit(1)),
            Act::Deliver("commit", 1, 0, false),
            Act::Deliver("commit", 1, 1, false),
        ];
        let o = run_script(acts, 2, 1, 100000, &parts0, &mut dist);
        sched.push(&o.term, "corpus differing duplicate votes after a Yes: rejected before and after the tx became Prepared; commit applies on both shards", true);
    }

    {
        // delayed duplicates of Prepare(T1) and Commit(T1) arrive after a later T2 committed on the same key:
        // T1 is finished on that shard and must not be applied again
        let parts0 = vec![(vec![(0u64, 5u64)], 30000u64), (vec![], 30000u64)];
        let acts = vec![
            Act::Ev(Ev::Begin(vec![0, 1], vec![(0, put(0, 1)), (1, put(1, 1))], false)),
            Act::Deliver("prepare", 1, 0, true),
            Act::Deliver("prepare", 1, 1, false),
            Act::Deliver("vote", 1, 0, false),
            Act::Deliver("vote", 1, 1, false),
            Act::Ev(Ev::Commit(1)),
            Act::Deliver("commit", 1, 0, true),
            Act::Deliver("commit", 1, 1, false),
            Act::Ev(Ev::Begin(vec![0, 1], vec![(0, put(0, 2)), (1, put(1, 2))], false)),
            Act::Deliver("prepare", 2, 0, false),
            Act::Deliver("prepare", 2, 1, false),
            Act::Deliver("vote", 2, 0, false),
            Act::Deliver("vote", 2, 1, false),
            Act::Ev(Ev::Commit(2)),
            Act::Deliver("commit", 2, 0, false),
            Act::Deliver("commit", 2, 1, false),
            Act::Deliver("prepare", 1, 0, false),
            Act::Deliver("commit", 1, 0, false),
            Act::Deliver("vote", 1, 0, false),
        ];
        let o = run_script(acts, 2, 2, 100000, &parts0, &mut dist);
        sched.push(&o.term, "corpus duplicate Prepare+Commit of T1 after T2 committed the same key: shard 0 must keep T2's value (k0=2), as shard 1 does", true);
    }

    {
        // participant housekeeping between T1's end and its delayed duplicates: the sweep must not make the shard
        // forget that T1 is finished
        let parts0 = vec![(vec![(0u64, 5u64)], 30000u64), (vec![], 30000u64)];
        let acts = vec![
            Act::Ev(Ev::Begin(vec![0, 1], vec![(0, put(0, 1)), (1, put(1, 1))], false)),
            Act::Deliver("prepare", 1, 0, true),
            Act::Deliver("prepare", 1, 1, false),
            Act::Deliver("vote", 1, 0, false),
            Act::Deliver("vote", 1, 1, false),
            Act::Ev(Ev::Commit(1)),
            Act::Deliver("commit", 1, 0, true),
            Act::Deliver("commit", 1, 1, false),
            Act::Ev(Ev::Begin(vec![0, 1], vec![(0, put(0, 2)), (1, put(1, 2))], false)),
            Act::Deliver("prepare", 2, 0, false),
            Act::Deliver("prepare", 2, 1, false),
            Act::Deliver("vote", 2, 0, false),
            Act::Deliver("vote", 2, 1, false),
            Act::Ev(Ev::Commit(2)),
            Act::Deliver("commit", 2, 0, false),
            Act::Deliver("commit", 2, 1, false),
            Act::Ev(Ev::Sweep(0, false, 0)),
            Act::Ev(Ev::Sweep(1, true, 0)),
            Act::Deliver("prepare", 1, 0, false),
            Act::Deliver("commit", 1, 0, false),
            Act::Deliver("vote", 1, 0, false),
        ];
        let o = run_script(acts, 2, 2, 100000, &parts0, &mut dist);
        sched.push(&o.term, "corpus housekeeping sweep (cleanup_stale / recover) between T1's commit and the delayed duplicates of its Prepare + Commit, T2 committed the same key in between", true);
    }
    {
        // coordinator recover() gives up on a timed-out Preparing transaction; the missing Yes arrives late; commit must fail
        let parts0 = vec![(vec![], 30000u64), (vec![], 30000u64)];
        let acts = vec![
            Act::Ev(Ev::Begin(vec![0, 1], vec![(0, put(0, 1)), (1, put(1, 1))], false)),
            Act::Deliver("prepare", 1, 0, false),
            Act::Deliver("prepare", 1, 1, false),
            Act::Deliver("vote", 1, 0, false),
            Act::Ev(Ev::Advance(101)),
            Act::Ev(Ev::Recover),
            Act::Deliver("vote", 1, 1, false),
            Act::Ev(Ev::Commit(1)),
            Act::Ev(Ev::Recover),
            Act::Deliver("abort", 1, 0, false),
            Act::Deliver("abort", 1, 1, false),
            Act::Ev(Ev::CompleteAbort(1)),
            Act::Ev(Ev::Deliver(0, false)),
            Act::Ev(Ev::Deliver(0, false)),
            Act::Ev(Ev::Deliver(0, false)),
        ];
        let o = run_script(acts, 2, 1, 100, &parts0, &mut dist);
        sched.push(&o.term, "corpus recover() turns a timed-out Preparing transaction into Aborting (abort broadcast); the last Yes arrives late; commit must be refused", true);
    }
    {
        // recover() decides COMMIT for an all-yes Prepared transaction; one shard applies; the deadline passes;
        // a second recover(), cleanup_timeouts and abort() must all leave the decision alone
        let parts0 = vec![(vec![], 30000u64), (vec![], 30000u64)];
        let acts = vec![
            Act::Ev(Ev::Begin(vec![0, 1], vec![(0, put(0, 7)), (1, put(1, 7))], false)),
            Act::Deliver("prepare", 1, 0, false),
            Act::Deliver("prepare", 1, 1, false),
            Act::Deliver("vote", 1, 0, false),
            Act::Deliver("vote", 1, 1, false),
            Act::Ev(Ev::Recover),
            Act::Deliver("commit", 1, 0, false),
            Act::Ev(Ev::Advance(101)),
            Act::Ev(Ev::Recover),
            Act::Ev(Ev::Timeouts),
            Act::Ev(Ev::TakeAborts),
            Act::Ev(Ev::Abort(1)),
            Act::Ev(Ev::Commit(1)),
            Act::Ev(Ev::Deliver(0, false)),
            Act::Ev(Ev::Deliver(0, false)),
            Act::Ev(Ev::Deliver(0, false)),
            Act::Ev(Ev::CompleteAbort(1)),
            Act::Ev(Ev::CompleteCommit(1)),
            Act::Ev(Ev::CompleteCommit(1)),
        ];
        let o = run_script(acts, 2, 1, 100, &parts0, &mut dist);
        sched.push(&o.term, "corpus recover() decides commit (Committing), shard 0 applies, the deadline passes: second recover(), cleanup_timeouts, abort() must not turn it into an abort; shard 1 applies too", true);
    }
    {
        // known class presumed-abort-after-yes: a participant sweep drops a transaction the shard voted Yes for; the
        // coordinator commits; the other shard applies
        let parts0 = vec![(vec![], 30000u64), (vec![(1u64, 4u64)], 30000u64)];
        let acts = vec![
            Act::Ev(Ev::Begin(vec![0, 1], vec![(0, put(0, 1)), (1, put(1, 1))], false)),
            Act::Deliver("prepare", 1, 0, false),
            Act::Deliver("prepare", 1, 1, false),
            Act::Deliver("vote", 1, 0, false),
            Act::Deliver("vote", 1, 1, false),
            Act::Ev(Ev::Advance(10)),
            Act::Ev(Ev::Sweep(1, false, 10)),
            Act::Ev(Ev::Commit(1)),
            Act::Deliver("commit", 1, 0, false),
            Act::Deliver("commit", 1, 1, false),
        ];
        let o = run_script(acts, 2, 1, 100000, &parts0, &mut dist);
        sched.push(&o.term, "corpus F-C03-presumed-abort: shard 1 votes Yes, cleanup_stale(10 ms) drops the prepared transaction, the coordinator commits, shard 0 applies, shard 1 answers the Commit with not-found", true);
    }

    {
        // T1's key lock on shard 0 times out, T2 takes the key, the duplicate of Prepare(T1) arrives: Conflict, not Yes
        let parts0 = vec![(vec![(0u64, 5u64)], 50u64)];
        let acts = vec![
            Act::Ev(Ev::Begin(vec![0], vec![(0, put(0, 1))], false)),
            Act::Deliver("prepare", 1, 0, true),
            Act::Ev(Ev::Advance(51)),
            Act::Ev(Ev::Begin(vec![0], vec![(0, put(0, 2))], false)),
            Act::Deliver("prepare", 2, 0, false),
            Act::Deliver("prepare", 1, 0, false),
            Act::Ev(Ev::Deliver(0, false)),
            Act::Ev(Ev::Deliver(0, false)),
            Act::Ev(Ev::Deliver(0, false)),
            Act::Ev(Ev::Commit(2)),
            Act::Ev(Ev::Deliver(0, false)),
            Act::Ev(Ev::Abort(1)),
            Act::Ev(Ev::Deliver(0, false)),
        ];
        let o = run_script(acts, 1, 2, 100000, &parts0, &mut dist);
        sched.push(&o.term, "corpus duplicate Prepare(T1) after T1's key lock timed out and T2 took the key: must be refused (Conflict with T2)", true);
    }
    {
        // a housekeeping sweep drops prepared T1 (its locks are released), T2 prepares on the key, duplicate Prepare(T1)
        let parts0 = vec![(vec![(0u64, 5u64)], 30000u64)];
        let acts = vec![
            Act::Ev(Ev::Begin(vec![0], vec![(0, put(0, 1))], false)),
            Act::Deliver("prepare", 1, 0, true),
            Act::Ev(Ev::Sweep(0, false, 0)),
            Act::Ev(Ev::Begin(vec![0], vec![(0, put(0, 2))], false)),
            Act::Deliver("prepare", 2, 0, false),
            Act::Deliver("prepare", 1, 0, false),
            Act::Ev(Ev::Deliver(0, false)),
            Act::Ev(Ev::Deliver(0, false)),
            Act::Ev(Ev::Deliver(0, false)),
            Act::Ev(Ev::Commit(2)),
            Act::Ev(Ev::Deliver(0, false)),
            Act::Ev(Ev::Commit(1)),
            Act::Ev(Ev::Abort(1)),
            Act::Ev(Ev::Deliver(0, false)),
        ];
        let o = run_script(acts, 1, 2, 100000, &parts0, &mut dist);
        sched.push(&o.term, "corpus duplicate Prepare(T1) after cleanup_stale dropped T1 and T2 prepared on the key: must be refused (Conflict with T2)", true);
    }

    {
        // a non-matching CompareAndSwap is skipped, the operations after it in the shard's batch still apply
        let parts0 = vec![(vec![(0u64, 5u64)], 30000u64), (vec![(0u64, 5u64)], 30000u64)];
        let acts = vec![
            Act::Ev(Ev::Begin(vec![0, 1], vec![(0, vec![POp::Cas(0, 4, 9), POp::Put(1, 7)]), (1, vec![POp::Cas(0, 5, 9), POp::Put(1, 7), POp::Del(0)])], false)),
            Act::Deliver("prepare", 1, 0, false),
            Act::Deliver("prepare", 1, 1, false),
            Act::Deliver("vote", 1, 0, false),
            Act::Deliver("vote", 1, 1, false),
            Act::Ev(Ev::Commit(1)),
            Act::Deliver("commit", 1, 0, false),
            Act::Deliver("commit", 1, 1, false),
        ];
        let o = run_script(acts, 2, 1, 100000, &parts0, &mut dist);
        sched.push(&o.term, "corpus CompareAndSwap in a batch: shard 0's CAS does not match (k0 is 5, expected 4) and is skipped, Put k1 after it must still apply; shard 1's CAS matches", true);
    }
    {
        // the Abort overtakes the Prepare: the shard has been told to abort T1 and must refuse the late Prepare
        let parts0 = vec![(vec![], 30000u64), (vec![], 30000u64)];
        let acts = vec![
            Act::Ev(Ev::Begin(vec![0, 1], vec![(0, put(0, 1)), (1, put(1, 1))], false)),
            Act::Deliver("prepare", 1, 0, false),
            Act::Ev(Ev::Abort(1)),
            Act::Deliver("abort", 1, 1, false),
            Act::Deliver("prepare", 1, 1, false),
            Act::Deliver("abort", 1, 0, false),
            Act::Ev(Ev::Begin(vec![1], vec![(1, put(1, 2))], false)),
            Act::Deliver("prepare", 2, 1, false),
            Act::Ev(Ev::Deliver(0, false)),
            Act::Ev(Ev::Deliver(0, false)),
            Act::Ev(Ev::Deliver(0, false)),
            Act::Ev(Ev::Commit(2)),
            Act::Ev(Ev::Deliver(0, false)),
        ];
        let o = run_script(acts, 2, 2, 100000, &parts0, &mut dist);
        sched.push(&o.term, "corpus Abort(T1) reaches shard 1 before Prepare(T1): the late Prepare must be refused (no zombie holding k1); T2 on k1 prepares and commits", true);
    }

    for i in 0..args.budget(700, 30000) {
        let o = if i % 8 == 5 {
            run_reprepare(&mut rng, &mut dist)
        } else if i % 8 == 7 {
            run_stale_dup(&mut rng, &mut dist)
        } else if i % 8 == 3 {
            run_recover_family(&mut rng, &mut dist)
        } else {
            run_random(&mut rng, &mut dist)
        };
        dist.hit(&format!("sched.commits.{}", o.commits.min(3)));
        sched.push(&o.term, &o.human, o.commits + o.aborts >= 1 && o.dup_or_loss);
    }

    write_meta(
        &args.out,
        json!({
            "property": "C03", "seed": args.seed, "tier": args.tier,
            "kinds": [sched.summary()],
            "distribution": dist.json(),
            "nontrivial_rule": "sched: at least one decision (commit, abort or timeout) and at least one duplicated or lost message",
        }),
    );
}
