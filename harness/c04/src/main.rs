//! C04 correspondence harness: drives the real `RelationalEngine` (through `QueryRouter::relational()`
//! so that the text path runs on the same tables).
//! One case kind `scen` for NV.C04.Run.check_scen: a schema plus a trace of DML / DDL / query steps;
//! every DML step carries the rows the REAL `Condition::evaluate` selects on the REAL pre-state
//! (`select(True)`) and the real post-state; every query step runs one execution strategy of the
//! real engine and carries the ids the real `evaluate` selects.
use nvh_common::*;
use query_router::{QueryResult, QueryRouter};
use relational_engine::{
    Column, ColumnType, ColumnarScanOptions, Condition, CursorOptions, RelationalConfig, RelationalEngine, Row, Schema, Value,
};
use std::collections::HashMap;
use std::panic::AssertUnwindSafe;

#[derive(Clone, Debug, PartialEq)]
enum V {
    Null,
    Int(i64),
    Float(u64),
    Str(String),
    Bool(bool),
}
impl V {
    fn to_value(&self) -> Value {
        match self {
            V::Null => Value::Null,
            V::Int(i) => Value::Int(*i),
            V::Float(b) => Value::Float(f64::from_bits(*b)),
            V::Str(s) => Value::String(s.clone()),
            V::Bool(b) => Value::Bool(*b),
        }
    }
    fn of_value(v: &Value) -> V {
        match v {
            Value::Null => V::Null,
            Value::Int(i) => V::Int(*i),
            Value::Float(f) => V::Float(f.to_bits()),
            Value::String(s) => V::Str(s.clone()),
            Value::Bool(b) => V::Bool(*b),
            _ => V::Str("<other>".into()),
        }
    }
    fn coq(&self) -> String {
        match self {
            V::Null => "VNull".into(),
            V::Int(i) => format!("(VInt {})", z(*i as i128)),
            V::Float(b) => format!("(VFloat {b})"),
            V::Str(s) => format!("(VStr {})", bytes(s.as_bytes())),
            V::Bool(x) => format!("(VBool {})", b(*x)),
        }
    }
    /// SQL text of the literal, if the text path can express it
    fn sql(&self) -> Option<String> {
        match self {
            V::Null => Some("NULL".into()),
            V::Int(i) if *i >= 0 => Some(format!("{i}")),
            V::Int(_) => None,
            V::Float(bits) => {
                let f = f64::from_bits(*bits);
                if f.is_finite() && f >= 0.0 && !(f == 0.0 && f.is_sign_negative()) {
                    let s = format!("{f:?}");
                    if s.contains('e') || s.contains("inf") || s.len() > 20 {
                        None
                    } else {
                        Some(s)
                    }
                } else {
                    None
                }
            }
            V::Str(s) if !s.contains('\'') && !s.contains('\\') && !s.contains('\0') => Some(format!("'{s}'")),
            V::Str(_) => None,
            V::Bool(x) => Some(if *x { "TRUE".into() } else { "FALSE".into() }),
        }
    }
}
const ID_COL: u64 = 1000;
const UNKNOWN_COL: u64 = 77;
fn col_name(c: u64) -> String {
    if c == ID_COL {
        "_id".into()
    } else if c == UNKNOWN_COL {
        "zz".into()
    } else {
        format!("c{c}")
    }
}
#[derive(Clone, Debug)]
enum C {
    True,
    Cmp(u64, u64, V), // op (0 Eq 1 Ne 2 Lt 3 Le 4 Gt 5 Ge), column, value
    And(Box<C>, Box<C>),
    Or(Box<C>, Box<C>),
}
impl C {
    fn to_cond(&self) -> Condition {
        match self {
            C::True => Condition::True,
            C::Cmp(op, c, v) => {
                let n = col_name(*c);
                let v = v.to_value();
                match op {
                    0 => Condition::Eq(n, v),
                    1 => Condition::Ne(n, v),
                    2 => Condition::Lt(n, v),
                    3 => Condition::Le(n, v),
                    4 => Condition::Gt(n, v),
                    _ => Condition::Ge(n, v),
                }
            }
            C::And(a, b) => Condition::And(Box::new(a.to_cond()), Box::new(b.to_cond())),
            C::Or(a, b) => Condition::Or(Box::new(a.to_cond()), Box::new(b.to_cond())),
        }
    }
    fn coq(&self) -> String {
        match self {
            C::True => "CTrue".into(),
            C::Cmp(op, c, v) => format!("(CCmp {op} {c} {})", v.coq()),
            C::And(a, b) => format!("(CAnd {} {})", a.coq(), b.coq()),
            C::Or(a, b) => format!("(COr {} {})", a.coq(), b.coq()),
        }
    }
    /// SQL text (fully parenthesised), if expressible
    fn sql(&self) -> Option<String> {
        match self {
            C::True => None,
            C::Cmp(op, c, v) => {
                let o = ["=", "!=", "<", "<=", ">", ">="][*op as usize];
                Some(format!("{} {o} {}", col_name(*c), v.sql()?))
            }
            C::And(a, b) => Some(format!("({}) AND ({})", a.sql()?, b.sql()?)),
            C::Or(a, b) => Some(format!("({}) OR ({})", a.sql()?, b.sql()?)),
        }
    }
    fn has_true(&self) -> bool {
        match self {
            C::True => true,
            C::Cmp(..) => false,
            C::And(a, b) | C::Or(a, b) => a.has_true() || b.has_true(),
        }
    }
}

type Dump = Vec<(u64, Vec<V>)>;
fn dump_of(rows: &[Row], ncols: usize) -> Dump {
    let mut d: Dump = rows
        .iter()
        .map(|r| {
            let vals = (0..ncols).map(|c| r.get(&format!("c{c}")).map(V::of_value).unwrap_or(V::Null)).collect();
            (r.id, vals)
        })
        .collect();
    d.sort_by_key(|x| x.0);
    d
}
fn dump_coq(d: &Dump) -> String {
    list(d.iter().map(|(id, vs)| format!("({id}, {})", list(vs.iter().map(|v| v.coq())))))
}
fn ids_coq(ids: &[u64]) -> String {
    list(ids.iter().map(|i| n(*i)))
}

const INTS: [i64; 10] = [0, 1, -1, 5, 7, 42, -100, i64::MIN, i64::MAX, 3];
fn floats() -> Vec<u64> {
    vec![
        0.0f64.to_bits(),
        (-0.0f64).to_bits(),
        1.5f64.to_bits(),
        (-1.5f64).to_bits(),
        f64::NAN.to_bits(),
        0xFFF8_0000_0000_0001, // negative quiet NaN with payload
        0x7FF0_0000_0000_0001, // signalling NaN
        (-5e-324f64).to_bits(),
        f64::INFINITY.to_bits(),
        f64::NEG_INFINITY.to_bits(),
        5e-324f64.to_bits(),
        1e308f64.to_bits(),
        5.0f64.to_bits(),
    ]
}
const STRS: [&str; 7] = ["", "a", "b", "ab", "\u{e9}", "\u{4e16}\u{754c}", "A"];
fn gen_val(r: &mut Rng, ty: u64) -> V {
    match ty {
        0 => V::Int(*r.pick(&INTS)),
        1 => V::Float(*r.pick(&floats())),
        2 => V::Str(r.pick(&STRS).to_string()),
        _ => V::Bool(r.chance(1, 2)),
    }
}
fn gen_cond(r: &mut Rng, schema: &[(u64, bool)], depth: usize, dist: &mut Dist) -> C {
    if depth > 0 && r.chance(2, 5) {
        let a = gen_cond(r, schema, depth - 1, dist);
        let b2 = gen_cond(r, schema, depth - 1, dist);
        return if r.chance(1, 2) {
            dist.hit("cond.and");
            C::And(Box::new(a), Box::new(b2))
        } else {
            dist.hit("cond.or");
            C::Or(Box::new(a), Box::new(b2))
        };
    }
    if r.chance(1, 25) {
        dist.hit("cond.true");
        return C::True;
    }
    let k = r.below(20);
    let (col, ty) = if k == 0 {
        (UNKNOWN_COL, r.below(4))
    } else if k <= 2 {
        (ID_COL, 0)
    } else {
        let c = r.below(schema.len() as u64);
        (c, schema[c as usize].0)
    };
    let v = if col == ID_COL {
        V::Int(r.range(0, 8) as i64)
    } else if r.chance(1, 10) {
        V::Null
    } else if r.chance(1, 10) {
        let t = r.below(4);
        gen_val(r, t) // cross-type
    } else {
        gen_val(r, ty)
    };
    let op = r.below(6);
    dist.hit(&format!("cond.op.{}", ["eq", "ne", "lt", "le", "gt", "ge"][op as usize]));
    match &v {
        V::Null => dist.hit("cond.val.null"),
        V::Float(bts) if f64::from_bits(*bts).is_nan() => dist.hit("cond.val.nan"),
        V::Float(bts) if *bts == (-0.0f64).to_bits() => dist.hit("cond.val.negzero"),
        _ => {}
    }
    C::Cmp(op, col, v)
}

#[derive(Clone, Debug, PartialEq)]
enum Q {
    Rows(Dump),
    Count(u64),
    Val(Option<V>),
    Sum(u64),
    Err(String),
}
impl Q {
    fn coq(&self) -> String {
        match self {
            Q::Rows(d) => format!("(QRows {})", dump_coq(d)),
            Q::Count(c) => format!("(QCount {c})"),
            Q::Val(v) => format!("(QVal {})", opt(v.as_ref().map(|x| x.coq()))),
            Q::Sum(bits) => format!("(QSum {bits})"),
            Q::Err(_) => "QErr".into(),
        }
    }
}

struct Scen {
    router: QueryRouter,
    /// budget scenarios run on an engine of their own (tiny B-tree entry budget), not the router's
    own: Option<RelationalEngine>,
    /// open transaction: DML goes through tx_insert / tx_update / tx_delete
    tx: Option<u64>,
    /// inside an open transaction one of whose statements failed half-way (before its rollback):
    /// queries are compared and reported under this class instead of being judged by the case oracle
    window: Option<&'static str>,
    window_reported: bool,
    /// the last DML statement returned an error
    last_failed: bool,
    schema: Vec<(u64, bool)>,
    cur: Dump,
    steps: Vec<String>,
    human: Vec<String>,
    nontrivial: bool,
}
impl Scen {
    fn eng(&self) -> &RelationalEngine {
        match &self.own {
            Some(e) => e,
            None => self.router.relational(),
        }
    }
    fn ncols(&self) -> usize {
        self.schema.len()
    }
    fn refresh(&mut self) -> Dump {
        let rows = self.eng().select("t", Condition::True).unwrap_or_default();
        let d = dump_of(&rows, self.ncols());
        self.cur = d.clone();
        d
    }
    /// ids the REAL evaluate selects on the real current table
    fn expected(&self, c: &C) -> Vec<u64> {
        let rows = self.eng().select("t", Condition::True).unwrap_or_default();
        let cond = c.to_cond();
        let mut ids: Vec<u64> = rows.iter().filter(|r| cond.evaluate(r)).map(|r| r.id).collect();
        ids.sort();
        ids
    }
}

fn rows_q(r: Result<Vec<Row>, String>, ncols: usize) -> Q {
    match r {
        Ok(rows) => {
            // keep the engine's order (all strategies return rows sorted by id)
            let d: Dump = rows
                .iter()
                .map(|r| (r.id, (0..ncols).map(|c| r.get(&format!("c{c}")).map(V::of_value).unwrap_or(V::Null)).collect()))
                .collect();
            Q::Rows(d)
        }
        Err(e) => Q::Err(e),
    }
}

fn run_query(s: &Scen, strat: u64, c: &C, lim: u64, off: u64, col: u64) -> Option<Q> {
    let e = s.eng();
    let cond = c.to_cond();
    let nc = s.ncols();
    let res = guarded(AssertUnwindSafe(|| -> Option<Q> {
        Some(match strat {
            0 => rows_q(e.select("t", cond).map_err(|x| x.to_string()), nc),
            1 => rows_q(e.select_with_limit("t", cond, lim as usize, off as usize).map_err(|x| x.to_string()), nc),
            2 => rows_q(
                e.select_columnar("t", cond, ColumnarScanOptions { projection: None, prefer_columnar: true }).map_err(|x| x.to_string()),
                nc,
            ),
            3 => {
                // cursor: lim = 0 means "no limit"
                let mut o = CursorOptions::new().with_offset(off as usize);
                if lim > 0 {
                    o = o.with_limit(lim as usize);
                }
                match e.select_iter("t", cond, o) {
                    Ok(cur) => {
                        let rows: Result<Vec<Row>, String> = cur.map(|r| r.map_err(|x| x.to_string())).collect();
                        rows_q(rows, nc)
                    }
                    Err(x) => Q::Err(x.to_string()),
                }
            }
            4 => match e.count("t", cond) {
                Ok(k) => Q::Count(k),
                Err(x) => Q::Err(x.to_string()),
            },
            5 => match e.sum("t", &col_name(col), cond) {
                Ok(f) => Q::Sum(f.to_bits()),
                Err(x) => Q::Err(x.to_string()),
            },
            6 => match e.min("t", &col_name(col), cond) {
                Ok(v) => Q::Val(v.as_ref().map(V::of_value)),
                Err(x) => Q::Err(x.to_string()),
            },
            7 => match e.max("t", &col_name(col), cond) {
                Ok(v) => Q::Val(v.as_ref().map(V::of_value)),
                Err(x) => Q::Err(x.to_string()),
            },
            8 => {
                if s.own.is_some() {
                    return None;
                }
                let w = c.sql()?;
                match s.router.execute_parsed(&format!("SELECT * FROM t WHERE {w}")) {
                    Ok(QueryResult::Rows(rows)) => rows_q(Ok(rows), nc),
                    Ok(other) => Q::Err(format!("unexpected result {other:?}")),
                    Err(x) => Q::Err(x.to_string()),
                }
            }
            10 => match e.count_column("t", &col_name(col), cond) {
                Ok(k) => Q::Count(k),
                Err(x) => Q::Err(x.to_string()),
            },
            11 => match e.avg("t", &col_name(col), cond) {
                Ok(v) => Q::Val(v.map(|f| V::Float(f.to_bits()))),
                Err(x) => Q::Err(x.to_string()),
            },
            _ => {
                // streaming cursor
                let rows: Result<Vec<Row>, String> = e.select_streaming("t", cond).map(|r| r.map_err(|x| x.to_string())).collect();
                rows_q(rows, nc)
            }
        })
    }));
    match res {
        Ok(q) => q,
        Err(msg) => Some(Q::Err(format!("panic: {msg}"))),
    }
}

/// what the property demands of a strategy, computed from the REAL evaluate / REAL table only
fn demanded(s: &Scen, strat: u64, c: &C, lim: u64, off: u64, col: u64) -> Q {
    let exp = s.expected(c);
    let rows: Dump = s.cur.iter().filter(|(id, _)| exp.contains(id)).cloned().collect();
    match strat {
        0 | 2 | 8 | 9 => Q::Rows(rows),
        1 => Q::Rows(rows.into_iter().skip(off as usize).take(lim as usize).collect()),
        3 => {
            let it = rows.into_iter().skip(off as usize);
            Q::Rows(if lim > 0 { it.take(lim as usize).collect() } else { it.collect() })
        }
        4 => Q::Count(rows.len() as u64),
        10 => Q::Count(rows.iter().filter(|(_, vs)| !matches!(vs.get(col as usize), Some(V::Null) | None)).count() as u64),
        11 => {
            let (mut t, mut k) = (0.0f64, 0u64);
            for (_, vs) in &rows {
                match vs.get(col as usize) {
                    Some(V::Int(i)) => {
                        t += *i as f64;
                        k += 1;
                    }
                    Some(V::Float(b)) => {
                        t += f64::from_bits(*b);
                        k += 1;
                    }
                    _ => {}
                }
            }
            Q::Val(if k == 0 { None } else { Some(V::Float((t / k as f64).to_bits())) })
        }
        5 => {
            let mut t = 0.0f64;
            for (_, vs) in &rows {
                match vs.get(col as usize) {
                    Some(V::Int(i)) => t += *i as f64,
                    Some(V::Float(b)) => t += f64::from_bits(*b),
                    _ => {}
                }
            }
            Q::Sum(t.to_bits())
        }
        _ => {
            let want = if strat == 6 { std::cmp::Ordering::Less } else { std::cmp::Ordering::Greater };
            let mut best: Option<V> = None;
            for (_, vs) in &rows {
                let v = match vs.get(col as usize) {
                    Some(V::Null) | None => continue,
                    Some(v) => v.clone(),
                };
                best = match &best {
                    None => Some(v),
                    Some(cur) => {
                        let o = match (&v, cur) {
                            (V::Int(a), V::Int(b)) => Some(a.cmp(b)),
                            (V::Float(a), V::Float(b)) => f64::from_bits(*a).partial_cmp(&f64::from_bits(*b)),
                            (V::Str(a), V::Str(b)) => Some(a.cmp(b)),
                            _ => None,
                        };
                        if o == Some(want) { Some(v) } else { best }
                    }
                };
            }
            Q::Val(best)
        }
    }
}

fn new_scen(schema: Vec<(u64, bool)>) -> Scen {
    new_scen_with(schema, None)
}
fn new_scen_with(schema: Vec<(u64, bool)>, btree_budget: Option<usize>) -> Scen {
    let router = QueryRouter::new();
    let own = btree_budget.map(|k| RelationalEngine::with_config(RelationalConfig::new().with_max_btree_entries(k)));
    let cols: Vec<Column> = schema
        .iter()
        .enumerate()
        .map(|(i, (ty, nullable))| {
            let c = Column::new(
                format!("c{i}"),
                match ty {
                    0 => ColumnType::Int,
                    1 => ColumnType::Float,
                    2 => ColumnType::String,
                    _ => ColumnType::Bool,
                },
            );
            if *nullable { c.nullable() } else { c }
        })
        .collect();
    match &own {
        Some(e) => e.create_table("t", Schema::new(cols)).expect("create table"),
        None => router.relational().create_table("t", Schema::new(cols)).expect("create table"),
    }
    Scen { router, own, tx: None, window: None, window_reported: false, last_failed: false, schema, cur: vec![], steps: vec![], human: vec![], nontrivial: false }
}

fn do_insert(s: &mut Scen, vals: Vec<V>, dist: &mut Dist) {
    let mut m = HashMap::new();
    for (i, v) in vals.iter().enumerate() {
        if *v != V::Null || i % 2 == 0 {
            m.insert(format!("c{i}"), v.to_value()); // NULL sometimes explicit, sometimes absent
        }
    }
    let ret = match s.tx {
        Some(tx) => s.eng().tx_insert(tx, "t", m).ok(),
        None => s.eng().insert("t", m).ok(),
    };
    let post = s.refresh();
    dist.hit(if ret.is_some() { "op.insert" } else { "op.insert_rejected" });
    s.last_failed = ret.is_none();
    if s.tx.is_some() && ret.is_none() {
        // a statement that failed inside an open transaction keeps its partial effects until the
        // rollback: not judged (the transaction is resolved by the caller), only re-synchronised
        s.steps.push(format!("SSync {}", dump_coq(&post)));
    } else {
        s.steps.push(format!("SInsert {} {} {}", list(vals.iter().map(|v| v.coq())), opt(ret.map(n)), dump_coq(&post)));
    }
    s.human.push(format!("insert{vals:?}->{ret:?}"));
}
fn do_update(s: &mut Scen, c: &C, sets: Vec<(u64, V)>, dist: &mut Dist) {
    let touched = s.expected(c);
    let m: HashMap<String, Value> = sets.iter().map(|(c, v)| (col_name(*c), v.to_value())).collect();
    let ret = match s.tx {
        Some(tx) => s.eng().tx_update(tx, "t", c.to_cond(), m).ok().map(|k| k as u64),
        None => s.eng().update("t", c.to_cond(), m).ok().map(|k| k as u64),
    };
    let post = s.refresh();
    dist.hit(if ret.is_some() { "op.update" } else { "op.update_rejected" });
    if !touched.is_empty() {
        s.nontrivial = true;
    }
    s.last_failed = ret.is_none();
    if s.tx.is_some() && ret.is_none() {
        s.steps.push(format!("SSync {}", dump_coq(&post)));
    } else {
        s.steps.push(format!(
            "SUpdate {} {} {} {} {}",
            c.coq(),
            list(sets.iter().map(|(c, v)| format!("({c}, {})", v.coq()))),
            ids_coq(&touched),
            opt(ret.map(n)),
            dump_coq(&post)
        ));
    }
    s.human.push(format!("update({c:?},{sets:?})->{ret:?}"));
}
fn do_delete(s: &mut Scen, c: &C, dist: &mut Dist) {
    let touched = s.expected(c);
    let ret = match s.tx {
        Some(tx) => s.eng().tx_delete(tx, "t", c.to_cond()).ok().map(|k| k as u64),
        None => s.eng().delete_rows("t", c.to_cond()).ok().map(|k| k as u64),
    };
    let post = s.refresh();
    dist.hit("op.delete");
    if !touched.is_empty() {
        s.nontrivial = true;
    }
    s.last_failed = ret.is_none();
    if s.tx.is_some() && ret.is_none() {
        s.steps.push(format!("SSync {}", dump_coq(&post)));
    } else {
        s.steps.push(format!("SDelete {} {} {} {}", c.coq(), ids_coq(&touched), opt(ret.map(n)), dump_coq(&post)));
    }
    s.human.push(format!("delete({c:?})->{ret:?}"));
}
fn do_index(s: &mut Scen, kind: u64, col: u64, dist: &mut Dist) {
    let name = col_name(col);
    let ok = match kind {
        0 => s.eng().create_index("t", &name).is_ok(),
        1 => s.eng().create_btree_index("t", &name).is_ok(),
        2 => s.eng().drop_index("t", &name).is_ok(),
        _ => s.eng().drop_btree_index("t", &name).is_ok(),
    };
    dist.hit(["op.create_index", "op.create_btree_index", "op.drop_index", "op.drop_btree_index"][kind as usize]);
    s.steps.push(format!("SIndex {kind} {col} {}", b(ok)));
    s.human.push(format!("{}({name})->{ok}", ["create_index", "create_btree_index", "drop_index", "drop_btree_index"][kind as usize]));
}
const STRAT_NAMES: [&str; 12] = [
    "select", "select_with_limit", "select_columnar", "select_iter", "count", "sum", "min", "max", "text", "select_streaming",
    "count_column", "avg",
];
fn do_query(s: &mut Scen, strat: u64, c: &C, lim: u64, off: u64, col: u64, dist: &mut Dist, hits: &mut Hits) {
    let got = match run_query(s, strat, c, lim, off, col) {
        Some(g) => g,
        None => return, // not expressible as text
    };
    let exp = s.expected(c);
    dist.hit(&format!("query.{}", STRAT_NAMES[strat as usize]));
    if !exp.is_empty() && exp.len() < s.cur.len() {
        s.nontrivial = true;
    }
    let want = demanded(s, strat, c, lim, off, col);
    let agree = want == got;
    if !agree {
        dist.hit(&format!("query.differs.{}", STRAT_NAMES[strat as usize]));
        if std::env::var("NV_DEBUG").is_ok() {
            eprintln!("DIFF {} schema={:?} cond={:?} lim={lim} off={off} col={col}\n   table={:?}\n   got ={:?}\n   want={:?}", STRAT_NAMES[strat as usize], s.schema, c, s.cur, got, want);
        }
    }
    if let Some(class) = s.window {
        if !agree && !s.window_reported {
            s.window_reported = true;
            hits.push(
                class,
                &format!("{} returned {:?} but the rows satisfying the condition give {:?} (class {class})", STRAT_NAMES[strat as usize], got, want),
                json!({"schema": format!("{:?}", s.schema), "trace": s.human.clone(), "cond": format!("{c:?}")}),
            );
        }
        return;
    }
    if strat == 5 || strat == 9 || strat == 11 {
        // no model for float arithmetic / the streaming cursor: implementation-only oracle
        if !agree {
            hits.push(
                &format!("{}-differs", STRAT_NAMES[strat as usize]),
                &format!("{} returned {:?} but the rows satisfying the condition give {:?}", STRAT_NAMES[strat as usize], got, want),
                json!({"schema": format!("{:?}", s.schema), "trace": s.human.clone(), "cond": format!("{c:?}"), "col": col}),
            );
        }
        return;
    }
    s.steps.push(format!("SQuery {strat} {} {lim} {off} {col} {} {}", c.coq(), ids_coq(&exp), got.coq()));
    s.human.push(format!("{}({c:?},lim={lim},off={off},col={col})->{got:?} [evaluate selects {exp:?}]", STRAT_NAMES[strat as usize]));
}
fn all_strategies(s: &mut Scen, c: &C, r: &mut Rng, dist: &mut Dist, hits: &mut Hits) {
    let ncols = s.ncols() as u64;
    for strat in 0..12u64 {
        let lim = if strat == 3 { *r.pick(&[0u64, 0, 1, 2, 5]) } else { *r.pick(&[0u64, 1, 2, 3, 100]) };
        let off = *r.pick(&[0u64, 0, 1, 2, 5]);
        let col = r.below(ncols);
        if strat == 8 && c.has_true() {
            continue;
        }
        do_query(s, strat, c, lim, off, col, dist, hits);
    }
}
fn finish(s: &Scen, w: &mut CaseWriter, tag: &str) {
    let term = format!(
        "({}, {})",
        list(s.schema.iter().map(|(t, nl)| format!("({t}, {})", b(*nl)))),
        list(s.steps.iter().map(|x| format!("({x})")))
    );
    w.push(&term, &format!("{tag} schema={:?} trace={}", s.schema, s.human.join(" ; ")), s.nontrivial);
}

fn corpus(w: &mut CaseWriter, dist: &mut Dist, hits: &mut Hits, r: &mut Rng) {
    // F-C04-negzero: float column, row -0.0, Eq(f, 0.0): scan vs after create_index
    {
        let mut s = new_scen(vec![(1, false)]);
        do_insert(&mut s, vec![V::Float((-0.0f64).to_bits())], dist);
        do_insert(&mut s, vec![V::Float(0.0f64.to_bits())], dist);
        do_insert(&mut s, vec![V::Float(1.5f64.to_bits())], dist);
        let c = C::Cmp(0, 0, V::Float(0.0f64.to_bits()));
        let c2 = C::Cmp(0, 0, V::Float((-0.0f64).to_bits()));
        all_strategies(&mut s, &c, r, dist, hits);
        do_index(&mut s, 0, 0, dist);
        all_strategies(&mut s, &c, r, dist, hits);
        all_strategies(&mut s, &c2, r, dist, hits);
        do_update(&mut s, &c, vec![(0, V::Float(5.0f64.to_bits()))], dist);
        all_strategies(&mut s, &C::Cmp(0, 0, V::Float(5.0f64.to_bits())), r, dist, hits);
        finish(&s, w, "corpus F-C04-negzero");
    }
    // F-C04-null: nullable int column holding NULL, Lt(n, 5): row path vs columnar path
    {
        let mut s = new_scen(vec![(0, true), (1, true)]);
        do_insert(&mut s, vec![V::Null, V::Null], dist);
        do_insert(&mut s, vec![V::Int(3), V::Float(1.5f64.to_bits())], dist);
        do_insert(&mut s, vec![V::Int(9), V::Float((-1.5f64).to_bits())], dist);
        for c in [
            C::Cmp(2, 0, V::Int(5)),
            C::Cmp(0, 0, V::Int(0)),
            C::Cmp(1, 0, V::Int(0)),
            C::Cmp(1, 0, V::Int(3)),
            C::Cmp(3, 0, V::Int(0)),
            C::Cmp(5, 0, V::Int(0)),
            C::Cmp(2, 1, V::Float(1.0f64.to_bits())),
            C::Cmp(0, 1, V::Float(0.0f64.to_bits())),
            C::Cmp(4, 1, V::Float((-1.0f64).to_bits())),
        ] {
            all_strategies(&mut s, &c, r, dist, hits);
        }
        // update to NULL keeps the old raw value in the column vector
        do_update(&mut s, &C::Cmp(0, 0, V::Int(3)), vec![(0, V::Null)], dist);
        all_strategies(&mut s, &C::Cmp(0, 0, V::Int(3)), r, dist, hits);
        all_strategies(&mut s, &C::Cmp(2, 0, V::Int(5)), r, dist, hits);
        finish(&s, w, "corpus F-C04-null");
    }
    // signed zeros under an ORDERED index: Ge(f, 0.0) must keep -0.0 rows, Le(f, -0.0) must keep +0.0 rows
    for index_first in [false, true] {
        let mut s = new_scen(vec![(1, true)]);
        if index_first {
            do_index(&mut s, 1, 0, dist);
        }
        for bits in [(-0.0f64).to_bits(), 0.0f64.to_bits(), 1.5f64.to_bits(), (-1.5f64).to_bits(), f64::NAN.to_bits()] {
            do_insert(&mut s, vec![V::Float(bits)], dist);
        }
        if !index_first {
            do_index(&mut s, 1, 0, dist);
        }
        for lit in [0.0f64.to_bits(), (-0.0f64).to_bits()] {
            for op in 0..6u64 {
                all_strategies(&mut s, &C::Cmp(op, 0, V::Float(lit)), r, dist, hits);
            }
        }
        do_update(&mut s, &C::Cmp(5, 0, V::Float(0.0f64.to_bits())), vec![(0, V::Float((-0.0f64).to_bits()))], dist);
        all_strategies(&mut s, &C::Cmp(5, 0, V::Float(0.0f64.to_bits())), r, dist, hits);
        all_strategies(&mut s, &C::Cmp(3, 0, V::Float((-0.0f64).to_bits())), r, dist, hits);
        finish(&s, w, "corpus signed zeros / ordered index");
    }
    // NaN under a HASH index: the bucket of Eq(f, NaN) is not empty, yet no row satisfies it
    for index_first in [false, true] {
        let mut s = new_scen(vec![(1, true), (0, true)]);
        if index_first {
            do_index(&mut s, 0, 0, dist);
            do_index(&mut s, 0, 1, dist);
        }
        for (bits, k) in [(f64::NAN.to_bits(), 1i64), (f64::NAN.to_bits(), 2), (0xFFF8_0000_0000_0001u64, 3), (1.5f64.to_bits(), 1)] {
            do_insert(&mut s, vec![V::Float(bits), V::Int(k)], dist);
        }
        do_insert(&mut s, vec![V::Null, V::Null], dist);
        if !index_first {
            do_index(&mut s, 0, 0, dist);
            do_index(&mut s, 0, 1, dist);
        }
        for c in [
            C::Cmp(0, 0, V::Float(f64::NAN.to_bits())),
            C::Cmp(0, 0, V::Float(0xFFF8_0000_0000_0001)),
            C::Cmp(1, 0, V::Float(f64::NAN.to_bits())),
            C::Cmp(0, 0, V::Float(1.5f64.to_bits())),
            C::Cmp(0, 0, V::Null),
            C::Cmp(0, 1, V::Int(1)),
            C::Cmp(0, 1, V::Null),
            C::Cmp(0, 1, V::Float(1.0f64.to_bits())),
            C::Cmp(0, 1, V::Bool(true)),
        ] {
            all_strategies(&mut s, &c, r, dist, hits);
        }
        finish(&s, w, "corpus NaN / hash index");
    }
    // NULL by omission vs explicit NULL under a hash / ordered index
    {
        let mut s = new_scen(vec![(0, true), (0, true)]);
        do_index(&mut s, 0, 0, dist);
        do_index(&mut s, 0, 1, dist);
        do_index(&mut s, 1, 1, dist);
        do_insert(&mut s, vec![V::Null, V::Null], dist); // c0 explicit NULL, c1 omitted
        do_insert(&mut s, vec![V::Int(1), V::Int(2)], dist);
        for c in [C::Cmp(0, 0, V::Null), C::Cmp(0, 1, V::Null), C::Cmp(3, 1, V::Null), C::Cmp(1, 1, V::Null)] {
            all_strategies(&mut s, &c, r, dist, hits);
        }
        do_update(&mut s, &C::Cmp(0, 1, V::Int(2)), vec![(1, V::Null)], dist);
        all_strategies(&mut s, &C::Cmp(0, 1, V::Null), r, dist, hits);
        do_delete(&mut s, &C::Cmp(0, 1, V::Null), dist);
        all_strategies(&mut s, &C::Cmp(0, 1, V::Null), r, dist, hits);
        finish(&s, w, "corpus null-by-omission index");
    }
    // limit/offset through an index; deleted rows and the vectorised True
    {
        let mut s = new_scen(vec![(0, false), (0, false)]);
        for (a, b2) in [(5, 1), (1, 2), (1, 1), (3, 2), (1, 2), (0, 2)] {
            do_insert(&mut s, vec![V::Int(a), V::Int(b2)], dist);
        }
        let c = C::And(Box::new(C::Cmp(0, 0, V::Int(1))), Box::new(C::Cmp(0, 1, V::Int(2))));
        let g = C::Cmp(4, 0, V::Int(0));
        for (lim, off) in [(1u64, 0u64), (1, 1), (2, 0), (2, 1), (100, 0)] {
            do_query(&mut s, 1, &c, lim, off, 0, dist, hits);
            do_query(&mut s, 1, &g, lim, off, 0, dist, hits);
        }
        do_index(&mut s, 0, 0, dist);
        do_index(&mut s, 1, 0, dist);
        for (lim, off) in [(1u64, 0u64), (1, 1), (2, 0), (2, 1), (100, 0)] {
            do_query(&mut s, 1, &c, lim, off, 0, dist, hits);
            do_query(&mut s, 1, &g, lim, off, 0, dist, hits);
            do_query(&mut s, 3, &g, lim, off, 0, dist, hits);
        }
        do_delete(&mut s, &C::Cmp(0, 0, V::Int(5)), dist);
        let t = C::And(Box::new(C::True), Box::new(C::Cmp(4, 1, V::Int(0))));
        let o = C::Or(Box::new(C::True), Box::new(C::Cmp(0, 1, V::Int(77))));
        all_strategies(&mut s, &t, r, dist, hits);
        all_strategies(&mut s, &o, r, dist, hits);
        all_strategies(&mut s, &g, r, dist, hits);
        finish(&s, w, "corpus limit/index/deleted");
    }
}

/// special values on indexed columns: a Float (or Int) column that carries BOTH index kinds (created
/// before, in the middle of, or after the inserts), rows drawn almost only from the special values,
/// and every comparison operator against every special literal under every strategy.
fn special_scen(r: &mut Rng, w: &mut CaseWriter, dist: &mut Dist, hits: &mut Hits) {
    let fl = floats();
    let ty = if r.chance(4, 5) { 1u64 } else { 0 };
    let nullable = r.chance(1, 2);
    let schema = vec![(ty, nullable), (*r.pick(&[0u64, 1, 2, 3]), true)];
    let mut s = new_scen(schema.clone());
    let when = r.below(3); // 0: indexes first, 1: in the middle, 2: after the inserts
    let kinds: Vec<u64> = match r.below(4) {
        0 => vec![0],
        1 => vec![1],
        _ => vec![0, 1],
    };
    dist.hit(&format!("special.index_kinds.{}", kinds.len()));
    let special = |r: &mut Rng| -> V {
        if ty == 1 {
            V::Float(*r.pick(&fl))
        } else {
            V::Int(*r.pick(&[0i64, -1, 1, i64::MIN, i64::MAX, 5]))
        }
    };
    let nrows = r.range(5, 9);
    for i in 0..nrows {
        if (when == 0 && i == 0) || (when == 1 && i == nrows / 2) {
            for k in &kinds {
                do_index(&mut s, *k, 0, dist);
            }
        }
        let v0 = if nullable && r.chance(1, 8) { V::Null } else { special(r) };
        let v1 = if r.chance(1, 4) { V::Null } else { gen_val(r, schema[1].0) };
        do_insert(&mut s, vec![v0, v1], dist);
    }
    if when == 2 {
        for k in &kinds {
            do_index(&mut s, *k, 0, dist);
        }
    }
    // literals: both zeros and a NaN always, plus a few others
    let mut lits: Vec<V> = if ty == 1 {
        vec![V::Float(0.0f64.to_bits()), V::Float((-0.0f64).to_bits()), V::Float(f64::NAN.to_bits())]
    } else {
        vec![V::Int(0), V::Int(i64::MIN), V::Int(i64::MAX)]
    };
    for _ in 0..3 {
        lits.push(special(r));
    }
    lits.push(V::Null);
    for lit in &lits {
        for op in 0..6u64 {
            let c = C::Cmp(op, 0, lit.clone());
            dist.hit("special.leaf");
            all_strategies(&mut s, &c, r, dist, hits);
        }
    }
    // DML driven by special-value conditions, then look again
    let c = C::Cmp(r.below(6), 0, lits[r.below(3) as usize].clone());
    if r.chance(1, 2) {
        let nv = special(r);
        do_update(&mut s, &c, vec![(0, nv)], dist);
    } else {
        do_delete(&mut s, &c, dist);
    }
    for lit in lits.iter().take(3) {
        for op in [0u64, 3, 5] {
            all_strategies(&mut s, &C::Cmp(op, 0, lit.clone()), r, dist, hits);
        }
    }
    let c2 = C::And(Box::new(C::Cmp(5, 0, lits[0].clone())), Box::new(C::Cmp(3, 0, lits[1].clone())));
    all_strategies(&mut s, &c2, r, dist, hits);
    finish(&s, w, "special-values");
}

// ------------------------------------------------------------------------------------ budget scenarios
/// every index-served query shape on the indexed columns, against the values in play
fn index_shapes(s: &mut Scen, idx_cols: &[(u64, u64)], vals: &[Vec<V>], r: &mut Rng, dist: &mut Dist, hits: &mut Hits) {
    for (col, kind) in idx_cols {
        let pool = &vals[*col as usize];
        let ops: &[u64] = if *kind == 0 { &[0] } else { &[2, 3, 4, 5] };
        for op in ops {
            for v in pool {
                let c = C::Cmp(*op, *col, v.clone());
                // select and count always; one more strategy at random
                do_query(s, 0, &c, 100, 0, *col, dist, hits);
                do_query(s, 4, &c, 100, 0, *col, dist, hits);
                let extra = *r.pick(&[1u64, 3, 6, 7, 10]);
                let lim = *r.pick(&[1u64, 2, 100]);
                do_query(s, extra, &c, lim, r.below(2), *col, dist, hits);
            }
        }
        // compound: the index serves one side of an AND
        let other = (*col + 1) % s.ncols() as u64;
        let c = C::And(
            Box::new(C::Cmp(if *kind == 0 { 0 } else { 3 }, *col, r.pick(pool).clone())),
            Box::new(C::Cmp(1, other, r.pick(&vals[other as usize]).clone())),
        );
        do_query(s, 0, &c, 100, 0, *col, dist, hits);
        do_query(s, 4, &c, 100, 0, *col, dist, hits);
    }
}
fn sync_step(s: &mut Scen, what: &str) {
    let post = s.refresh();
    s.steps.push(format!("SSync {}", dump_coq(&post)));
    s.human.push(what.to_string());
}
/// Tiny B-tree entry budget, indexes created on the EMPTY table, few distinct values (shared keys),
/// statements that fail half-way, outside and inside transactions; after EVERY statement every
/// index-served query shape is compared with what the real evaluate selects on the real scan.
fn budget_scen(r: &mut Rng, w: &mut CaseWriter, dist: &mut Dist, hits: &mut Hits, fixed: Option<u64>) {
    let budget = fixed.unwrap_or_else(|| r.range(1, 3)) as usize;
    // c0: String or Int "tag", c1: Int
    let t0 = if fixed.is_some() || r.chance(1, 2) { 2u64 } else { 0 };
    let schema = vec![(t0, false), (0u64, r.chance(1, 3))];
    let mut s = new_scen_with(schema.clone(), Some(budget));
    dist.hit(&format!("budget.entries.{budget}"));
    let vals: Vec<Vec<V>> = vec![
        if t0 == 2 { vec![V::Str("x".into()), V::Str("y".into()), V::Str("z".into())] } else { vec![V::Int(1), V::Int(2), V::Int(3)] },
        vec![V::Int(1), V::Int(2), V::Int(3), V::Int(4)],
    ];
    // indexes on the empty table
    let mut idx_cols: Vec<(u64, u64)> = vec![];
    if fixed.is_some() {
        do_index(&mut s, 0, 0, dist);
        do_index(&mut s, 1, 1, dist);
        idx_cols = vec![(0, 0), (1, 1)];
    } else {
        for (col, kind) in [(0u64, 0u64), (1, 1), (0, 1), (1, 0)] {
            if r.chance(if kind == 1 && col == 1 { 9 } else { 5 }, 10) {
                do_index(&mut s, kind, col, dist);
                idx_cols.push((col, kind));
            }
        }
        if !idx_cols.iter().any(|(_, k)| *k == 1) {
            do_index(&mut s, 1, 1, dist);
            idx_cols.push((1, 1));
        }
    }
    let mut script: Vec<u64> = vec![]; // fixed demo script for the corpus scenario
    if fixed.is_some() {
        // rows (x,1) (x,1) (x,2); UPDATE SET c0='y', c1=3 WHERE _id = 1 is rejected (budget 2)
        for (a, b2) in [("x", 1), ("x", 1), ("x", 2)] {
            do_insert(&mut s, vec![V::Str(a.into()), V::Int(b2)], dist);
            index_shapes(&mut s, &idx_cols, &vals, r, dist, hits);
        }
        do_update(&mut s, &C::Cmp(0, ID_COL, V::Int(1)), vec![(0, V::Str("y".into())), (1, V::Int(3))], dist);
        index_shapes(&mut s, &idx_cols, &vals, r, dist, hits);
        // the same inside a transaction that is rolled back
        let tx = s.eng().begin_transaction();
        s.tx = Some(tx);
        do_update(&mut s, &C::Cmp(0, ID_COL, V::Int(2)), vec![(0, V::Str("z".into())), (1, V::Int(4))], dist);
        s.window = Some("open-tx-after-failed-statement");
        s.window_reported = false;
        index_shapes(&mut s, &idx_cols, &vals, r, dist, hits);
        s.window = None;
        let _ = s.eng().rollback(tx);
        s.tx = None;
        sync_step(&mut s, "rollback");
        index_shapes(&mut s, &idx_cols, &vals, r, dist, hits);
        script.push(1);
    }
    let nsteps = if fixed.is_some() { 0 } else { r.range(8, 16) };
    for _ in 0..nsteps {
        let k = r.below(100);
        // open / close a transaction now and then
        if s.tx.is_none() && k < 18 {
            let tx = s.eng().begin_transaction();
            s.tx = Some(tx);
            s.human.push("begin".into());
            dist.hit("budget.begin");
            continue;
        }
        if let Some(tx) = s.tx {
            if k < 30 {
                let commit = r.chance(1, 2);
                let ok = if commit { s.eng().commit(tx).is_ok() } else { s.eng().rollback(tx).is_ok() };
                s.tx = None;
                dist.hit(if commit { "budget.commit" } else { "budget.rollback" });
                sync_step(&mut s, &format!("{}->{}", if commit { "commit" } else { "rollback" }, ok));

                index_shapes(&mut s, &idx_cols, &vals, r, dist, hits);
                continue;
            }
        }
        let before = s.steps.len();
        if k < 55 || s.cur.len() < 2 {
            let v1 = if schema[1].1 && r.chance(1, 6) { V::Null } else { r.pick(&vals[1]).clone() };
            do_insert(&mut s, vec![r.pick(&vals[0]).clone(), v1], dist);
        } else if k < 88 {
            // assign indexed columns; the condition picks one row or a few
            let c = if r.chance(1, 2) {
                C::Cmp(0, ID_COL, V::Int(r.range(1, s.cur.len().max(1) as u64) as i64))
            } else {
                let col = r.below(2);
                C::Cmp(*r.pick(&[0u64, 3, 5]), col, r.pick(&vals[col as usize]).clone())
            };
            let mut sets = vec![];
            if r.chance(2, 3) {
                sets.push((0u64, r.pick(&vals[0]).clone()));
            }
            if sets.is_empty() || r.chance(2, 3) {
                sets.push((1u64, r.pick(&vals[1]).clone()));
            }
            do_update(&mut s, &c, sets, dist);
        } else {
            let col = r.below(2);
            let c = C::Cmp(0, col, r.pick(&vals[col as usize]).clone());
            do_delete(&mut s, &c, dist);
        }
        // a statement that failed (rejected / ran out of entries)?
        let _ = before;
        if s.last_failed {
            dist.hit("budget.failed_statement");
            if let Some(tx) = s.tx {
                s.window = Some("open-tx-after-failed-statement");
                s.window_reported = false;
                index_shapes(&mut s, &idx_cols, &vals, r, dist, hits);
                s.window = None;
                // a client rolls the transaction back after a failed statement
                let ok = s.eng().rollback(tx).is_ok();
                s.tx = None;
                dist.hit("budget.rollback_after_failure");
                sync_step(&mut s, &format!("rollback after failed statement->{ok}"));

            }
        }
        index_shapes(&mut s, &idx_cols, &vals, r, dist, hits);
    }
    if let Some(tx) = s.tx {
        let ok = s.eng().rollback(tx).is_ok();
        s.tx = None;
        sync_step(&mut s, &format!("rollback (end)->{ok}"));

        index_shapes(&mut s, &idx_cols, &vals, r, dist, hits);
    }
    let _ = script;
    s.nontrivial = true;
    finish(&s, w, if fixed.is_some() { "corpus budget: update fails on the B-tree entry budget" } else { "budget" });
}

fn random_scen(r: &mut Rng, w: &mut CaseWriter, dist: &mut Dist, hits: &mut Hits, big: bool) {
    let ncols = r.range(1, 3) as usize;
    let schema: Vec<(u64, bool)> = (0..ncols)
        .map(|_| {
            let ty = *r.pick(&[0u64, 0, 0, 1, 1, 1, 2, 2, 3]);
            (ty, r.chance(1, 2))
        })
        .collect();
    dist.hit(&format!("schema.cols.{ncols}"));
    let mut s = new_scen(schema.clone());
    let nsteps = if big { r.range(70, 140) } else { r.range(4, 14) };
    for _ in 0..nsteps {
        let k = r.below(100);
        if k < 45 || s.cur.len() < 2 {
            let vals: Vec<V> = schema.iter().map(|(ty, nl)| if *nl && r.chance(1, 4) { V::Null } else { gen_val(r, *ty) }).collect();
            do_insert(&mut s, vals, dist);
        } else if k < 55 {
            let c = gen_cond(r, &schema, 1, dist);
            let col = r.below(ncols as u64);
            let (ty, nl) = schema[col as usize];
            let v = if nl && r.chance(1, 4) { V::Null } else { gen_val(r, ty) };
            do_update(&mut s, &c, vec![(col, v)], dist);
        } else if k < 62 {
            let c = gen_cond(r, &schema, 1, dist);
            do_delete(&mut s, &c, dist);
        } else if k < 74 {
            let col = if r.chance(1, 8) { ID_COL } else { r.below(ncols as u64) };
            let kd = r.below(2);
            do_index(&mut s, kd, col, dist);
        } else if k < 78 {
            let col = r.below(ncols as u64);
            let kd = 2 + r.below(2);
            do_index(&mut s, kd, col, dist);
        } else {
            let c = gen_cond(r, &schema, 2, dist);
            if big {
                let strat = r.below(12);
                let lim = *r.pick(&[0u64, 1, 3, 70, 200]);
                let off = *r.pick(&[0u64, 0, 1, 63, 65]);
                if !(strat == 8 && c.has_true()) {
                    let qc = r.below(ncols as u64);
                    do_query(&mut s, strat, &c, lim, off, qc, dist, hits);
                }
            } else {
                all_strategies(&mut s, &c, r, dist, hits);
            }
        }
    }
    // a final sweep: every leaf operator on every column under every strategy
    if !big {
        for _ in 0..2 {
            let c = gen_cond(r, &schema, 1, dist);
            all_strategies(&mut s, &c, r, dist, hits);
        }
    }
    dist.hit(&format!("scen.rows.{}", (s.cur.len() / 4) * 4));
    finish(&s, w, if big { "random-wide" } else { "random" });
}

fn neumann_parser_probe(s: &str) -> String { format!("{:?}", neumann_parser::parse(s).map(|st| match st.kind { neumann_parser::StatementKind::Select(x) => format!("{:?}", x.where_clause.map(|w| w.kind)), _ => String::new() })) }
fn main() {
    let args = Args::parse();
    if let Ok(sql) = std::env::var("NV_SQL") {
        let mut d = Dist::default();
        let mut s = new_scen(vec![(0, false), (2, false)]);
        do_insert(&mut s, vec![V::Int(3), V::Str("x".into())], &mut d);
        do_insert(&mut s, vec![V::Int(4), V::Str("b".into())], &mut d);
        println!("{:?}", neumann_parser_probe(&sql));
        println!("{:?}", s.router.execute(&sql));
        return;
    }
    quiet_panics();
    let mut rng = Rng::new(args.seed);
    let mut dist = Dist::default();
    let mut hits = Hits::default();
    let mut w = CaseWriter::new(&args.out, "scen");
    corpus(&mut w, &mut dist, &mut hits, &mut rng);
    let nspecial = args.budget(20, 1500);
    for _ in 0..nspecial {
        special_scen(&mut rng, &mut w, &mut dist, &mut hits);
    }
    let nscen = args.budget(190, 12000);
    for _ in 0..nscen {
        random_scen(&mut rng, &mut w, &mut dist, &mut hits, false);
    }
    // tables wider than one 64-bit bitmap word (SIMD chunks of 4, word boundary at 64)
    let nbig = args.budget(6, 200);
    for _ in 0..nbig {
        random_scen(&mut rng, &mut w, &mut dist, &mut hits, true);
    }
    // engines with a tiny B-tree entry budget (own case kind: judged by the oracle alone)
    let mut wb = CaseWriter::new(&args.out, "budget");
    budget_scen(&mut rng, &mut wb, &mut dist, &mut hits, Some(2));
    let nbudget = args.budget(60, 3000);
    for _ in 0..nbudget {
        budget_scen(&mut rng, &mut wb, &mut dist, &mut hits, None);
    }
    write_meta(
        &args.out,
        json!({
            "property": "C04", "seed": args.seed, "tier": args.tier,
            "kinds": [w.summary(), wb.summary()],
            "distribution": dist.json(),
            "hits": hits.0,
            "nontrivial_rule": "a DML step touches at least one row, or a query selects a proper non-empty subset of the table",
        }),
    );
}
