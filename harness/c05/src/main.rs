//! C05 correspondence harness: drives the real `GraphEngine` (graph_engine/src/lib.rs over
//! tensor_store's metadata slab) with structural operations, sequentially and from 2-8 threads, and
//! writes what the PUBLIC reads return as Gallina terms for NV.C05.Run:
//!   seq  : (ops, [(result, observation)] after every op)          -> check_seq
//!   conc : (mode, setup ops, threads [[(op, result)]], observation at quiescence) -> check_conc
//! An observation = all_nodes ids, all_edges (id, from, to, directed) and per node
//! edges_of(Outgoing/Incoming) ids, out_degree, in_degree, neighbors(Outgoing/Incoming/Both) ids.
use graph_engine::{Constraint, ConstraintTarget, ConstraintType, Direction, EdgeInput, GraphEngine, GraphError, PropertyValue, PropertyValueType};
use nvh_common::*;
use std::collections::HashMap;
use std::cell::Cell;
use std::sync::{Arc, Barrier, Condvar, Mutex};
use std::time::Duration;

#[derive(Clone, Debug, PartialEq)]
enum Op {
    CreateNode,
    CreateEdge(u64, u64, bool),
    CreateEdgeId(u64, u64, u64, bool),
    DeleteEdge(u64),
    DeleteNode(u64),
    UpdateNode(u64),
    UpdateEdge(u64),
    Batch(Vec<(u64, u64, bool)>),
    Rejected,
    Reopen,
}
#[derive(Clone, Debug, PartialEq)]
enum Res {
    Id(u64),
    Ids(Vec<u64>),
    Rejected,
    Ok,
    NoNode(u64),
    NoEdge(u64),
    Err,
}
impl Op {
    fn coq(&self) -> String {
        match self {
            Op::CreateNode => "CreateNode".into(),
            Op::CreateEdge(f, t, d) => format!("CreateEdge {f} {t} {}", b(*d)),
            Op::CreateEdgeId(e, f, t, d) => format!("CreateEdgeId {e} {f} {t} {}", b(*d)),
            Op::DeleteEdge(e) => format!("DeleteEdge {e}"),
            Op::DeleteNode(x) => format!("DeleteNode {x}"),
            Op::UpdateNode(x) => format!("UpdateNode {x}"),
            Op::UpdateEdge(e) => format!("UpdateEdge {e}"),
            Op::Rejected => "Rejected".into(),
            Op::Reopen => "Reopen".into(),
            Op::Batch(v) => format!("BatchCreateEdges {}", list(v.iter().map(|(f, t, d)| format!("({f}, {t}, {})", b(*d))))),
        }
    }
}
impl Res {
    fn coq(&self) -> String {
        match self {
            Res::Id(i) => format!("RId {i}"),
            Res::Rejected => "RRejected".into(),
            Res::Ids(v) => format!("RIds {}", list(v.iter().map(|x| n(*x)))),
            Res::Ok => "ROk".into(),
            Res::NoNode(x) => format!("RNoNode {x}"),
            Res::NoEdge(x) => format!("RNoEdge {x}"),
            Res::Err => "RErr".into(),
        }
    }
}
fn unit(r: Result<(), GraphError>) -> Res {
    match r {
        Ok(()) => Res::Ok,
        Err(GraphError::NodeNotFound(x)) => Res::NoNode(x),
        Err(GraphError::EdgeNotFound(x)) => Res::NoEdge(x),
        Err(GraphError::ConstraintViolation { .. }) => Res::Rejected,
        Err(_) => Res::Err,
    }
}
fn ident(r: Result<u64, GraphError>) -> Res {
    match r {
        Ok(i) => Res::Id(i),
        Err(GraphError::NodeNotFound(x)) => Res::NoNode(x),
        Err(GraphError::EdgeNotFound(x)) => Res::NoEdge(x),
        Err(GraphError::ConstraintViolation { .. }) => Res::Rejected,
        Err(_) => Res::Err,
    }
}
fn apply(e: &GraphEngine, o: &Op, salt: u64) -> Res {
    match o {
        Op::CreateNode => ident(e.create_node("N", HashMap::new())),
        Op::CreateEdge(f, t, d) | Op::CreateEdgeId(_, f, t, d) => ident(e.create_edge(*f, *t, if salt % 3 == 0 { "U" } else { "T" }, HashMap::new(), *d)),
        Op::DeleteEdge(x) => unit(e.delete_edge(*x)),
        Op::DeleteNode(x) => unit(e.delete_node(*x)),
        Op::UpdateNode(x) => {
            let mut p = HashMap::new();
            p.insert("v".to_string(), PropertyValue::Int(salt as i64));
            unit(e.update_node(*x, None, p))
        }
        Op::UpdateEdge(x) => {
            let mut p = HashMap::new();
            p.insert("v".to_string(), PropertyValue::Int(salt as i64));
            unit(e.update_edge(*x, p))
        }
        Op::Rejected => Res::Rejected,
        Op::Reopen => Res::Ok, // handled by the caller (needs to replace the engine)
        Op::Batch(v) => {
            let inputs: Vec<EdgeInput> = v.iter().map(|(f, t, d)| EdgeInput::new(*f, *t, "T", HashMap::new(), *d)).collect();
            match e.batch_create_edges(inputs) {
                Ok(r) => Res::Ids(r.created_ids),
                Err(GraphError::BatchValidationError { cause, .. }) => match *cause {
                    GraphError::NodeNotFound(x) => Res::NoNode(x),
                    GraphError::ConstraintViolation { .. } => Res::Rejected,
                    _ => Res::Err,
                },
                Err(_) => Res::Err,
            }
        }
    }
}

fn nl(xs: &[u64]) -> String {
    list(xs.iter().map(|x| n(*x)))
}
fn observe(e: &GraphEngine) -> String {
    let mut nodes: Vec<u64> = e.all_nodes().iter().map(|x| x.id).collect();
    nodes.sort();
    let edges = e.all_edges();
    let ids = |d: Direction, x: u64| -> Vec<u64> { e.edges_of(x, d).map(|v| v.iter().map(|y| y.id).collect()).unwrap_or_else(|_| vec![u64::MAX]) };
    let nb = |d: Direction, x: u64| -> Vec<u64> { e.neighbors(x, None, d, None).map(|v| v.iter().map(|y| y.id).collect()).unwrap_or_else(|_| vec![u64::MAX]) };
    let per = nodes.iter().map(|&x| {
        format!(
            "NO {} {} {} {} {} {} {} {}",
            x,
            nl(&ids(Direction::Outgoing, x)),
            nl(&ids(Direction::Incoming, x)),
            e.out_degree(x).map(|v| v as u64).unwrap_or(u64::MAX),
            e.in_degree(x).map(|v| v as u64).unwrap_or(u64::MAX),
            nl(&nb(Direction::Outgoing, x)),
            nl(&nb(Direction::Incoming, x)),
            nl(&nb(Direction::Both, x))
        )
    });
    // counts and point lookups agree with the scans
    let max_id = edges.iter().map(|x| x.id).max().unwrap_or(0) + 3;
    let mut ok = e.count_edges() as usize == edges.len() && e.edge_count() == edges.len() && e.count_nodes() as usize == nodes.len() && e.node_count() == nodes.len();
    for id in 1..=max_id {
        let listed = edges.iter().find(|x| x.id == id);
        match (e.get_edge(id), listed) {
            (Ok(g), Some(l)) => ok &= g.from == l.from && g.to == l.to && g.directed == l.directed,
            (Err(_), None) => {}
            _ => ok = false,
        }
    }
    // typed degrees: out/in_degree_by_type equal what the edge set implies, degree_by_type = out + in,
    // and the typed degrees add up to out_degree / in_degree / degree
    let mut types: Vec<String> = edges.iter().map(|x| x.edge_type.clone()).collect();
    types.sort();
    types.dedup();
    types.push("NO_SUCH_TYPE".to_string());
    for &x in &nodes {
        let (mut so, mut si, mut sd) = (0usize, 0usize, 0usize);
        for t in &types {
            let eo = edges.iter().filter(|g| &g.edge_type == t && (g.from == x || (!g.directed && g.to == x))).count();
            let ei = edges.iter().filter(|g| &g.edge_type == t && (g.to == x || (!g.directed && g.from == x))).count();
            let (o, i, d) = (e.out_degree_by_type(x, t).unwrap_or(usize::MAX), e.in_degree_by_type(x, t).unwrap_or(usize::MAX), e.degree_by_type(x, t).unwrap_or(usize::MAX));
            ok &= o == eo && i == ei && d == eo + ei;
            so += o;
            si += i;
            sd += d;
        }
        ok &= Some(so) == e.out_degree(x).ok() && Some(si) == e.in_degree(x).ok() && Some(sd) == e.degree(x).ok();
    }
    format!(
        "(OB {} {} {} {})",
        nl(&nodes),
        list(edges.iter().map(|x| format!("({}, ER {} {} {})", x.id, x.from, x.to, b(x.directed)))),
        list(per),
        b(ok)
    )
}

/// the model operation a call stands for: a call refused with ConstraintViolation is `Rejected`
fn model_op(o: &Op, r: &Res) -> Op {
    if *r == Res::Rejected { Op::Rejected } else { o.clone() }
}

fn pv(k: &Option<i64>, as_string: bool) -> HashMap<String, PropertyValue> {
    let mut m = HashMap::new();
    if let Some(k) = k {
        m.insert("k".to_string(), if as_string { PropertyValue::String(format!("s{k}")) } else { PropertyValue::Int(*k) });
    }
    m
}

/// Sequences on an engine WITH constraints (Unique / Exists / PropertyType on edge property k, Unique /
/// Exists on node property k): many creations, updates and batches are refused. Every call is
/// observed; a refused call must change nothing.
fn constrained_seq_case(r: &mut Rng, tag: &str, w: &mut CaseWriter, dist: &mut Dist) {
    let e = GraphEngine::new();
    let mut defs = vec![];
    let cons: Vec<(&str, ConstraintTarget, ConstraintType)> = vec![
        ("edge_unique_T", ConstraintTarget::EdgeType("T".into()), ConstraintType::Unique),
        ("edge_exists_U", ConstraintTarget::EdgeType("U".into()), ConstraintType::Exists),
        ("edge_type_all", ConstraintTarget::AllEdges, ConstraintType::PropertyType(PropertyValueType::Int)),
        ("edge_unique_all", ConstraintTarget::AllEdges, ConstraintType::Unique),
        ("node_unique_N", ConstraintTarget::NodeLabel("N".into()), ConstraintType::Unique),
        ("node_exists_M", ConstraintTarget::NodeLabel("M".into()), ConstraintType::Exists),
    ];
    for (name, target, ct) in cons {
        if r.chance(2, 3) {
            let _ = e.create_constraint(Constraint { name: name.to_string(), target, property: "k".to_string(), constraint_type: ct });
            defs.push(name);
        }
    }
    let mut ops: Vec<Op> = vec![];
    let mut items = vec![];
    let mut descr = vec![];
    let mut nc = 0u64;
    let mut ec = 0u64;
    let mut rejected = 0;
    let len = r.range(8, 26);
    for i in 0..len {
        let k = if r.chance(1, 4) { None } else { Some(r.below(4) as i64) };
        let as_string = r.chance(1, 6);
        let ty = if r.chance(1, 2) { "T" } else { "U" };
        let c = r.below(100);
        let (o, res): (Op, Res) = if c < 22 || nc < 2 {
            let label = if r.chance(1, 2) { "N" } else { "M" };
            descr.push(format!("create_node({label},k={k:?})"));
            (Op::CreateNode, ident(e.create_node(label, pv(&k, false))))
        } else if c < 62 {
            let f = r.range(1, nc + 1);
            let t = if r.chance(1, 6) { f } else { r.range(1, nc + 1) };
            let d = r.chance(1, 2);
            descr.push(format!("create_edge({f},{t},{ty},k={k:?}{},{d})", if as_string { " as string" } else { "" }));
            (Op::CreateEdge(f, t, d), ident(e.create_edge(f, t, ty, pv(&k, as_string), d)))
        } else if c < 72 {
            let v: Vec<(u64, u64, bool)> = (0..r.range(1, 3)).map(|_| (r.range(1, nc), r.range(1, nc), r.chance(1, 2))).collect();
            let inputs: Vec<EdgeInput> = v.iter().map(|(f, t, d)| EdgeInput::new(*f, *t, ty, pv(&(if r.chance(1, 3) { None } else { Some(r.below(4) as i64) }), false), *d)).collect();
            descr.push(format!("batch_create_edges({v:?},{ty})"));
            let res = match e.batch_create_edges(inputs) {
                Ok(x) => Res::Ids(x.created_ids),
                Err(GraphError::BatchValidationError { cause, .. }) | Err(GraphError::BatchCreationError { cause, .. }) => match *cause {
                    GraphError::NodeNotFound(x) => Res::NoNode(x),
                    GraphError::ConstraintViolation { .. } => Res::Rejected,
                    _ => Res::Err,
                },
                Err(GraphError::ConstraintViolation { .. }) => Res::Rejected,
                Err(_) => Res::Err,
            };
            (Op::Batch(v), res)
        } else if c < 80 {
            let x = r.range(1, ec + 1);
            descr.push(format!("update_edge({x},k={k:?})"));
            (Op::UpdateEdge(x), unit(e.update_edge(x, pv(&k, as_string))))
        } else if c < 86 {
            let x = r.range(1, nc + 1);
            descr.push(format!("update_node({x},k={k:?})"));
            (Op::UpdateNode(x), unit(e.update_node(x, None, pv(&k, false))))
        } else if c < 94 {
            let x = r.range(1, ec + 1);
            descr.push(format!("delete_edge({x})"));
            (Op::DeleteEdge(x), unit(e.delete_edge(x)))
        } else {
            let x = r.range(1, nc + 1);
            descr.push(format!("delete_node({x})"));
            (Op::DeleteNode(x), unit(e.delete_node(x)))
        };
        match &res {
            Res::Id(x) => {
                if matches!(o, Op::CreateNode) { nc = nc.max(*x) } else { ec = ec.max(*x) }
            }
            Res::Ids(v) => ec = v.iter().copied().fold(ec, u64::max),
            Res::Rejected => {
                rejected += 1;
                dist.hit(match o { Op::CreateNode => "cseq.rejected.create_node", Op::CreateEdge(..) => "cseq.rejected.create_edge", Op::Batch(_) => "cseq.rejected.batch_create_edges", Op::UpdateEdge(_) => "cseq.rejected.update_edge", Op::UpdateNode(_) => "cseq.rejected.update_node", _ => "cseq.rejected.other" });
            }
            _ => {}
        }
        let _ = i;
        ops.push(model_op(&o, &res));
        items.push(format!("({}, {})", res.coq(), observe(&e)));
    }
    dist.hit("cseq.sequences");
    let term = format!("({}, {})", list(ops.iter().map(|o| o.coq())), list(items));
    w.push(&term, &format!("{tag} constraints={:?} calls={:?}", defs, descr), rejected > 0);
}

/// fixed constrained script: Unique + Exists on edge type T; two accepted and two refused create_edge
/// calls, a refused batch, then delete_node
fn constrained_corpus_case(w: &mut CaseWriter) {
    let e = GraphEngine::new();
    for (name, ct) in [("u", ConstraintType::Unique), ("x", ConstraintType::Exists)] {
        let _ = e.create_constraint(Constraint { name: name.to_string(), target: ConstraintTarget::EdgeType("T".into()), property: "k".to_string(), constraint_type: ct });
    }
    let mut ops = vec![];
    let mut items = vec![];
    let mut step = |o: Op, res: Res, e: &GraphEngine| {
        ops.push(model_op(&o, &res));
        items.push(format!("({}, {})", res.coq(), observe(e)));
    };
    let r = ident(e.create_node("N", HashMap::new())); step(Op::CreateNode, r, &e);
    let r = ident(e.create_node("N", HashMap::new())); step(Op::CreateNode, r, &e);
    let r = ident(e.create_edge(1, 2, "T", pv(&Some(1), false), true)); step(Op::CreateEdge(1, 2, true), r, &e);
    let r = ident(e.create_edge(2, 1, "T", pv(&Some(2), false), false)); step(Op::CreateEdge(2, 1, false), r, &e);
    let r = ident(e.create_edge(1, 2, "T", pv(&Some(1), false), true)); step(Op::CreateEdge(1, 2, true), r, &e); // duplicate k: refused
    let r = ident(e.create_edge(2, 1, "T", pv(&None, false), false)); step(Op::CreateEdge(2, 1, false), r, &e); // k missing: refused
    let inputs = vec![EdgeInput::new(1, 2, "T", pv(&Some(7), false), true), EdgeInput::new(1, 1, "T", pv(&Some(2), false), true)];
    let r = match e.batch_create_edges(inputs) {
        Ok(x) => Res::Ids(x.created_ids),
        Err(GraphError::BatchValidationError { cause, .. }) => if matches!(*cause, GraphError::ConstraintViolation { .. }) { Res::Rejected } else { Res::Err },
        Err(_) => Res::Err,
    };
    step(Op::Batch(vec![(1, 2, true), (1, 1, true)]), r, &e);
    let r = unit(e.delete_node(1)); step(Op::DeleteNode(1), r, &e);
    let term = format!("({}, {})", list(ops.iter().map(|o| o.coq())), list(items));
    w.push(&term, "corpus constrained: Unique+Exists(k) on edge type T; create_edge(1,2,k=1) ok, (2,1,k=2) ok, (1,2,k=1) refused, (2,1,no k) refused, batch [(1,2,k=7),(1,1,k=2)] refused, delete_node(1)", true);
}

/// traversal: build a graph, then traverse(start, dir, max_depth) from every node for every bound
fn trav_case(ops: &[Op], tag: &str, w: &mut CaseWriter) {
    let e = GraphEngine::new();
    for (i, o) in ops.iter().enumerate() {
        let _ = apply(&e, o, i as u64);
    }
    let mut nodes: Vec<u64> = e.all_nodes().iter().map(|x| x.id).collect();
    nodes.sort();
    let mut starts = nodes.clone();
    starts.push(nodes.iter().max().copied().unwrap_or(0) + 4);
    let mut qs = vec![];
    for st in &starts {
        for (di, d) in [Direction::Outgoing, Direction::Incoming, Direction::Both].iter().enumerate() {
            for depth in 0..=4u64 {
                let r = match e.traverse(*st, *d, depth as usize, None, None) {
                    Ok(ns) => {
                        let mut ids: Vec<u64> = ns.iter().map(|x| x.id).collect();
                        ids.sort();
                        format!("(Some {})", nl(&ids))
                    }
                    Err(_) => "None".into(),
                };
                qs.push(format!("({st}, {di}, {depth}, {r})"));
            }
        }
    }
    let term = format!("({}, {}, {})", list(ops.iter().map(|o| o.coq())), observe(&e), list(qs));
    w.push(&term, &format!("{tag} traverse from every node, 3 directions, max_depth 0..4; ops={:?}", ops), true);
}

/// graphs with several routes of different length to the same node (diamonds, cycles with chords)
fn gen_routes(r: &mut Rng) -> Vec<Op> {
    let nn = r.range(5, 10);
    let mut ops: Vec<Op> = (0..nn).map(|_| Op::CreateNode).collect();
    let undirected_share = *r.pick(&[0u64, 0, 1, 3]);
    let m = r.range(nn, 2 * nn);
    for _ in 0..m {
        let f = r.range(1, nn);
        let t = r.range(1, nn);
        ops.push(Op::CreateEdge(f, t, !r.chance(undirected_share, 6)));
    }
    // a long chain with shortcuts
    for i in 1..nn {
        if r.chance(1, 2) {
            ops.push(Op::CreateEdge(i, i + 1, true));
        }
    }
    if r.chance(1, 3) {
        ops.push(Op::DeleteEdge(r.range(1, m)));
    }
    if r.chance(1, 5) {
        ops.push(Op::DeleteNode(r.range(1, nn)));
    }
    ops
}

fn gen_seq(r: &mut Rng, dist: &mut Dist) -> Vec<Op> {
    let mut ops = vec![];
    let n0 = r.range(1, 5);
    for _ in 0..n0 {
        ops.push(Op::CreateNode);
    }
    let mut nc = n0; // node ids handed out so far
    let mut ec = 0u64; // upper bound of edge ids handed out so far
    let len = r.range(3, 22);
    for _ in 0..len {
        let k = r.below(100);
        let op = if k < 10 {
            nc += 1;
            Op::CreateNode
        } else if k < 16 {
            let m = r.below(4);
            let v: Vec<(u64, u64, bool)> = (0..m).map(|_| { let f = r.range(1, nc + 1); (f, if r.chance(1, 6) { f } else { r.range(1, nc + 1) }, r.chance(1, 2)) }).collect();
            ec += m;
            Op::Batch(v)
        } else if k < 55 {
            let f = r.range(1, nc + 1);
            let t = if r.chance(1, 6) { f } else { r.range(1, nc + 1) };
            ec += 1;
            Op::CreateEdge(f, t, r.chance(1, 2))
        } else if k < 73 {
            Op::DeleteEdge(r.range(1, ec + 1))
        } else if k < 85 {
            Op::DeleteNode(r.range(1, nc + 1))
        } else if k < 93 {
            Op::UpdateNode(r.range(1, nc + 1))
        } else {
            Op::UpdateEdge(r.range(1, ec + 1))
        };
        dist.hit(match &op {
            Op::CreateNode => "seq.create_node",
            Op::CreateEdge(f, t, d) => {
                if f == t {
                    "seq.create_edge.self_loop"
                } else if *d {
                    "seq.create_edge.directed"
                } else {
                    "seq.create_edge.undirected"
                }
            }
            Op::DeleteEdge(_) => "seq.delete_edge",
            Op::DeleteNode(_) => "seq.delete_node",
            Op::UpdateNode(_) => "seq.update_node",
            Op::UpdateEdge(_) => "seq.update_edge",
            Op::Batch(_) => "seq.batch_create_edges",
            _ => "seq.other",
        });
        ops.push(op);
    }
    ops
}

fn seq_case(ops: &[Op], tag: &str, w: &mut CaseWriter, dist: &mut Dist) {
    let mut e = GraphEngine::new();
    let mut items = vec![];
    let mut deleted_node_with_edges = false;
    for (i, o) in ops.iter().enumerate() {
        let before = if let Op::DeleteNode(x) = o { e.degree(*x).unwrap_or(0) } else { 0 };
        if matches!(o, Op::Reopen) {
            // a new engine over the same store (the path open_durable / recover take)
            e = GraphEngine::with_store(e.store().clone());
        }
        let res = guarded(std::panic::AssertUnwindSafe(|| apply(&e, o, i as u64))).unwrap_or(Res::Err);
        if matches!(o, Op::DeleteNode(_)) && res == Res::Ok && before > 0 {
            deleted_node_with_edges = true;
        }
        dist.hit(match res {
            Res::Id(_) | Res::Ids(_) | Res::Ok => "seq.result.ok",
            Res::NoNode(_) => "seq.result.node_not_found",
            Res::NoEdge(_) => "seq.result.edge_not_found",
            Res::Err => "seq.result.other_error",
            Res::Rejected => "seq.result.rejected",
        });
        items.push(format!("({}, {})", res.coq(), observe(&e)));
    }
    let term = format!("({}, {})", list(ops.iter().map(|o| o.coq())), list(items));
    w.push(&term, &format!("{tag} ops={:?}", ops), deleted_node_with_edges);
}

/// what a thread did, in the form the model replays: a creation carries the id it was given, a
/// successful batch becomes one creation per returned id
fn expand(o: &Op, r: &Res) -> Vec<(Op, Res)> {
    match (o, r) {
        (Op::CreateEdge(f, t, d), Res::Id(id)) => vec![(Op::CreateEdgeId(*id, *f, *t, *d), r.clone())],
        (Op::Batch(v), Res::Ids(ids)) if ids.len() == v.len() => {
            v.iter().zip(ids.iter()).map(|((f, t, d), id)| (Op::CreateEdgeId(*id, *f, *t, *d), Res::Id(*id))).collect()
        }
        (Op::Batch(_), Res::NoNode(_)) => vec![],
        _ => vec![(o.clone(), r.clone())],
    }
}

/// run `threads` (one op list each) behind a barrier on a shared engine; returns per-thread (op, result)
fn run_threads(e: &Arc<GraphEngine>, threads: Vec<Vec<Op>>) -> Vec<Vec<(Op, Res)>> {
    let bar = Arc::new(Barrier::new(threads.len()));
    let hs: Vec<_> = threads
        .into_iter()
        .enumerate()
        .map(|(ti, ops)| {
            let e = e.clone();
            let bar = bar.clone();
            std::thread::spawn(move || {
                bar.wait();
                let mut out = vec![];
                for (i, o) in ops.iter().enumerate() {
                    let res = guarded(std::panic::AssertUnwindSafe(|| apply(&e, o, (ti * 1000 + i) as u64))).unwrap_or(Res::Err);
                    out.extend(expand(o, &res));
                }
                out
            })
        })
        .collect();
    hs.into_iter().map(|h| h.join().unwrap_or_default()).collect()
}

fn conc_case(mode: u64, setup: &[Op], threads: Vec<Vec<Op>>, tag: &str, w: &mut CaseWriter) {
    let e = Arc::new(GraphEngine::new());
    for (i, o) in setup.iter().enumerate() {
        let _ = apply(&e, o, i as u64);
    }
    let nthreads = threads.len();
    let results = if threads.is_empty() { vec![] } else { run_threads(&e, threads) };
    let ob = observe(&e);
    let term = format!(
        "({}, {}, {}, {})",
        mode,
        list(setup.iter().map(|o| o.coq())),
        list(results.iter().map(|t| list(t.iter().map(|(o, r)| format!("({}, {})", o.coq(), r.coq()))))),
        ob
    );
    let total: usize = results.iter().map(|t| t.len()).sum();
    w.push(&term, &format!("{tag} mode={mode} threads={nthreads} thread_ops={total} setup_ops={}", setup.len()), nthreads >= 2 || setup.len() > 100);
}

thread_local! {
    static PAUSER: Cell<bool> = const { Cell::new(false) };
}

/// Deterministic two-thread schedule through the guarded hook `graph.adjacency_rmw` (between the
/// read of an adjacency list and its write-back): thread 1 runs `op1` and is held at its FIRST
/// such point until thread 2 has finished `op2` (or 400 ms have passed: with the per-key lock
/// thread 2 cannot get into the SAME list and simply waits for thread 1; other lists are free).
/// Returns both (op, result) pairs and whether thread 2 finished while thread 1 was held.
fn hooked_pair(e: &Arc<GraphEngine>, op1: &Op, op2: &Op) -> ((Op, Res), (Op, Res), bool) {
    let (a, bb, ov) = hooked_pair_at(e, "graph.adjacency_rmw", op1, op2);
    (a.into_iter().next().unwrap_or((op1.clone(), Res::Err)), bb.into_iter().next().unwrap_or((op2.clone(), Res::Err)), ov)
}

/// same, holding thread 1 at the first point called `point`; results in replayable form
fn hooked_pair_at(e: &Arc<GraphEngine>, point: &'static str, op1: &Op, op2: &Op) -> (Vec<(Op, Res)>, Vec<(Op, Res)>, bool) {
    // (thread 1 is at the hook, thread 2 is done)
    let st = Arc::new((Mutex::new((false, false)), Condvar::new()));
    let st_hook = st.clone();
    let overlapped = Arc::new(Mutex::new(false));
    let overlapped_hook = overlapped.clone();
    tensor_store::verif_hook::set(Some(Arc::new(move |name: &str| {
        if name != point || !PAUSER.with(|p| p.replace(false)) {
            return;
        }
        let (m, cv) = &*st_hook;
        let mut g = m.lock().unwrap();
        g.0 = true;
        cv.notify_all();
        let (g2, _timeout) = cv.wait_timeout_while(g, Duration::from_millis(400), |s| !s.1).unwrap();
        *overlapped_hook.lock().unwrap() = g2.1;
    })));
    let (e1, e2) = (e.clone(), e.clone());
    let st2 = st.clone();
    let o1 = op1.clone();
    let t1 = std::thread::spawn(move || {
        PAUSER.with(|p| p.set(true));
        let r = apply(&e1, &o1, 1);
        PAUSER.with(|p| p.set(false));
        r
    });
    let o2 = op2.clone();
    let t2 = std::thread::spawn(move || {
        let (m, cv) = &*st2;
        {
            let g = m.lock().unwrap();
            let _g = cv.wait_timeout_while(g, Duration::from_millis(2000), |s| !s.0).unwrap();
        }
        let r = apply(&e2, &o2, 2);
        let mut g = m.lock().unwrap();
        g.1 = true;
        cv.notify_all();
        r
    });
    let r1 = t1.join().unwrap_or(Res::Err);
    let r2 = t2.join().unwrap_or(Res::Err);
    tensor_store::verif_hook::set(None);
    let ov = *overlapped.lock().unwrap();
    (expand(op1, &r1), expand(op2, &r2), ov)
}

/// deterministic schedule for the id block of batch_create_edges: thread 1's batch is held after it
/// has read the edge counter and before it reserves its ids, thread 2 allocates ids meanwhile
fn batch_id_case(setup: &[Op], op1: Op, op2: Op, tag: &str, w: &mut CaseWriter) -> bool {
    let e = Arc::new(GraphEngine::new());
    for (i, o) in setup.iter().enumerate() {
        let _ = apply(&e, o, i as u64);
    }
    let (a, bb, ov) = hooked_pair_at(&e, "graph.batch_edge_ids", &op1, &op2);
    let ob = observe(&e);
    let pr = |t: &Vec<(Op, Res)>| list(t.iter().map(|(o, r)| format!("({}, {})", o.coq(), r.coq())));
    let term = format!("(0, {}, [{}; {}], {})", list(setup.iter().map(|o| o.coq())), pr(&a), pr(&bb), ob);
    w.push(&term, &format!("{tag} schedule: T1 {:?} held between reading the edge counter and reserving its id block, T2 {:?}; T2 finished while T1 was held: {ov}; T1 got {:?}, T2 got {:?}", op1, op2, a, bb), true);
    ov
}

fn scheduled_case(setup: &[Op], op1: Op, op2: Op, tag: &str, w: &mut CaseWriter) -> bool {
    let e = Arc::new(GraphEngine::new());
    for (i, o) in setup.iter().enumerate() {
        let _ = apply(&e, o, i as u64);
    }
    let ((o1, r1), (o2, r2), ov) = hooked_pair(&e, &op1, &op2);
    let ob = observe(&e);
    let term = format!(
        "(0, {}, [[({}, {})]; [({}, {})]], {})",
        list(setup.iter().map(|o| o.coq())),
        o1.coq(), r1.coq(), o2.coq(), r2.coq(), ob
    );
    w.push(&term, &format!("{tag} schedule: T1 {:?} held between list read and write-back, T2 {:?}; T2 finished while T1 was held: {ov}", op1, op2), true);
    ov
}

/// sequential tail after a concurrent phase: every op observed; written as a `mixed` case
fn mixed_case(e: &GraphEngine, setup: &[Op], threads: &[Vec<(Op, Res)>], tail: &[Op], tag: &str, w: &mut CaseWriter) {
    let mut items = vec![];
    for (i, o) in tail.iter().enumerate() {
        let res = guarded(std::panic::AssertUnwindSafe(|| apply(e, o, 5000 + i as u64))).unwrap_or(Res::Err);
        items.push(format!("({}, {})", res.coq(), observe(e)));
    }
    let term = format!(
        "({}, {}, {}, {})",
        list(setup.iter().map(|o| o.coq())),
        list(threads.iter().map(|t| list(t.iter().map(|(o, r)| format!("({}, {})", o.coq(), r.coq()))))),
        list(tail.iter().map(|o| o.coq())),
        list(items)
    );
    w.push(&term, &format!("{tag} setup={:?} threads={:?} tail={:?}", setup, threads, tail), true);
}

/// Adjacency lists in NON-ascending id order, built deterministically through the hook: thread 1
/// draws the smaller edge id and is held at its first list (node 1's), thread 2 draws the larger id
/// and appends it to node 2's lists first. Then every edge / node is deleted sequentially.
fn inversion_case(r: &mut Rng, rounds: u64, tag: &str, w: &mut CaseWriter, dist: &mut Dist) {
    let e = Arc::new(GraphEngine::new());
    let mut setup = vec![Op::CreateNode, Op::CreateNode, Op::CreateNode, Op::CreateNode];
    for _ in 0..r.range(0, 3) {
        setup.push(Op::CreateEdge(*r.pick(&[1u64, 3, 4]), 2, r.chance(1, 2)));
    }
    let mut nedges = 0u64;
    for (i, o) in setup.iter().enumerate() {
        if let Res::Id(x) = apply(&e, o, i as u64) {
            if matches!(o, Op::CreateEdge(..)) {
                nedges = nedges.max(x);
            }
        }
    }
    let mut threads: Vec<Vec<(Op, Res)>> = vec![vec![], vec![]];
    let mut inverted = 0;
    for _ in 0..rounds {
        let o1 = Op::CreateEdge(1, 2, r.chance(1, 2));
        let o2 = Op::CreateEdge(*r.pick(&[3u64, 4]), 2, r.chance(1, 2));
        let (a, bb, ov) = hooked_pair(&e, &o1, &o2);
        if let (Res::Id(x), Res::Id(y)) = (&a.1, &bb.1) {
            nedges = nedges.max(*x).max(*y);
            if ov && x < y {
                inverted += 1;
            }
        }
        threads[0].push(a);
        threads[1].push(bb);
    }
    dist.add("mixed.hook_rounds_with_larger_id_appended_first", inverted);
    let mut ids: Vec<u64> = (1..=nedges).collect();
    r.shuffle(&mut ids);
    let mut tail: Vec<Op> = ids.iter().map(|x| Op::DeleteEdge(*x)).collect();
    if r.chance(1, 2) {
        let pos = r.below(tail.len() as u64 + 1) as usize;
        tail.insert(pos, Op::DeleteNode(2));
    }
    mixed_case(&e, &setup, &threads, &tail, tag, w);
}

/// stress variant: several threads create edges on one hub, then sequential deletions
fn stress_then_delete_case(r: &mut Rng, t: u64, tag: &str, w: &mut CaseWriter) {
    let e = Arc::new(GraphEngine::new());
    let spokes = r.range(2, 4);
    let mut setup = vec![Op::CreateNode];
    for _ in 0..spokes {
        setup.push(Op::CreateNode);
    }
    for (i, o) in setup.iter().enumerate() {
        let _ = apply(&e, o, i as u64);
    }
    let k = r.range(6, 12);
    let threads: Vec<Vec<Op>> = (0..t)
        .map(|_| {
            (0..k)
                .map(|_| {
                    let s = r.range(2, spokes + 1);
                    let d = r.chance(1, 2);
                    if r.chance(1, 2) { Op::CreateEdge(1, s, d) } else { Op::CreateEdge(s, 1, d) }
                })
                .collect()
        })
        .collect();
    let results = run_threads(&e, threads);
    let total = t * k;
    let mut ids: Vec<u64> = (1..=total).collect();
    r.shuffle(&mut ids);
    ids.truncate(r.range(8, 16).min(total) as usize);
    let mut tail: Vec<Op> = ids.iter().map(|x| Op::DeleteEdge(*x)).collect();
    tail.push(Op::DeleteNode(r.range(1, spokes + 1)));
    mixed_case(&e, &setup, &results, &tail, tag, w);
}

fn main() {
    let args = Args::parse();
    quiet_panics();
    let mut rng = Rng::new(args.seed);
    let mut dist = Dist::default();

    // ---------------------------------------------------------------- sequential traces
    let mut seq = CaseWriter::new(&args.out, "seq");
    // corpus: self-loops, parallel edges, undirected edges, node deletion with incident edges
    let corpus: Vec<Vec<Op>> = vec![
        vec![Op::CreateNode, Op::CreateNode, Op::CreateEdge(1, 2, true), Op::CreateEdge(1, 2, true), Op::CreateEdge(2, 1, false), Op::CreateEdge(1, 1, false),
             Op::CreateEdge(1, 1, true), Op::DeleteEdge(2), Op::DeleteNode(1), Op::DeleteNode(1), Op::DeleteEdge(1)],
        vec![Op::CreateNode, Op::CreateNode, Op::CreateNode, Op::CreateEdge(1, 2, false), Op::CreateEdge(2, 3, true), Op::CreateEdge(3, 1, true),
             Op::CreateEdge(2, 2, false), Op::DeleteNode(2), Op::CreateEdge(1, 2, true), Op::CreateEdge(3, 1, false), Op::UpdateEdge(3), Op::DeleteEdge(3), Op::UpdateNode(2)],
    ];
    for (i, ops) in corpus.iter().enumerate() {
        seq_case(ops, &format!("corpus#{i}"), &mut seq, &mut dist);
    }
    constrained_corpus_case(&mut seq);
    let nseq = args.budget(260, 8000);
    for i in 0..nseq {
        let ops = gen_seq(&mut rng, &mut dist);
        seq_case(&ops, &format!("seq#{i}"), &mut seq, &mut dist);
    }

    // reopen: >= 10 (sometimes >= 100) edges and nodes, a few deletions, GraphEngine::with_store on the same
    // store, then further creations (ids must not collide with live ones)
    for i in 0..args.budget(8, 200) {
        let big = i % 4 == 3;
        let nn = if big { rng.range(3, 5) } else { rng.range(10, 13) };
        let m = if big { rng.range(100, 112) } else { rng.range(10, 16) };
        let mut ops: Vec<Op> = (0..nn).map(|_| Op::CreateNode).collect();
        for _ in 0..m {
            ops.push(Op::CreateEdge(rng.range(1, nn), rng.range(1, nn), rng.chance(1, 2)));
        }
        for _ in 0..rng.below(3) {
            ops.push(Op::DeleteEdge(rng.range(1, m)));
        }
        if rng.chance(1, 3) {
            ops.push(Op::DeleteNode(rng.range(1, nn)));
        }
        ops.push(Op::Reopen);
        for _ in 0..rng.range(3, 6) {
            ops.push(if rng.chance(1, 3) { Op::CreateNode } else { Op::CreateEdge(rng.range(1, nn), rng.range(1, nn), rng.chance(1, 2)) });
        }
        if rng.chance(1, 2) {
            ops.push(Op::Reopen);
            ops.push(Op::CreateEdge(rng.range(1, nn), rng.range(1, nn), true));
            ops.push(Op::CreateNode);
        }
        seq_case(&ops, &format!("reopen#{i}"), &mut seq, &mut dist);
        dist.hit(if big { "seq.reopen_after_100_edges" } else { "seq.reopen_after_10_edges_and_nodes" });
    }

    // constrained sequences (refused calls) go into the same `seq` stream
    for i in 0..args.budget(70, 3000) {
        constrained_seq_case(&mut rng, &format!("cseq#{i}"), &mut seq, &mut dist);
    }

    // ---------------------------------------------------------------- traversal
    let mut trav = CaseWriter::new(&args.out, "trav");
    {
        // corpus: s=1 a=2 d=3 b=4 e=5 t1=6 t2=7 u1=8 u2=9; t1 and t2 each have a 3-hop and a 2-hop route
        let mut ops: Vec<Op> = (0..9).map(|_| Op::CreateNode).collect();
        for (x, y) in [(1, 2), (1, 3), (2, 4), (4, 6), (3, 6), (6, 8), (3, 5), (5, 7), (2, 7), (7, 9)] {
            ops.push(Op::CreateEdge(x, y, true));
        }
        trav_case(&ops, "corpus two mirrored diamonds", &mut trav);
        // the same with undirected edges and a chord
        let mut ops2: Vec<Op> = (0..9).map(|_| Op::CreateNode).collect();
        for (x, y) in [(1, 2), (1, 3), (2, 4), (4, 6), (3, 6), (6, 8), (3, 5), (5, 7), (2, 7), (7, 9), (8, 9)] {
            ops2.push(Op::CreateEdge(x, y, false));
        }
        trav_case(&ops2, "corpus mirrored diamonds undirected", &mut trav);
        for i in 0..args.budget(40, 1500) {
            let ops = gen_routes(&mut rng);
            trav_case(&ops, &format!("routes#{i}"), &mut trav);
            dist.hit("trav.graphs");
        }
    }

    // ---------------------------------------------------------------- concurrent runs
    let mut conc = CaseWriter::new(&args.out, "conc");
    // corpus F-C05-rmw: 8 threads x 50 create_edge(hub, spoke_i)
    {
        let mut setup = vec![Op::CreateNode];
        for _ in 0..50 {
            setup.push(Op::CreateNode);
        }
        let threads: Vec<Vec<Op>> = (0..8).map(|_| (0..50).map(|i| Op::CreateEdge(1, 2 + i, true)).collect()).collect();
        conc_case(0, &setup, threads, "corpus F-C05-rmw hub 8x50", &mut conc);
        dist.hit("conc.hub_create");
    }
    // deterministic schedules through the hook: the lost-update interleaving of C05_lost_update_refuted
    {
        let setup = vec![Op::CreateNode, Op::CreateNode, Op::CreateNode, Op::CreateEdge(1, 2, false), Op::CreateEdge(3, 1, true)];
        let mut overlapped = 0;
        for (o1, o2) in [
            (Op::CreateEdge(1, 2, true), Op::CreateEdge(1, 3, true)),
            (Op::CreateEdge(1, 2, false), Op::CreateEdge(3, 1, false)),
            (Op::DeleteEdge(1), Op::CreateEdge(1, 3, true)),
            (Op::CreateEdge(2, 1, true), Op::DeleteEdge(2)),
        ] {
            if scheduled_case(&setup, o1, o2, "hook schedule", &mut conc) {
                overlapped += 1;
            }
            dist.hit("conc.hook_schedule");
        }
        dist.add("conc.hook_schedule.t2_finished_inside_t1_rmw", overlapped);
    }
    // batch_create_edges racing single creations for edge ids: deterministic through the hook, then stress
    {
        let setup = vec![Op::CreateNode, Op::CreateNode, Op::CreateNode, Op::CreateEdge(1, 2, true)];
        let mut overlapped = 0;
        for (o1, o2) in [
            (Op::Batch(vec![(1, 2, true), (1, 3, false)]), Op::CreateEdge(3, 1, true)),
            (Op::Batch(vec![(2, 3, false)]), Op::Batch(vec![(3, 1, true), (1, 1, false)])),
            (Op::Batch(vec![(1, 2, true), (2, 3, true), (3, 1, true)]), Op::CreateEdge(2, 2, false)),
        ] {
            if batch_id_case(&setup, o1, o2, "hook schedule batch ids", &mut conc) {
                overlapped += 1;
            }
            dist.hit("conc.hook_schedule_batch_ids");
        }
        dist.add("conc.hook_schedule_batch_ids.t2_allocated_inside_t1_window", overlapped);
        for t in [2u64, 4, 8] {
            for rep in 0..args.budget(1, 10) {
                let nn = rng.range(3, 6);
                let mut setup = vec![];
                for _ in 0..nn {
                    setup.push(Op::CreateNode);
                }
                let threads: Vec<Vec<Op>> = (0..t)
                    .map(|ti| {
                        (0..rng.range(30, 60))
                            .map(|_| {
                                if ti % 4 == 3 || rng.chance(1, 4) {
                                    Op::CreateEdge(rng.range(1, nn), rng.range(1, nn), rng.chance(1, 2))
                                } else {
                                    Op::Batch((0..rng.range(1, 3)).map(|_| (rng.range(1, nn), rng.range(1, nn), rng.chance(1, 2))).collect())
                                }
                            })
                            .collect()
                    })
                    .collect();
                conc_case(0, &setup, threads, &format!("batch + single creations t={t} rep={rep}"), &mut conc);
                dist.hit(&format!("conc.batch_and_single_creations.threads_{t}"));
            }
        }
    }
    // delete_node above PARALLEL_THRESHOLD (rayon branch) with many edges to the same few neighbours
    for rep in 0..args.budget(3, 30) {
        let mut setup = vec![Op::CreateNode, Op::CreateNode, Op::CreateNode, Op::CreateNode];
        let m = 110 + rng.below(60);
        for _ in 0..m {
            let spoke = rng.range(2, 4);
            let d = rng.chance(1, 2);
            if rng.chance(1, 2) {
                setup.push(Op::CreateEdge(1, spoke, d));
            } else {
                setup.push(Op::CreateEdge(spoke, 1, d));
            }
        }
        setup.push(Op::CreateEdge(2, 3, true));
        setup.push(Op::DeleteNode(1));
        conc_case(0, &setup, vec![], &format!("delete_node rayon branch #{rep}"), &mut conc);
        dist.hit("conc.delete_node_parallel_branch");
    }
    let reps = args.budget(2, 40);
    for t in 2..=8u64 {
        for rep in 0..reps {
            // (a) hub: every thread adds edges between the hub and the spokes (directed/undirected, both ways)
            let spokes = rng.range(2, 6);
            let mut setup = vec![Op::CreateNode];
            for _ in 0..spokes {
                setup.push(Op::CreateNode);
            }
            let k = rng.range(20, 50);
            let threads: Vec<Vec<Op>> = (0..t)
                .map(|_| {
                    (0..k)
                        .map(|_| {
                            let s = rng.range(2, spokes + 1);
                            let d = rng.chance(1, 2);
                            if rng.chance(1, 2) { Op::CreateEdge(1, s, d) } else { Op::CreateEdge(s, 1, d) }
                        })
                        .collect()
                })
                .collect();
            conc_case(0, &setup, threads, &format!("hub t={t} rep={rep}"), &mut conc);
            dist.hit(&format!("conc.hub_create.threads_{t}"));

            // (b) creations on overlapping nodes + deletions of setup edges (each by one thread only)
            let nn = rng.range(3, 6);
            let mut setup = vec![];
            for _ in 0..nn {
                setup.push(Op::CreateNode);
            }
            let pre = rng.range(10, 30);
            for _ in 0..pre {
                let f = rng.range(1, nn);
                let to = if rng.chance(1, 8) { f } else { rng.range(1, nn) };
                setup.push(Op::CreateEdge(f, to, rng.chance(1, 2)));
            }
            let mut threads: Vec<Vec<Op>> = (0..t).map(|_| vec![]).collect();
            for eid in 1..=pre {
                if rng.chance(2, 3) {
                    let who = rng.below(t) as usize;
                    threads[who].push(Op::DeleteEdge(eid));
                }
            }
            for th in threads.iter_mut() {
                for _ in 0..rng.range(10, 30) {
                    let f = rng.range(1, nn);
                    let to = if rng.chance(1, 8) { f } else { rng.range(1, nn) };
                    let pos = rng.below(th.len() as u64 + 1) as usize;
                    th.insert(pos, Op::CreateEdge(f, to, rng.chance(1, 2)));
                }
            }
            conc_case(0, &setup, threads, &format!("mixed create/delete t={t} rep={rep}"), &mut conc);
            dist.hit(&format!("conc.create_delete_edges.threads_{t}"));
        }
    }

    // mode 1: operation mixes whose outcome depends on the interleaving (oracle only)
    for t in 2..=8u64 {
        for rep in 0..reps {
            // (c) node deletions racing edge creations/deletions on the same nodes
            let nn = rng.range(4, 8);
            let mut setup = vec![];
            for _ in 0..nn {
                setup.push(Op::CreateNode);
            }
            let pre = rng.range(10, 40);
            for _ in 0..pre {
                let f = rng.range(1, nn);
                let to = if rng.chance(1, 8) { f } else { rng.range(1, nn) };
                setup.push(Op::CreateEdge(f, to, rng.chance(1, 2)));
            }
            let threads: Vec<Vec<Op>> = (0..t)
                .map(|ti| {
                    (0..rng.range(10, 40))
                        .map(|_| {
                            let k = rng.below(100);
                            if ti == 0 && k < 25 {
                                Op::DeleteNode(rng.range(1, nn))
                            } else if k < 60 {
                                let f = rng.range(1, nn);
                                Op::CreateEdge(f, rng.range(1, nn), rng.chance(1, 2))
                            } else if k < 85 {
                                Op::DeleteEdge(rng.range(1, pre + 20))
                            } else if k < 93 {
                                Op::UpdateEdge(rng.range(1, pre + 20))
                            } else {
                                Op::CreateNode
                            }
                        })
                        .collect()
                })
                .collect();
            conc_case(1, &setup, threads, &format!("races incl. delete_node t={t} rep={rep}"), &mut conc);
            dist.hit(&format!("conc.any_ops_with_delete_node.threads_{t}"));

            // (d) no node deletions: edge creations, deletions of setup edges (the same edge possibly from
            // several threads at once) and updates of setup edges that nobody deletes
            let nn = rng.range(2, 5);
            let mut setup = vec![];
            for _ in 0..nn {
                setup.push(Op::CreateNode);
            }
            let pre = rng.range(10, 40);
            for _ in 0..pre {
                let f = rng.range(1, nn);
                setup.push(Op::CreateEdge(f, rng.range(1, nn), rng.chance(1, 2)));
            }
            let split = rng.range(1, pre); // ids <= split may be deleted, ids > split may be updated
            let threads: Vec<Vec<Op>> = (0..t)
                .map(|_| {
                    (0..rng.range(20, 50))
                        .map(|_| {
                            let k = rng.below(100);
                            if k < 40 {
                                Op::CreateEdge(rng.range(1, nn), rng.range(1, nn), rng.chance(1, 2))
                            } else if k < 75 || split == pre {
                                Op::DeleteEdge(rng.range(1, split))
                            } else {
                                Op::UpdateEdge(rng.range(split + 1, pre))
                            }
                        })
                        .collect()
                })
                .collect();
            conc_case(0, &setup, threads, &format!("edge races (same edge from several threads) t={t} rep={rep}"), &mut conc);
            dist.hit(&format!("conc.edge_ops_same_edges.threads_{t}"));
        }
    }

    // ---------------------------------------------------------------- concurrent creations, then sequential deletions
    let mut mixed = CaseWriter::new(&args.out, "mixed");
    for i in 0..args.budget(3, 20) {
        let rounds = rng.range(2, 4);
        inversion_case(&mut rng, rounds, &format!("hook-built unsorted lists #{i}"), &mut mixed, &mut dist);
        dist.hit("mixed.hook_inversion_then_deletes");
    }
    for t in [2u64, 4, 8] {
        for rep in 0..args.budget(2, 20) {
            stress_then_delete_case(&mut rng, t, &format!("hub creations t={t} rep={rep} then sequential deletes"), &mut mixed);
            dist.hit(&format!("mixed.stress_then_deletes.threads_{t}"));
        }
    }

    write_meta(
        &args.out,
        json!({
            "property": "C05", "seed": args.seed, "tier": args.tier,
            "kinds": [seq.summary(), conc.summary(), mixed.summary(), trav.summary()],
            "distribution": dist.json(),
            "nontrivial_rule": "seq: a delete_node of a node with incident edges succeeded; conc: at least two threads (or the rayon branch of delete_node with > 100 incident edges); mixed: always (a concurrent creation phase followed by observed sequential deletions)",
        }),
    );
}
