fn main() {}
