//! C06 correspondence harness: drives the real `VectorEngine` (default and named collections).
//! Case kinds (Gallina terms for NV.C06.Run):
//!   trace  : (score table, ops, observations) -> check_trace
//!   sparse : (v, SparseVector::from_dense(v).to_dense()) -> check_sparse
//! Scores are never recomputed by the model: the table lists, for every (metric, query, vector)
//! the checks may need, the f32 bits the implementation's OWN metric functions return
//! (compute_similarity, hnsw::simd::dot_product, the euclidean formula of compute_score, and
//! HNSWDistanceMetric::to_similarity(EmbeddingStorage::distance_dense) for the cached index).
use nvh_common::*;
use std::collections::{BTreeMap, BTreeSet, HashMap};
use std::sync::Arc;
use tensor_store::{hnsw::simd, EmbeddingStorage, HNSWConfig, HNSWDistanceMetric, HNSWIndex, SparseVector, TensorValue};
use vector_engine::{DistanceMetric, VectorEngine, VectorError};

type V = Vec<u32>; // f32 bit patterns

fn fl(v: &V) -> Vec<f32> {
    v.iter().map(|b| f32::from_bits(*b)).collect()
}
fn bits(v: &[f32]) -> V {
    v.iter().map(|x| x.to_bits()).collect()
}
fn vcoq(v: &V) -> String {
    list(v.iter().map(|x| format!("{x}")))
}
fn key(k: u64) -> String {
    format!("k{k}")
}
fn cname(c: u64) -> String {
    format!("c{c}")
}

fn err_code(e: &VectorError) -> u64 {
    match e {
        VectorError::NotFound(_) => 1,
        VectorError::EmptyVector => 2,
        VectorError::InvalidTopK => 3,
        VectorError::DimensionMismatch { .. } => 4,
        VectorError::CollectionNotFound(_) => 5,
        VectorError::CollectionExists(_) => 6,
        VectorError::BatchValidationError { .. } => 7,
        _ => 8,
    }
}

#[derive(Clone, Debug)]
enum Op {
    Store(u64, u64, V),
    StoreMeta(u64, u64, V),
    Delete(u64, u64),
    BatchStore(Vec<(u64, V)>),
    BatchDelete(Vec<u64>),
    Clear,
    CreateColl(u64),
    DeleteColl(u64),
    Build(u64),
    Get(u64, u64),
    Search(u64, V, u64),
    SearchMetric(V, u64, u64),
    /// (collection, query, k, tag value b, strategy 0 auto / 1 pre / 2 post, oversample_factor)
    SearchFiltered(u64, V, u64, u64, u64, u64),
}
impl Op {
    fn coq(&self) -> String {
        match self {
            Op::Store(c, k, v) => format!("OStore {c} {k} {}", vcoq(v)),
            Op::StoreMeta(c, k, v) => format!("OStoreMeta {c} {k} {}", vcoq(v)),
            Op::Delete(c, k) => format!("ODelete {c} {k}"),
            Op::BatchStore(kvs) => format!("OBatchStore {}", list(kvs.iter().map(|(k, v)| format!("({k}, {})", vcoq(v))))),
            Op::BatchDelete(ks) => format!("OBatchDelete {}", list(ks.iter().map(|k| n(*k)))),
            Op::Clear => "OClear".into(),
            Op::CreateColl(c) => format!("OCreateColl {c}"),
            Op::DeleteColl(c) => format!("ODeleteColl {c}"),
            Op::Build(c) => format!("OBuild {c}"),
            Op::Get(c, k) => format!("OGet {c} {k}"),
            Op::Search(c, q, k) => format!("OSearch {c} {} {k}", vcoq(q)),
            Op::SearchMetric(q, k, m) => format!("OSearchMetric {} {k} {m}", vcoq(q)),
            Op::SearchFiltered(c, q, k, b, st, ov) => format!("OSearchFiltered {c} {} {k} {b} {st} {ov}", vcoq(q)),
        }
    }
}

#[derive(Clone, Debug, PartialEq)]
enum Out {
    Unit,
    Err(u64),
    Num(u64),
    Vec(V),
    Res(Vec<(u64, u32)>),
}
impl Out {
    fn coq(&self) -> String {
        match self {
            Out::Unit => "RUnit".into(),
            Out::Err(e) => format!("(RErr {e})"),
            Out::Num(x) => format!("(RNum {x})"),
            Out::Vec(v) => format!("(RVec {})", vcoq(v)),
            Out::Res(l) => format!("(RRes {})", list(l.iter().map(|(k, s)| format!("({k}, {s})")))),
        }
    }
}

fn kid(s: &str) -> u64 {
    s.trim_start_matches('k').parse().unwrap_or(99999)
}
fn metric_of(m: u64) -> DistanceMetric {
    match m {
        1 => DistanceMetric::DotProduct,
        2 => DistanceMetric::Euclidean,
        _ => DistanceMetric::Cosine,
    }
}

struct Env {
    eng: VectorEngine,
    ncoll: u64,
}
impl Env {
    /// maxd = VectorEngineConfig::max_dimension (0 = None)
    /// par = VectorEngineConfig::parallel_threshold (0 = keep the default 5000): from that many stored
    /// embeddings on, search_similar / search_similar_with_metric run their rayon twins
    fn new(ncoll: u64, maxd: u64, par: u64) -> Env {
        let eng = if maxd == 0 && par == 0 {
            VectorEngine::new()
        } else {
            let mut cfg = vector_engine::VectorEngineConfig::default();
            if maxd > 0 {
                cfg.max_dimension = Some(maxd as usize);
            }
            if par > 0 {
                cfg.parallel_threshold = par as usize;
            }
            VectorEngine::with_config(cfg).unwrap()
        };
        Env { eng, ncoll }
    }
    fn res(r: Result<Vec<vector_engine::SearchResult>, VectorError>) -> Out {
        match r {
            Ok(l) => Out::Res(l.iter().map(|x| (kid(&x.key), x.score.to_bits())).collect()),
            Err(e) => Out::Err(err_code(&e)),
        }
    }
    fn unit(r: Result<(), VectorError>) -> Out {
        match r {
            Ok(()) => Out::Unit,
            Err(e) => Out::Err(err_code(&e)),
        }
    }
    fn apply(&mut self, op: &Op) -> Out {
        let e = &self.eng;
        match op {
            Op::Store(0, k, v) => Self::unit(e.store_embedding(&key(*k), fl(v))),
            Op::Store(c, k, v) => Self::unit(e.store_in_collection(&cname(*c), &key(*k), fl(v))),
            Op::StoreMeta(c, k, v) => {
                let mut md = HashMap::new();
                md.insert("tag".to_string(), TensorValue::Scalar(tensor_store::ScalarValue::String(format!("t{}", k % 2))));
                if *c == 0 {
                    Self::unit(e.store_embedding_with_metadata(&key(*k), fl(v), md))
                } else {
                    Self::unit(e.store_in_collection_with_metadata(&cname(*c), &key(*k), fl(v), md))
                }
            }
            Op::Delete(0, k) => Self::unit(e.delete_embedding(&key(*k))),
            Op::Delete(c, k) => Self::unit(e.delete_from_collection(&cname(*c), &key(*k))),
            Op::BatchStore(kvs) => {
                let inputs = kvs.iter().map(|(k, v)| vector_engine::EmbeddingInput::new(key(*k), fl(v))).collect();
                match e.batch_store_embeddings(inputs) {
                    Ok(r) => Out::Num(r.stored_keys.len() as u64),
                    Err(er) => Out::Err(err_code(&er)),
                }
            }
            Op::BatchDelete(ks) => match e.batch_delete_embeddings(ks.iter().map(|k| key(*k)).collect()) {
                Ok(x) => Out::Num(x as u64),
                Err(er) => Out::Err(err_code(&er)),
            },
            Op::Clear => match e.clear() {
                Ok(x) => Out::Num(x as u64),
                Err(er) => Out::Err(err_code(&er)),
            },
            Op::CreateColl(c) => Self::unit(e.create_collection(&cname(*c), Default::default())),
            Op::DeleteColl(c) => Self::unit(e.delete_collection(&cname(*c))),
            Op::Build(0) => Self::unit(e.build_and_cache_index(HNSWConfig::default())),
            Op::Build(c) => {
                // the documented way to accelerate a named collection: build an index over its vectors
                // and hand it to cache_hnsw_index (same validation as build_hnsw_index)
                let cn = cname(*c);
                let keys = e.list_collection_keys(&cn);
                let index = HNSWIndex::with_config(HNSWConfig::default());
                let mut mapping = vec![];
                let mut dim = None;
                for k in keys {
                    let v = match e.get_from_collection(&cn, &k) {
                        Ok(v) => v,
                        Err(er) => return Out::Err(err_code(&er)),
                    };
                    if *dim.get_or_insert(v.len()) != v.len() {
                        return Out::Err(4);
                    }
                    index.insert(v);
                    mapping.push(k);
                }
                e.cache_hnsw_index(&cn, Arc::new(index), mapping);
                Out::Unit
            }
            Op::Get(0, k) => match e.get_embedding(&key(*k)) {
                Ok(v) => Out::Vec(bits(&v)),
                Err(er) => Out::Err(err_code(&er)),
            },
            Op::Get(c, k) => match e.get_from_collection(&cname(*c), &key(*k)) {
                Ok(v) => Out::Vec(bits(&v)),
                Err(er) => Out::Err(err_code(&er)),
            },
            Op::Search(0, q, k) => Self::res(e.search_similar(&fl(q), *k as usize)),
            Op::Search(c, q, k) => Self::res(e.search_in_collection(&cname(*c), &fl(q), *k as usize)),
            Op::SearchMetric(q, k, m) => Self::res(e.search_similar_with_metric(&fl(q), *k as usize, metric_of(*m))),
            Op::SearchFiltered(c, q, k, b, st, ov) => {
                let filter = vector_engine::FilterCondition::Eq("tag".to_string(), vector_engine::FilterValue::String(format!("t{b}")));
                let strategy = match st {
                    1 => vector_engine::FilterStrategy::PreFilter,
                    2 => vector_engine::FilterStrategy::PostFilter,
                    _ => vector_engine::FilterStrategy::Auto,
                };
                // the default configuration is passed as None, everything else explicitly
                let cfg = if *st == 0 && *ov == 3 {
                    None
                } else {
                    Some(vector_engine::FilteredSearchConfig { strategy, selectivity_threshold: 0.1, oversample_factor: *ov as usize })
                };
                if *c == 0 {
                    Self::res(e.search_similar_filtered(&fl(q), *k as usize, &filter, cfg))
                } else {
                    Self::res(e.search_filtered_in_collection(&cname(*c), &fl(q), *k as usize, &filter, cfg))
                }
            }
        }
    }
    /// the "tag" metadata field of every stored key, through the public API
    fn tdump(&self) -> Vec<(u64, Vec<(u64, u64)>)> {
        let tagval = |m: &HashMap<String, TensorValue>| match m.get("tag") {
            Some(TensorValue::Scalar(tensor_store::ScalarValue::String(s))) => s.trim_start_matches('t').parse::<u64>().ok(),
            _ => None,
        };
        let mut out = vec![];
        for c in 0..self.ncoll {
            let mut rows: Vec<(u64, u64)> = if c == 0 {
                self.eng.list_keys().iter().filter_map(|k| self.eng.get_metadata(k).ok().and_then(|m| tagval(&m)).map(|t| (kid(k), t))).collect()
            } else {
                let cn = cname(c);
                self.eng
                    .list_collection_keys(&cn)
                    .iter()
                    .filter_map(|k| self.eng.get_collection_metadata(&cn, k).ok().and_then(|m| tagval(&m)).map(|t| (kid(k), t)))
                    .collect()
            };
            rows.sort();
            out.push((c, rows));
        }
        out
    }
    /// read-back of every collection in play through the public API, keys ascending
    fn dump(&self) -> Vec<(u64, Vec<(u64, V)>)> {
        let mut out = vec![];
        for c in 0..self.ncoll {
            let mut rows: Vec<(u64, V)> = if c == 0 {
                self.eng.list_keys().iter().filter_map(|k| self.eng.get_embedding(k).ok().map(|v| (kid(k), bits(&v)))).collect()
            } else {
                let cn = cname(c);
                self.eng
                    .list_collection_keys(&cn)
                    .iter()
                    .filter_map(|k| self.eng.get_from_collection(&cn, k).ok().map(|v| (kid(k), bits(&v))))
                    .collect()
            };
            rows.sort();
            out.push((c, rows));
        }
        out
    }
}

fn dump_coq(d: &[(u64, Vec<(u64, V)>)]) -> String {
    list(d.iter().map(|(c, rows)| format!("({c}, {})", list(rows.iter().map(|(k, v)| format!("({k}, {})", vcoq(v)))))))
}

/// the implementation's own metric value, as bits (None if the call panics / errors)
fn own_score(m: u64, q: &V, v: &V) -> Option<u32> {
    let (qf, vf) = (fl(q), fl(v));
    guarded(move || match m {
        0 => VectorEngine::compute_similarity(&qf, &vf).ok().map(|x| x.to_bits()),
        1 => Some(simd::dot_product(&qf, &vf).to_bits()),
        2 => {
            let sum_sq: f32 = qf.iter().zip(vf.iter()).map(|(x, y)| (x - y) * (x - y)).sum();
            Some((1.0 / (1.0 + sum_sq.sqrt())).to_bits())
        }
        10 => {
            let st = EmbeddingStorage::from(vf.clone());
            let d = st.distance_dense(&qf, HNSWDistanceMetric::Cosine);
            Some(HNSWDistanceMetric::Cosine.to_similarity(d).to_bits())
        }
        _ => None,
    })
    .ok()
    .flatten()
}

fn run_trace(ncoll: u64, ops: &[Op]) -> (String, bool) {
    run_trace_cfg(ncoll, 0, ops)
}
fn run_trace_cfg(ncoll: u64, maxd: u64, ops: &[Op]) -> (String, bool) {
    run_trace_par(ncoll, maxd, 0, ops)
}
/// The model does not mention parallel_threshold: the sequential scan and its parallel twin have to meet the
/// same exact-path criterion, so the same term is checked whichever twin produced the observations.
fn run_trace_par(ncoll: u64, maxd: u64, par: u64, ops: &[Op]) -> (String, bool) {
    let mut env = Env::new(ncoll, maxd, par);
    let mut cobs = vec![];
    let mut vectors: BTreeSet<V> = BTreeSet::new();
    let mut queries: BTreeSet<(u64, V)> = BTreeSet::new();
    let mut cached_search = false;
    let mut built: BTreeMap<u64, bool> = BTreeMap::new();
    for op in ops {
        let r = guarded(std::panic::AssertUnwindSafe(|| env.apply(op))).unwrap_or(Out::Err(99));
        let d = env.dump();
        for (_, rows) in &d {
            for (_, v) in rows {
                vectors.insert(v.clone());
            }
        }
        match op {
            Op::Search(c, q, _) | Op::SearchFiltered(c, q, _, _, _, _) => {
                queries.insert((0, q.clone()));
                queries.insert((10, q.clone()));
                if built.get(c).copied().unwrap_or(false) {
                    cached_search = true;
                }
            }
            Op::SearchMetric(q, _, m) => {
                queries.insert((*m, q.clone()));
            }
            Op::Build(c) => {
                if r == Out::Unit {
                    built.insert(*c, true);
                }
            }
            _ => {}
        }
        let td = env.tdump();
        let tdc = list(td.iter().map(|(c, rows)| format!("({c}, {})", list(rows.iter().map(|(k, t)| format!("({k}, {t})"))))));
        cobs.push(format!("({}, {}, {})", r.coq(), dump_coq(&d), tdc));
    }
    let mut tbl = vec![];
    for (m, q) in &queries {
        for v in &vectors {
            // (the cached index scores whatever it is given: those entries also for other dimensions)
            if v.len() == q.len() || *m == 10 {
                if let Some(s) = own_score(*m, q, v) {
                    tbl.push(format!("({m}, {}, {}, {s})", vcoq(q), vcoq(v)));
                }
            }
        }
    }
    let term = format!("({maxd}, {}, {}, {})", list(tbl), list(ops.iter().map(|o| o.coq())), list(cobs));
    (term, cached_search)
}

// ------------------------------------------------------------------------------------ generators
const VALS: [f32; 12] = [0.0, -0.0, 1.0, -1.0, 0.5, 2.0, 3.0, -2.0, 0.25, 1e-7, -0.75, 4.0];

/// components of non-zero vectors whose L2 norm is far below f32::EPSILON (squares still representable)
const TINY: [f32; 6] = [5e-8, 1e-8, -3e-8, 2e-9, 1e-7, -6e-8];
/// components of vectors with a huge norm (squares and 4-term sums stay finite)
const HUGE: [f32; 4] = [1e18, -5e17, 3e17, -1e18];

fn gen_vec(r: &mut Rng, dim: usize, dist: &mut Dist) -> V {
    let mode = r.below(12);
    let v: Vec<f32> = match mode {
        10 => {
            // 0 < norm < 1.2e-7: every component tiny, some zero
            dist.hit("vec.tiny_norm");
            let mut v: Vec<f32> = (0..dim).map(|_| if r.chance(1, 3) { 0.0 } else { *r.pick(&TINY[..4]) }).collect();
            if v.iter().all(|x| *x == 0.0) {
                v[0] = 5e-8;
            }
            v
        }
        11 => {
            dist.hit("vec.huge_norm");
            let mut v: Vec<f32> = (0..dim).map(|_| if r.chance(1, 3) { 0.0 } else { *r.pick(&HUGE) }).collect();
            if v.iter().all(|x| *x == 0.0) {
                v[0] = 1e18;
            }
            v
        }
        0 => {
            dist.hit("vec.zero");
            vec![0.0; dim]
        }
        1 | 2 => {
            dist.hit("vec.sparse");
            let mut v = vec![0.0; dim];
            let i = r.below(dim as u64) as usize;
            v[i] = *r.pick(&VALS[2..]);
            if r.chance(1, 2) && dim > 1 {
                let j = r.below(dim as u64) as usize;
                v[j] = *r.pick(&[-0.0f32, 1e-7, 0.0]);
            }
            v
        }
        3 => {
            dist.hit("vec.axis");
            let mut v = vec![0.0; dim];
            v[r.below(dim as u64) as usize] = 1.0;
            v
        }
        _ => {
            dist.hit("vec.dense");
            (0..dim).map(|_| *r.pick(&VALS)).collect()
        }
    };
    bits(&v)
}
fn gen_dim(r: &mut Rng) -> usize {
    *r.pick(&[3usize, 3, 3, 3, 2, 4, 1])
}

/// returns (max_dimension to configure (0 = none), ops)
fn gen_ops(r: &mut Rng, ncoll: u64, len: usize, dist: &mut Dist) -> (u64, Vec<Op>) {
    let nkeys = if r.chance(1, 4) { r.range(8, 14) } else { r.range(3, 7) };
    let main_dim = gen_dim(r);
    // a third of the runs configure max_dimension = the run's main dimension: longer vectors (single
    // stores, batch elements, queries) are then rejected by validation
    let maxd: u64 = if r.chance(1, 3) { main_dim as u64 } else { 0 };
    if maxd > 0 {
        dist.hit("cfg.max_dimension");
    }
    let mut pool: Vec<V> = vec![]; // stored vectors, for duplicates and exact-match queries
    let mut ops = vec![];
    let coll = |r: &mut Rng| if ncoll > 1 && r.chance(1, 3) { r.range(1, ncoll - 1) } else { 0 };
    while ops.len() < len {
        let k = r.below(100);
        let dim = if maxd > 0 && r.chance(1, 6) {
            dist.hit("vec.over_max_dimension");
            main_dim + 1 + r.below(2) as usize
        } else if r.chance(5, 6) {
            main_dim
        } else {
            gen_dim(r)
        };
        let vecgen = |r: &mut Rng, dist: &mut Dist, pool: &mut Vec<V>| {
            if !pool.is_empty() && r.chance(1, 5) {
                dist.hit("vec.duplicate");
                r.pick(pool).clone()
            } else if r.chance(1, 40) {
                dist.hit("vec.empty");
                vec![]
            } else {
                let v = gen_vec(r, dim, dist);
                pool.push(v.clone());
                v
            }
        };
        if k < 30 {
            let c = coll(r);
            ops.push(Op::Store(c, r.below(nkeys), vecgen(r, dist, &mut pool)));
            dist.hit("op.store");
        } else if k < 36 {
            let c = coll(r);
            ops.push(Op::StoreMeta(c, r.below(nkeys), vecgen(r, dist, &mut pool)));
            dist.hit("op.store_meta");
        } else if k < 44 {
            ops.push(Op::Delete(coll(r), r.below(nkeys)));
            dist.hit("op.delete");
        } else if k < 48 {
            let cnt = r.below(5);
            let mut kvs: Vec<(u64, V)> = (0..cnt).map(|_| (r.below(nkeys), vecgen(r, dist, &mut pool))).collect();
            if maxd > 0 && kvs.len() >= 2 && r.chance(1, 2) {
                // a rejected element in the middle: valid elements before (and after) it
                let at = r.range(1, kvs.len() as u64 - 1) as usize;
                kvs[0].1 = gen_vec(r, main_dim, dist);
                kvs[at].1 = gen_vec(r, main_dim + 1, dist);
                dist.hit("op.batch_store.rejected_in_the_middle");
                if r.chance(2, 3) {
                    // with an index cached before the batch and index-eligible searches after it
                    ops.push(Op::Build(0));
                    ops.push(Op::BatchStore(kvs));
                    let q = gen_vec(r, main_dim, dist);
                    ops.push(Op::Search(0, q.clone(), 10));
                    ops.push(Op::Search(0, q, 1));
                    dist.hit("op.batch_store.rejected_after_build");
                    dist.hit("op.batch_store");
                    continue;
                }
            }
            ops.push(Op::BatchStore(kvs));
            dist.hit("op.batch_store");
        } else if k < 53 {
            let cnt = r.below(4);
            ops.push(Op::BatchDelete((0..cnt).map(|_| r.below(nkeys)).collect()));
            dist.hit("op.batch_delete");
        } else if k < 55 {
            ops.push(Op::Clear);
            dist.hit("op.clear");
        } else if k < 58 {
            if ncoll > 1 {
                ops.push(Op::CreateColl(r.range(1, ncoll - 1)));
                dist.hit("op.create_collection");
            }
        } else if k < 61 {
            if ncoll > 1 {
                ops.push(Op::DeleteColl(r.range(1, ncoll - 1)));
                dist.hit("op.delete_collection");
            }
        } else if k < 72 {
            ops.push(Op::Build(coll(r)));
            dist.hit("op.build");
        } else if k < 76 {
            ops.push(Op::Get(coll(r), r.below(nkeys)));
            dist.hit("op.get");
        } else {
            let q = if !pool.is_empty() && r.chance(1, 3) { r.pick(&pool).clone() } else { gen_vec(r, dim, dist) };
            let kk = *r.pick(&[1u64, 1, 2, 3, 5, 10, 0]);
            if k < 88 {
                ops.push(Op::Search(coll(r), q, kk));
                dist.hit("op.search");
            } else if k < 95 {
                ops.push(Op::SearchFiltered(coll(r), q, kk, r.below(2), r.below(3), *r.pick(&[3u64, 3, 1, 0, 2])));
                dist.hit("op.search_filtered");
            } else {
                ops.push(Op::SearchMetric(q, kk, r.below(3)));
                dist.hit("op.search_metric");
            }
        }
    }
    (maxd, ops)
}

/// Filtered search with a PARTLY filled oversample window: more than 3k vectors of the query's
/// dimension, 1..k-1 matching ones inside the top 3k, at least k more matching ones below it.
/// tag = key mod 2; vectors [1, 0.02 * rank] are ranked by similarity to [1, 0].
fn gen_partial_window(r: &mut Rng, c: u64, dist: &mut Dist) -> Vec<Op> {
    gen_window(r, c, 3, dist)
}
/// the same for any oversample factor `ovs` (window = max(k * ovs, k)); with ovs <= 1 the window is the
/// top k itself and may hold no match at all: the matching vectors are ranked beyond top_k
fn gen_window(r: &mut Rng, c: u64, ovs: u64, dist: &mut Dist) -> Vec<Op> {
    let k = r.range(2, 4);
    let b = r.below(2); // the tag searched for
    let inside = if ovs <= 1 { r.range(0, k - 1) } else { r.range(1, k - 1) }; // matches inside the window
    let below = k + r.below(3); // matches below the window
    let window = (k * ovs).max(k);
    let mut ops = vec![];
    let mut next_match = b; // keys with key % 2 == b
    let mut next_other = 1 - b;
    let mut rank = 0u64;
    // which window positions hold a match
    let mut pos: Vec<u64> = (0..window).collect();
    r.shuffle(&mut pos);
    let match_pos: Vec<u64> = pos[..inside as usize].to_vec();
    let mut stores = vec![];
    for p in 0..window {
        let key = if match_pos.contains(&p) {
            let x = next_match;
            next_match += 2;
            x
        } else {
            let x = next_other;
            next_other += 2;
            x
        };
        stores.push(Op::StoreMeta(c, key, vec![b32(1.0), b32(0.02 * rank as f32)]));
        rank += 1;
    }
    for _ in 0..below {
        stores.push(Op::StoreMeta(c, next_match, vec![b32(1.0), b32(0.02 * rank as f32)]));
        next_match += 2;
        rank += 1;
        if r.chance(1, 2) {
            stores.push(Op::StoreMeta(c, next_other, vec![b32(1.0), b32(0.02 * rank as f32)]));
            next_other += 2;
            rank += 1;
        }
    }
    r.shuffle(&mut stores);
    ops.extend(stores);
    let q = vec![b32(1.0), b32(0.0)];
    for strat in [2u64, 0, 1] {
        ops.push(Op::SearchFiltered(c, q.clone(), k, b, strat, ovs));
    }
    dist.hit(&format!("filtered.partial_window.oversample{ovs}"));
    ops
}

/// A cached index over a collection that holds ALL-ZERO vectors among others (stored before the build),
/// then index-answered searches that return every key: each (key, score) is compared with the exact scan.
fn gen_zero_index(r: &mut Rng, c: u64, dist: &mut Dist) -> Vec<Op> {
    let dim = *r.pick(&[3usize, 3, 2, 4]);
    let nk = r.range(4, 9);
    let mut keys: Vec<u64> = (0..14).collect();
    r.shuffle(&mut keys);
    keys.truncate(nk as usize);
    let nzero = r.range(1, 2) as usize;
    let mut ops = vec![];
    let mut vecs = vec![];
    for (i, key) in keys.iter().enumerate() {
        let v: V = if i < nzero {
            vec![b32(if r.chance(1, 3) { -0.0 } else { 0.0 }); dim]
        } else {
            // distinct directions so that a key carrying another vector's score is visible
            bits(&(0..dim).map(|j| ((i * 7 + j * 3) % 11) as f32 - 4.5).collect::<Vec<f32>>())
        };
        vecs.push(v.clone());
        ops.push(if r.chance(1, 4) { Op::StoreMeta(c, *key, v) } else { Op::Store(c, *key, v) });
    }
    r.shuffle(&mut ops);
    ops.push(Op::Build(c));
    for _ in 0..3 {
        let q = if r.chance(1, 2) { r.pick(&vecs[nzero..]).clone() } else { gen_vec(r, dim, dist) };
        ops.push(Op::Search(c, q.clone(), 20));
        ops.push(Op::Search(c, q, r.range(1, 3)));
    }
    dist.hit("index.zero_vectors_before_build");
    ops
}

fn b32(x: f32) -> u32 {
    x.to_bits()
}

fn main() {
    let args = Args::parse();
    quiet_panics();
    let mut rng = Rng::new(args.seed);
    let mut dist = Dist::default();

    let mut trace = CaseWriter::new(&args.out, "trace");
    // ---- corpus first: DESIGN section 5 F-C06-stale and its variants
    {
        let a = vec![b32(1.0), b32(0.0), b32(0.0)];
        let bb = vec![b32(0.0), b32(1.0), b32(0.0)];
        let z = vec![b32(0.9), b32(0.1), b32(0.0)];
        let q = vec![b32(1.0), b32(0.1), b32(0.0)];
        let base = vec![Op::Store(0, 0, a.clone()), Op::Store(0, 1, bb.clone()), Op::Build(0)];
        let mut corpus: Vec<(Vec<Op>, &str)> = vec![];
        let mut c1 = base.clone();
        c1.extend([Op::BatchDelete(vec![0]), Op::Search(0, q.clone(), 5)]);
        corpus.push((c1, "corpus F-C06-stale batch_delete_embeddings"));
        let mut c2 = base.clone();
        c2.extend([Op::Clear, Op::Search(0, q.clone(), 5)]);
        corpus.push((c2, "corpus F-C06-stale clear"));
        let mut c3 = base.clone();
        c3.extend([Op::StoreMeta(0, 2, z.clone()), Op::Search(0, q.clone(), 1)]);
        corpus.push((c3, "corpus F-C06-stale store_embedding_with_metadata (new key never returned)"));
        let mut c4 = base.clone();
        c4.extend([Op::StoreMeta(0, 0, bb.clone()), Op::Search(0, q.clone(), 2)]);
        corpus.push((c4, "corpus F-C06-stale store_embedding_with_metadata (overwrite, stale score)"));
        corpus.push((
            vec![Op::CreateColl(1), Op::Store(1, 0, a.clone()), Op::Store(1, 1, bb.clone()), Op::Build(1), Op::DeleteColl(1), Op::Search(1, q.clone(), 5)],
            "corpus F-C06-stale delete_collection",
        ));
        // controls: the mutators that do invalidate
        let mut c5 = base.clone();
        c5.extend([Op::Delete(0, 0), Op::Search(0, q.clone(), 5), Op::Build(0), Op::Store(0, 2, z.clone()), Op::Search(0, q.clone(), 5)]);
        corpus.push((c5, "corpus control delete_embedding / store_embedding"));
        // post-filter shortfall: four close vectors tagged t0 (even keys), one far vector tagged t1
        let f = |x: f32, y: f32| vec![b32(x), b32(y)];
        corpus.push((
            vec![
                Op::StoreMeta(0, 0, f(1.0, 0.0)),
                Op::StoreMeta(0, 2, f(1.0, 0.1)),
                Op::StoreMeta(0, 4, f(1.0, 0.2)),
                Op::StoreMeta(0, 6, f(1.0, 0.3)),
                Op::StoreMeta(0, 1, f(0.0, 1.0)),
                Op::SearchFiltered(0, f(1.0, 0.0), 1, 1, 0, 3),
                Op::SearchFiltered(0, f(1.0, 0.0), 1, 1, 1, 3),
                Op::SearchFiltered(0, f(1.0, 0.0), 1, 1, 2, 3),
            ],
            "corpus F-C06-postfilter default collection (auto / pre / post)",
        ));
        corpus.push((
            vec![
                Op::StoreMeta(1, 0, f(1.0, 0.0)),
                Op::StoreMeta(1, 2, f(1.0, 0.1)),
                Op::StoreMeta(1, 4, f(1.0, 0.2)),
                Op::StoreMeta(1, 6, f(1.0, 0.3)),
                Op::StoreMeta(1, 1, f(0.0, 1.0)),
                Op::SearchFiltered(1, f(1.0, 0.0), 1, 1, 0, 3),
                Op::SearchFiltered(1, f(1.0, 0.0), 1, 1, 2, 3),
            ],
            "corpus F-C06-postfilter named collection",
        ));
        for (ops, label) in corpus {
            let (t, _) = run_trace(2, &ops);
            trace.push(&t, &format!("{label} ops={:?}", ops), true);
            dist.hit("corpus");
        }
        // max_dimension = 3, cached index, a batch whose third element is too long: the elements before it
        // are stored (one overwrites key 0), the call fails, the following searches must see the new data
        let over = vec![b32(1.0), b32(1.0), b32(1.0), b32(1.0)];
        let batch_partial = vec![
            Op::Store(0, 0, a.clone()),
            Op::Store(0, 1, bb.clone()),
            Op::Build(0),
            Op::BatchStore(vec![(0, bb.clone()), (2, z.clone()), (3, over.clone()), (4, a.clone())]),
            Op::Search(0, q.clone(), 5),
            Op::Search(0, q.clone(), 1),
            Op::Get(0, 0),
            Op::Build(0),
            Op::BatchStore(vec![(5, a.clone()), (6, over.clone())]),
            Op::Search(0, q.clone(), 10),
            Op::Store(0, 7, over.clone()),
            Op::StoreMeta(0, 7, over.clone()),
            Op::Store(1, 7, over.clone()),
            Op::Search(0, over.clone(), 2),
            Op::Search(0, q.clone(), 10),
        ];
        let (t, _) = run_trace_cfg(2, 3, &batch_partial);
        trace.push(&t, &format!("corpus max_dimension=3 batch with a rejected element in the middle ops={:?}", batch_partial), true);
        dist.hit("corpus");
        // tiny-norm and huge-norm vectors behind a cached index: the index must report the exact scan's
        // scores (norm 1e-7 is not a zero vector), for stored vectors and for queries
        let small = vec![b32(5e-8), b32(5e-8), b32(5e-8), b32(5e-8)];
        let unit = vec![b32(1.0), b32(0.0), b32(0.0), b32(0.0)];
        let mixed = vec![b32(1.0), b32(1.0), b32(1.0), b32(0.2)];
        let neg = vec![b32(-1.0), b32(-1.0), b32(-1.0), b32(-1.0)];
        let big = vec![b32(1e18), b32(1e18), b32(0.0), b32(-5e17)];
        let q4 = vec![b32(1.0), b32(1.0), b32(1.0), b32(1.0)];
        let qtiny = vec![b32(1e-7), b32(0.0), b32(0.0), b32(0.0)];
        let qbig = vec![b32(1e18), b32(3e17), b32(0.0), b32(0.0)];
        let norms = vec![
            Op::Store(0, 0, small.clone()),
            Op::Store(0, 1, unit.clone()),
            Op::Store(0, 2, mixed.clone()),
            Op::Store(0, 3, neg.clone()),
            Op::Store(0, 4, big.clone()),
            Op::Search(0, q4.clone(), 5),
            Op::Search(0, qtiny.clone(), 5),
            Op::Build(0),
            Op::Search(0, q4.clone(), 5),
            Op::Search(0, q4.clone(), 1),
            Op::Search(0, qtiny.clone(), 5),
            Op::Search(0, qbig.clone(), 3),
            Op::Search(0, small.clone(), 2),
            Op::Store(1, 0, small.clone()),
            Op::Store(1, 1, unit.clone()),
            Op::Store(1, 2, big.clone()),
            Op::Build(1),
            Op::Search(1, q4.clone(), 3),
            Op::Search(1, qtiny.clone(), 3),
        ];
        let (t, _) = run_trace(2, &norms);
        trace.push(&t, &format!("corpus tiny-norm / huge-norm vectors and queries with a cached index ops={:?}", norms), true);
        dist.hit("corpus");
        // the parallel twins of the exact scan (parallel_threshold = 4 and 1): every metric, non-unit queries,
        // a query equal to a stored vector, k below and above the number of stored vectors
        for par in [4u64, 1] {
            let pts: Vec<V> = (1..=7).map(|i| vec![b32(i as f32), b32(0.5 * i as f32 - 1.0), b32(((i * 3) % 5) as f32)]).collect();
            let mut ops: Vec<Op> = pts.iter().enumerate().map(|(i, v)| Op::Store(0, i as u64, v.clone())).collect();
            let qs = [pts[5].clone(), vec![b32(3.0), b32(-2.0), b32(0.5)], vec![b32(1e18), b32(0.0), b32(-5e17)], vec![b32(0.0), b32(0.0), b32(0.0)]];
            for q in &qs {
                for m in 0..3u64 {
                    ops.push(Op::SearchMetric(q.clone(), 3, m));
                    ops.push(Op::SearchMetric(q.clone(), 10, m));
                }
                ops.push(Op::Search(0, q.clone(), 2));
                ops.push(Op::Search(0, q.clone(), 10));
                ops.push(Op::SearchFiltered(0, q.clone(), 2, 1, 2, 3));
            }
            ops.push(Op::Delete(0, 5));
            ops.push(Op::SearchMetric(qs[0].clone(), 3, 2));
            ops.push(Op::BatchDelete(vec![0, 1, 2]));
            ops.push(Op::SearchMetric(qs[1].clone(), 3, 1)); // below the threshold of 4 again: sequential twin
            let (t, _) = run_trace_par(2, 0, par, &ops);
            trace.push(&t, &format!("corpus parallel twins of the exact scan, parallel_threshold={par} ops={:?}", ops), true);
            dist.hit("corpus");
        }
        // all-zero vectors stored among others BEFORE the index is built, then index-answered searches
        let mut zr = Rng::new(0x2E70);
        for c in [0u64, 0, 0, 1, 0] {
            let ops = gen_zero_index(&mut zr, c, &mut dist);
            let (t, _) = run_trace(2, &ops);
            trace.push(&t, &format!("corpus all-zero vectors before build_and_cache_index, collection {c} ops={:?}", ops), true);
            dist.hit("corpus");
        }
        // oversample_factor 0 and 1 (post-filter and auto): the matching vectors are ranked beyond top_k
        let mut orr = Rng::new(0x0F5);
        for (c, ovs) in [(0u64, 1u64), (1, 1), (0, 0), (1, 0), (0, 2), (1, 1)] {
            let ops = gen_window(&mut orr, c, ovs, &mut dist);
            let (t, _) = run_trace(2, &ops);
            trace.push(&t, &format!("corpus filtered search oversample_factor={ovs}, matches beyond top_k, collection {c} ops={:?}", ops), true);
            dist.hit("corpus");
        }
        // partly filled oversample windows, default and named collection
        let mut cr = Rng::new(0xC06);
        for c in [1u64, 0, 1, 0] {
            let ops = gen_partial_window(&mut cr, c, &mut dist);
            let (t, _) = run_trace(2, &ops);
            trace.push(&t, &format!("corpus filtered search, partly filled window, collection {c} ops={:?}", ops), true);
            dist.hit("corpus");
        }
    }

    let ntrace = args.budget(500, 8000);
    for _ in 0..ntrace {
        let ncoll = *rng.pick(&[1u64, 2, 2, 3]);
        let len = rng.range(4, 26) as usize;
        let (maxd, mut ops) = gen_ops(&mut rng, ncoll, len, &mut dist);
        if rng.chance(1, 5) {
            // a partly filled oversample window / a zero-vector index scenario somewhere in the program (fresh collection keys may collide
            // with earlier ones: that only changes which case it is)
            let c = if ncoll > 1 && rng.chance(2, 3) { rng.range(1, ncoll - 1) } else { 0 };
            let at = rng.below(ops.len() as u64 + 1) as usize;
            let extra = match rng.below(3) {
                0 => gen_partial_window(&mut rng, c, &mut dist),
                1 => {
                    let ovs = rng.below(3);
                    gen_window(&mut rng, c, ovs, &mut dist)
                }
                _ => gen_zero_index(&mut rng, c, &mut dist),
            };
            let tail = ops.split_off(at);
            ops.extend(extra);
            ops.extend(tail);
        }
        // a third of the runs lower parallel_threshold so that the rayon twins of the exact scan answer
        let par = if rng.chance(1, 3) { rng.range(1, 4) } else { 0 };
        if par > 0 {
            dist.hit("cfg.parallel_threshold_small");
            // more metric searches in these runs
            let extra = rng.range(1, 3);
            for _ in 0..extra {
                let src: Vec<&V> = ops.iter().filter_map(|o| match o { Op::Store(0, _, v) if !v.is_empty() => Some(v), _ => None }).collect();
                if let Some(v) = src.first() {
                    let q: V = if rng.chance(1, 2) { (*rng.pick(&src)).clone() } else { gen_vec(&mut rng, v.len(), &mut dist) };
                    let kk = *rng.pick(&[1u64, 2, 3, 10]);
                    ops.push(Op::SearchMetric(q, kk, rng.range(1, 2)));
                }
            }
        }
        let (t, cached) = run_trace_par(ncoll, maxd, par, &ops);
        dist.hit(if cached { "trace.search_after_build" } else { "trace.exact_only" });
        trace.push(&t, &format!("ncoll={ncoll} max_dimension={maxd} parallel_threshold={par} ops={:?}", ops), ops.iter().any(|o| matches!(o, Op::Search(..) | Op::SearchMetric(..) | Op::SearchFiltered(..))));
    }

    // ---- known finding reserved-default-name (implementation only): a named collection called
    // "_default" shares the cache slot of the default collection
    let mut hits = Hits::default();
    let mut reserved = CaseWriter::new(&args.out, "reserved");
    {
        let e = VectorEngine::new();
        e.store_embedding("a", vec![1.0, 0.0, 0.0]).unwrap();
        e.store_embedding("b", vec![0.0, 1.0, 0.0]).unwrap();
        e.store_in_collection("_default", "x", vec![0.0, 0.0, 1.0]).unwrap();
        e.build_and_cache_index(HNSWConfig::default()).unwrap();
        let live: Vec<String> = e.list_collection_keys("_default");
        let r = e.search_in_collection("_default", &[1.0, 0.1, 0.0], 5);
        let returned: Vec<String> = r.map(|l| l.into_iter().map(|x| x.key).collect()).unwrap_or_default();
        let foreign: Vec<&String> = returned.iter().filter(|k| !live.contains(k)).collect();
        reserved.push("0", &format!("named collection \"_default\": live keys {:?}, search returned {:?}", live, returned), true);
        dist.hit("reserved.default_name");
        if !foreign.is_empty() {
            hits.push(
                "reserved-default-name",
                &format!("search_in_collection(\"_default\") returned keys {:?} that are not in that collection (its keys: {:?})", foreign, live),
                json!({"ops": ["store_embedding a [1,0,0]", "store_embedding b [0,1,0]", "store_in_collection _default x [0,0,1]", "build_and_cache_index", "search_in_collection _default [1,0.1,0] 5"]}),
            );
        }
    }

    // ---- representation round trip on the real SparseVector
    let mut sparse = CaseWriter::new(&args.out, "sparse");
    let nsparse = args.budget(400, 20000);
    let specials = [0.0f32, -0.0, 1.0, -1.0, f32::NAN, f32::INFINITY, f32::NEG_INFINITY, 1e-7, -1e-7, f32::MIN_POSITIVE, 1e-45, 5e-7, 2e-6];
    for i in 0..nsparse {
        let dim = if i < 3 { i } else { rng.range(1, 9) as usize };
        let v: Vec<f32> = (0..dim)
            .map(|_| match rng.below(4) {
                0 => 0.0,
                1 => *rng.pick(&specials),
                2 => *rng.pick(&VALS),
                _ => f32::from_bits(rng.next() as u32),
            })
            .collect();
        let back = SparseVector::from_dense(&v).to_dense();
        let (vb, bb) = (bits(&v), bits(&back));
        dist.hit(if vb.iter().any(|x| *x == 0x8000_0000) { "sparse.has_negzero" } else { "sparse.no_negzero" });
        sparse.push(&format!("({}, {})", vcoq(&vb), vcoq(&bb)), &format!("v={:?} back={:?}", v, back), v.iter().any(|x| *x != 0.0));
    }

    // ---- the real HNSW index, directly: 20-200 nodes, dims 2-8, every metric's default (cosine)
    let mut hnsw = CaseWriter::new(&args.out, "hnsw");
    let nh = args.budget(60, 1500);
    for _ in 0..nh {
        let nmax = if rng.chance(1, 4) { 200 } else { 40 };
        let n = rng.range(1, nmax) as usize;
        let dim = rng.range(2, 8) as usize;
        let index = HNSWIndex::with_config(HNSWConfig::default());
        let mut vs: Vec<Vec<f32>> = vec![];
        for _ in 0..n {
            let v: Vec<f32> = if rng.chance(1, 10) && !vs.is_empty() {
                rng.pick(&vs).clone() // duplicates
            } else if rng.chance(1, 8) {
                dist.hit("hnsw.tiny_norm_vector");
                let mut v: Vec<f32> = (0..dim).map(|_| if rng.chance(1, 3) { 0.0 } else { *rng.pick(&TINY[..4]) }).collect();
                v[0] = *rng.pick(&TINY[..3]);
                v
            } else if rng.chance(1, 12) {
                dist.hit("hnsw.huge_norm_vector");
                (0..dim).map(|_| *rng.pick(&HUGE)).collect()
            } else if rng.chance(1, 20) {
                vec![0.0; dim]
            } else {
                (0..dim).map(|_| (rng.below(2001) as f32 - 1000.0) / 250.0).collect()
            };
            index.insert(v.clone());
            vs.push(v);
        }
        let q: Vec<f32> = if rng.chance(1, 8) {
            dist.hit("hnsw.tiny_norm_query");
            let mut q = vec![0.0; dim];
            q[0] = *rng.pick(&TINY[..3]);
            q[dim - 1] = *rng.pick(&TINY[..4]);
            q
        } else if rng.chance(1, 12) {
            (0..dim).map(|_| *rng.pick(&HUGE)).collect()
        } else {
            (0..dim).map(|_| (rng.below(2001) as f32 - 1000.0) / 250.0).collect()
        };
        let k = *rng.pick(&[1usize, 3, 10, 50, 300]);
        let ef = *rng.pick(&[1usize, 10, 50, 200]);
        let hits = if rng.chance(1, 2) { index.search(&q, k) } else { index.search_with_ef(&q, k, ef) };
        let truth: Vec<u32> = vs
            .iter()
            .map(|v| VectorEngine::compute_similarity(&q, v).map(|x| x.to_bits()).unwrap_or(0x7fc0_0000))
            .collect();
        dist.hit(&format!("hnsw.n.{}", if n < 10 { "lt10" } else if n < 50 { "lt50" } else { "ge50" }));
        let term = format!(
            "({k}, {}, {})",
            list(truth.iter().map(|x| format!("{x}"))),
            list(hits.iter().map(|(i, s)| format!("({i}, {})", s.to_bits())))
        );
        hnsw.push(&term, &format!("n={n} dim={dim} k={k} ef={ef} hits={}", hits.len()), hits.len() > 1);
    }

    write_meta(
        &args.out,
        json!({
            "property": "C06", "seed": args.seed, "tier": args.tier,
            "kinds": [trace.summary(), sparse.summary(), reserved.summary(), hnsw.summary()],
            "distribution": dist.json(),
            "hits": hits.0,
            "nontrivial_rule": "trace: contains at least one search; sparse: some component is non-zero; hnsw: more than one hit returned",
        }),
    );
}
