use nvh_common::*;
use tensor_store::*;

fn relerr(a: &[f32], b: &[f32]) -> f64 {
    let num: f64 = a.iter().zip(b).map(|(x, y)| ((*x - *y) as f64).powi(2)).sum::<f64>().sqrt();
    let den: f64 = a.iter().map(|x| (*x as f64).powi(2)).sum::<f64>().sqrt();
    num / den
}
fn main() {
    let args = Args::parse();
    let mut r = Rng::new(args.seed);
    let dir = args.out.clone();
    // probe 1: TT embedding
    let s = TensorStore::new();
    let v: Vec<f32> = (0..384).map(|_| (r.below(2000) as f32 - 1000.0) / 1000.0).collect();
    let mut t = TensorData::new();
    t.set("_embedding", TensorValue::Vector(v.clone()));
    t.set("a", TensorValue::Scalar(ScalarValue::Int(1)));
    s.put("emb:x", t.clone()).unwrap();
    s.put("plain", t.clone()).unwrap();
    let p = dir.join("s.bin");
    s.save_snapshot(&p).unwrap();
    let l = TensorStore::load_snapshot(&p).unwrap();
    for k in ["emb:x", "plain"] {
        let g = l.get(k).unwrap();
        if let Some(TensorValue::Vector(w)) = g.get("_embedding") {
            println!("{k}: relerr {:.4} first {:?} vs {:?}", relerr(&v, w), &v[..3], &w[..3]);
        }
    }
    let b = s.snapshot_bytes().unwrap();
    let s2 = TensorStore::new();
    s2.restore_from_bytes(&b).unwrap();
    if let Some(TensorValue::Vector(w)) = s2.get("emb:x").unwrap().get("_embedding") {
        println!("bytes emb:x relerr {:.4}", relerr(&v, w));
    }
    // smooth vector
    let v2: Vec<f32> = (0..384).map(|i| (i as f32 * 0.01).sin()).collect();
    let mut t2 = TensorData::new();
    t2.set("_embedding", TensorValue::Vector(v2.clone()));
    s.put("emb:y", t2).unwrap();
    s.save_snapshot(&p).unwrap();
    let l = TensorStore::load_snapshot(&p).unwrap();
    if let Some(TensorValue::Vector(w)) = l.get("emb:y").unwrap().get("_embedding") {
        println!("emb:y smooth relerr {:.6}", relerr(&v2, w));
    }
    // probe 2: small-dim router, tiny values
    let cfg = SlabRouterConfig { embedding_dim: 4, ..Default::default() };
    let rt = SlabRouter::with_config(&cfg);
    let mut t3 = TensorData::new();
    t3.set("_embedding", TensorValue::Vector(vec![1.0, 1e-7, -0.0, f32::NAN]));
    rt.put("emb:z", t3).unwrap();
    let rb = rt.to_bytes().unwrap();
    let r2 = SlabRouter::from_bytes(&rb).unwrap();
    println!("small before {:?}", rt.get("emb:z").unwrap().get("_embedding"));
    println!("small after  {:?}", r2.get("emb:z").unwrap().get("_embedding"));
    // probe 3: compressed
    let s3 = TensorStore::new();
    let mut t4 = TensorData::new();
    t4.set("b", TensorValue::Scalar(ScalarValue::Bytes(vec![1, 2, 3])));
    t4.set("ids", TensorValue::Vector(vec![5.0, 3.0, 2.5, -1.0]));
    t4.set("w", TensorValue::Vector(vec![1.0, 1e30]));
    t4.set("sp", TensorValue::Sparse(SparseVector::from_parts(5, vec![1, 3], vec![2.0, -1.0])));
    s3.put("k", t4).unwrap();
    let pc = dir.join("c.bin");
    let cc = tensor_compress::CompressionConfig { tensor_mode: None, delta_encoding: true, rle_encoding: true };
    s3.save_snapshot_compressed(&pc, cc).unwrap();
    let l3 = TensorStore::load_snapshot_compressed(&pc).unwrap();
    println!("compressed: {:?}", l3.get("k").unwrap());
    // probe 4: tmp path
    let pt = dir.join("snap.tmp");
    println!("save to .tmp: {:?}", s3.save_snapshot(&pt).map_err(|e| e.to_string()));
    println!("exists {:?}", pt.exists());
}
