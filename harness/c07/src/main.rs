//! C07 correspondence harness: snapshots of the real tensor_store (files, bytes, quantising format).
//! Case kinds (Gallina terms for NV.C07.Run):
//!   hdr   : (compressed, count, first header bytes of a written file)          -> check_hdr
//!   rt    : (dim, fmt, ops, dump before, dump after) at SlabRouter level        -> check_rt_full
//!   q     : (delta, ops, dump before, dump after) through save/load_snapshot_compressed -> check_q
//!   crash : (tmp_ext, had_old, n, outcomes per truncation, outcome after)       -> check_crash
//! Implementation-only streams (no model evaluation): slabs (every specialised slab compared after a
//! round trip), big (thousands of entries), tt (long embeddings against the documented tolerance).
use nvh_common::*;
use std::collections::BTreeMap;
use std::path::{Path, PathBuf};
use std::sync::{Arc, Mutex};
use tensor_store::*;
use std::result::Result;

// ------------------------------------------------------------------------------------ values
fn bstr(s: &str) -> String {
    bytes(s.as_bytes())
}
fn scalar_coq(s: &ScalarValue) -> String {
    match s {
        ScalarValue::Null => "SNull".into(),
        ScalarValue::Bool(x) => format!("(SBool {})", b(*x)),
        ScalarValue::Int(i) => format!("(SInt {})", z(*i as i128)),
        ScalarValue::Float(f) => format!("(SFloat {})", f.to_bits()),
        ScalarValue::String(s) => format!("(SStr {})", bstr(s)),
        ScalarValue::Bytes(v) => format!("(SBytes {})", bytes(v)),
    }
}
fn vbits(v: &[f32]) -> String {
    list(v.iter().map(|x| format!("{}", x.to_bits())))
}
fn tval_coq(v: &TensorValue) -> String {
    match v {
        TensorValue::Scalar(s) => format!("(TScalar {})", scalar_coq(s)),
        TensorValue::Vector(v) => format!("(TVec {})", vbits(v)),
        TensorValue::Sparse(sv) => format!(
            "(TSparse {} {} {})",
            sv.dimension(),
            list(sv.positions().iter().map(|p| format!("{p}"))),
            vbits(sv.values())
        ),
        TensorValue::Pointer(p) => format!("(TPtr {})", bstr(p)),
        TensorValue::Pointers(ps) => format!("(TPtrs {})", list(ps.iter().map(|p| bstr(p)))),
    }
}
fn sorted_fields(t: &TensorData) -> Vec<(String, TensorValue)> {
    let mut v: Vec<(String, TensorValue)> = t.iter().map(|(k, v)| (k.clone(), v.clone())).collect();
    v.sort_by(|a, b| a.0.as_bytes().cmp(b.0.as_bytes()));
    v
}
fn tdata_coq(t: &TensorData) -> String {
    list(sorted_fields(t).iter().map(|(k, v)| format!("({}, {})", bstr(k), tval_coq(v))))
}
type Dump = Vec<(String, Option<TensorData>)>;
fn dump_coq(d: &Dump) -> String {
    list(d.iter().map(|(k, t)| format!("({}, {})", bstr(k), opt(t.as_ref().map(tdata_coq)))))
}
fn dump_router(r: &SlabRouter) -> Dump {
    let mut keys = r.scan("");
    keys.sort_by(|a, b| a.as_bytes().cmp(b.as_bytes()));
    keys.into_iter().map(|k| { let g = r.get(&k).ok(); (k, g) }).collect()
}
/// bit-exact equality of two values (f32/f64 compared by bit pattern)
fn tval_bits_eq(a: &TensorValue, b: &TensorValue) -> bool {
    tval_coq(a) == tval_coq(b)
}
fn tdata_bits_eq(a: &TensorData, b: &TensorData) -> bool {
    tdata_coq(a) == tdata_coq(b)
}
fn dump_bits_eq(a: &Dump, b: &Dump) -> bool {
    dump_coq(a) == dump_coq(b)
}

const F32_SPECIAL: [u32; 16] = [
    0, 0x8000_0000, 0x3F80_0000, 0xBF80_0000, 0x7F80_0000, 0xFF80_0000, 0x7FC0_0000, 0x0000_0001, 0x33D6_BF95, // 1e-7
    0x358637BD, // 1e-6
    0x358637BE, 0x7149_F2CA, // 1e30
    0x4B00_0000, // 2^23
    0x5F80_0000, // 2^64
    0x4020_0000, // 2.5
    0x40A0_0000, // 5.0
];
fn gen_f32(r: &mut Rng) -> f32 {
    match r.below(10) {
        0..=3 => f32::from_bits(*r.pick(&F32_SPECIAL)),
        4..=6 => r.below(12) as f32,
        7 => (r.below(2000) as f32 - 1000.0) / 8.0,
        8 => f32::from_bits(r.next() as u32),
        _ => (r.below(1 << 26) as f32) * 64.0,
    }
}
fn gen_vec(r: &mut Rng, len: usize) -> Vec<f32> {
    match r.below(6) {
        0 => { let mut x = r.below(5) as f32; (0..len).map(|_| { x += r.below(4) as f32; x }).collect() } // sorted ids
        1 => (0..len).map(|_| if r.chance(2, 3) { 0.0 } else { gen_f32(r) }).collect(),          // mostly zero
        2 => (0..len).map(|_| if r.chance(1, 2) { f32::from_bits(*r.pick(&[0u32, 0x8000_0000, 0x33D6_BF95, 1])) } else { gen_f32(r) }).collect(),
        _ => (0..len).map(|_| gen_f32(r)).collect(),
    }
}
fn gen_string(r: &mut Rng) -> String {
    match r.below(8) {
        0 => String::new(),
        1 => "naïve ☃".to_string(),
        2 => "bytes:3".to_string(),
        3 => "x".repeat(r.range(20, 60) as usize),
        _ => format!("s{}", r.below(50)),
    }
}
fn gen_scalar(r: &mut Rng, dist: &mut Dist) -> ScalarValue {
    match r.below(7) {
        0 => { dist.hit("val.null"); ScalarValue::Null }
        1 => { dist.hit("val.bool"); ScalarValue::Bool(r.chance(1, 2)) }
        2 => { dist.hit("val.int"); ScalarValue::Int(*r.pick(&[i64::MIN, i64::MAX, 0, -1, 1, 42, -7_000_000_000])) }
        3 => { dist.hit("val.float"); ScalarValue::Float(f64::from_bits(*r.pick(&[0u64, 0x8000_0000_0000_0000, 0x7FF0_0000_0000_0000, 0xFFF0_0000_0000_0000, 0x7FF8_0000_0000_0000, 0x7FF8_0000_0000_0001, 1, 0x3FF0_0000_0000_0000, 0x400921FB54442D18]))) }
        4 => { dist.hit("val.string"); ScalarValue::String(gen_string(r)) }
        _ => { dist.hit("val.bytes"); let n = *r.pick(&[0usize, 1, 3, 12]); ScalarValue::Bytes((0..n).map(|_| r.below(256) as u8).collect()) }
    }
}
fn gen_value(r: &mut Rng, dim: usize, dist: &mut Dist) -> TensorValue {
    match r.below(10) {
        0..=3 => TensorValue::Scalar(gen_scalar(r, dist)),
        4..=6 => { dist.hit("val.vector"); let len = if r.chance(1, 2) { dim } else { *r.pick(&[0usize, 1, 2, 3, 5, 8]) }; TensorValue::Vector(gen_vec(r, len)) }
        7 => {
            dist.hit("val.sparse");
            let d = r.range(1, 9) as usize;
            let mut pos: Vec<u32> = (0..d as u32).filter(|_| r.chance(1, 3)).collect();
            r.shuffle(&mut pos);
            let vals: Vec<f32> = pos.iter().map(|_| gen_f32(r)).collect();
            TensorValue::Sparse(SparseVector::from_parts(d, pos, vals))
        }
        8 => { dist.hit("val.pointer"); TensorValue::Pointer(gen_string(r)) }
        _ => { dist.hit("val.pointers"); let n = r.below(4) as usize; TensorValue::Pointers((0..n).map(|_| gen_string(r)).collect()) }
    }
}
const FIELD_NAMES: [&str; 10] = ["_embedding", "vector", "ids", "x_ids", "a", "b", "", "name", "é", "_type"];
const KEY_PREFIX: [&str; 9] = ["emb:", "emb:", "node:", "edge:", "table:", "_cache:", "", "_blob:meta:", "user:"];
fn gen_key(r: &mut Rng, dist: &mut Dist) -> String {
    let p = *r.pick(&KEY_PREFIX);
    dist.hit(&format!("key.{}", if p.is_empty() { "plain" } else { p.trim_end_matches(':') }));
    if p.is_empty() && r.chance(1, 10) { return String::new(); }
    if r.chance(1, 12) { return format!("{p}ü{}", r.below(3)); }
    format!("{p}{}", r.below(4))
}
fn gen_tdata(r: &mut Rng, dim: usize, emb_bias: bool, dist: &mut Dist) -> TensorData {
    let mut t = TensorData::new();
    let n = r.below(4) as usize;
    for _ in 0..n {
        let f = *r.pick(&FIELD_NAMES);
        t.set(f, gen_value(r, dim, dist));
    }
    if emb_bias && r.chance(3, 4) {
        dist.hit("val.embedding_of_slab_dim");
        t.set("_embedding", TensorValue::Vector(gen_vec(r, dim)));
    }
    t
}
#[derive(Clone)]
enum Op { Put(String, TensorData), Delete(String) }
impl Op {
    fn coq(&self) -> String {
        match self {
            Op::Put(k, t) => format!("OPut {} {}", bstr(k), tdata_coq(t)),
            Op::Delete(k) => format!("ODelete {}", bstr(k)),
        }
    }
    fn human(&self) -> String {
        match self {
            Op::Put(k, t) => format!("put({k:?}, {:?})", sorted_fields(t)),
            Op::Delete(k) => format!("delete({k:?})"),
        }
    }
}
fn gen_ops(r: &mut Rng, dim: usize, max: u64, dist: &mut Dist) -> Vec<Op> {
    let n = r.range(0, max) as usize;
    let mut ops = Vec::new();
    let mut keys: Vec<String> = Vec::new();
    for _ in 0..n {
        if !keys.is_empty() && r.chance(1, 6) {
            let k = r.pick(&keys).clone();
            dist.hit("op.delete");
            ops.push(Op::Delete(k));
        } else {
            let k = if !keys.is_empty() && r.chance(1, 4) { r.pick(&keys).clone() } else { gen_key(r, dist) };
            let emb = k.starts_with("emb:");
            keys.push(k.clone());
            dist.hit("op.put");
            ops.push(Op::Put(k, gen_tdata(r, dim, emb, dist)));
        }
    }
    ops
}
fn apply_router(r: &SlabRouter, ops: &[Op]) {
    for o in ops {
        match o {
            Op::Put(k, t) => { let _ = r.put(k, t.clone()); }
            Op::Delete(k) => { let _ = r.delete(k); }
        }
    }
}

// ------------------------------------------------------------------------------------ raw round trips
fn router_roundtrip(r: &SlabRouter, fmt: u64, dir: &Path, tag: &str) -> Result<(SlabRouter, Option<Vec<u8>>), String> {
    match fmt {
        0 | 1 => {
            let p = dir.join(format!("{tag}.bin"));
            let _ = std::fs::remove_file(&p);
            if fmt == 0 { r.save_to_file(&p).map_err(|e| e.to_string())?; } else { snapshot::save_v3_uncompressed(r, &p).map_err(|e| e.to_string())?; }
            let raw = std::fs::read(&p).map_err(|e| e.to_string())?;
            let l = SlabRouter::load_from_file(&p).map_err(|e| e.to_string())?;
            Ok((l, Some(raw)))
        }
        _ => {
            let bs = r.to_bytes().map_err(|e| e.to_string())?;
            Ok((SlabRouter::from_bytes(&bs).map_err(|e| e.to_string())?, None))
        }
    }
}

// every specialised slab, canonicalised to a string, for implementation-only comparison
fn slabs_view(r: &SlabRouter, nodes: u64, chunks: &[ChunkHash]) -> BTreeMap<String, String> {
    let mut m = BTreeMap::new();
    let mut names = r.relations.table_names();
    names.sort();
    for t in &names {
        let sch = r.relations.get_schema(t);
        m.insert(format!("rel.schema.{t}"), format!("{:?}", sch.map(|s| (s.columns.iter().map(|c| (c.name.clone(), format!("{:?}", c.col_type), c.nullable)).collect::<Vec<_>>(), s.primary_key))));
        let mut rows = r.relations.scan_all(t).unwrap_or_default();
        rows.sort_by_key(|(id, _)| *id);
        m.insert(format!("rel.rows.{t}"), format!("{:?}", rows.iter().map(|(id, row)| (id.0, row.iter().map(colval).collect::<Vec<_>>())).collect::<Vec<_>>()));
    }
    m.insert("rel.tables".into(), format!("{names:?}"));
    let mut idx = r.index.scan_prefix("");
    idx.sort();
    m.insert("index".into(), format!("{:?}", idx.iter().map(|(k, id)| (k.clone(), id.as_u64())).collect::<Vec<_>>()));
    let mut es = r.embeddings.entries();
    es.sort_by_key(|(id, _)| *id);
    m.insert("embeddings.ids".into(), format!("{:?}", es.iter().map(|(id, _)| id.as_u64()).collect::<Vec<_>>()));
    for n in 0..nodes {
        let mut o: Vec<(u64, u64)> = r.graph.outgoing(EntityId::new(n)).iter().map(|(t, e)| (t.as_u64(), e.0)).collect();
        o.sort();
        let mut i: Vec<(u64, u64)> = r.graph.incoming(EntityId::new(n)).iter().map(|(t, e)| (t.as_u64(), e.0)).collect();
        i.sort();
        m.insert(format!("graph.out.{n}"), format!("{o:?}"));
        m.insert(format!("graph.in.{n}"), format!("{i:?}"));
        for (_, e) in &o {
            m.insert(format!("graph.data.{e}"), format!("{:?}", r.graph.get_edge_data(EdgeId::new(*e)).map(|t| tdata_coq(&t))));
        }
    }
    m.insert("graph.edge_count".into(), format!("{}", r.graph.edge_count()));
    for c in chunks {
        m.insert(format!("blob.{}", c.0), format!("{:?}", r.blobs.get(c)));
    }
    m.insert("blob.count".into(), format!("{}", r.blobs.chunk_count()));
    m
}
fn colval(c: &ColumnValue) -> String {
    match c {
        ColumnValue::Float(f) => format!("F{}", f.to_bits()),
        other => format!("{other:?}"),
    }
}
fn gen_colval(r: &mut Rng, t: &ColumnType, nullable: bool) -> ColumnValue {
    if nullable && r.chance(1, 5) { return ColumnValue::Null; }
    match t {
        ColumnType::Int => ColumnValue::Int(*r.pick(&[i64::MIN, i64::MAX, 0, -1, 7])),
        ColumnType::Float => ColumnValue::Float(f64::from_bits(*r.pick(&[0u64, 0x8000_0000_0000_0000, 0x7FF8_0000_0000_0000, 0x7FF0_0000_0000_0000, 0x400921FB54442D18]))),
        ColumnType::String | ColumnType::Json => ColumnValue::String(gen_string(r)),
        ColumnType::Bool => ColumnValue::Bool(r.chance(1, 2)),
        ColumnType::Bytes => ColumnValue::Bytes((0..r.below(5)).map(|_| r.below(256) as u8).collect()),
        #[allow(unreachable_patterns)]
        _ => ColumnValue::Null,
    }
}
/// fills relations / graph / blobs of a router directly; returns (node count, chunk hashes)
fn fill_slabs(r: &mut Rng, rt: &SlabRouter, dist: &mut Dist) -> (u64, Vec<ChunkHash>) {
    let ntab = r.below(3);
    for ti in 0..ntab {
        let types = [ColumnType::Int, ColumnType::Float, ColumnType::String, ColumnType::Bool, ColumnType::Bytes];
        let ncol = r.range(1, 4) as usize;
        let cols: Vec<ColumnDef> = (0..ncol).map(|i| ColumnDef::new(&format!("c{i}"), r.pick(&types).clone(), r.chance(1, 2))).collect();
        let schema = if r.chance(1, 3) { TableSchema::new(cols.clone()).with_primary_key("c0") } else { TableSchema::new(cols.clone()) };
        let name = format!("t{ti}");
        if rt.relations.create_table(&name, schema).is_err() { continue; }
        dist.hit("slab.table");
        let nrows = r.below(6);
        let mut ids = vec![];
        for _ in 0..nrows {
            let row: Row = cols.iter().map(|c| gen_colval(r, &c.col_type, c.nullable)).collect();
            if let Ok(id) = rt.relations.insert(&name, row) { ids.push(id); dist.hit("slab.row"); }
        }
        if !ids.is_empty() && r.chance(1, 3) { let _ = rt.relations.delete(&name, *r.pick(&ids)); dist.hit("slab.row_delete"); }
        if r.chance(1, 3) { let _ = rt.relations.create_index(&name, "c0"); dist.hit("slab.index"); }
    }
    let nodes = r.below(5);
    let mut edges = vec![];
    if nodes > 0 {
        for _ in 0..r.below(7) {
            let e = rt.graph.add_edge(EntityId::new(r.below(nodes)), EntityId::new(r.below(nodes)), *r.pick(&["knows", "likes"]), r.chance(1, 2));
            dist.hit("slab.edge");
            if r.chance(1, 2) { let mut t = TensorData::new(); t.set("w", TensorValue::Scalar(ScalarValue::Int(r.below(9) as i64))); rt.graph.set_edge_data(e, t); }
            edges.push(e);
        }
        if r.chance(1, 2) { rt.graph.merge(); }
        if !edges.is_empty() && r.chance(1, 3) { rt.graph.delete_edge(*r.pick(&edges)); dist.hit("slab.edge_delete"); }
        if r.chance(1, 3) { rt.graph.merge(); dist.hit("slab.merge_after_delete"); }
    }
    let mut chunks = vec![];
    for _ in 0..r.below(4) {
        let data: Vec<u8> = (0..r.below(40)).map(|_| r.below(256) as u8).collect();
        chunks.push(rt.blobs.append(&data));
        dist.hit("slab.chunk");
    }
    (nodes, chunks)
}

// ------------------------------------------------------------------------------------ crash machinery
#[derive(Clone, Copy, PartialEq)]
enum Fmt { FileZstd, FileRaw, Quant }
fn save_store(s: &TensorStore, p: &Path, fmt: Fmt) -> Result<(), String> {
    match fmt {
        Fmt::FileZstd => s.save_snapshot(p).map_err(|e| e.to_string()),
        Fmt::FileRaw => snapshot::save_v3_uncompressed(s.router(), p).map_err(|e| e.to_string()),
        Fmt::Quant => s.save_snapshot_compressed(p, tensor_compress::CompressionConfig { tensor_mode: None, delta_encoding: false, rle_encoding: false }).map_err(|e| e.to_string()),
    }
}
fn load_store(p: &Path, fmt: Fmt) -> Result<TensorStore, String> {
    match fmt {
        Fmt::Quant => TensorStore::load_snapshot_compressed(p).map_err(|e| e.to_string()),
        _ => TensorStore::load_snapshot(p).map_err(|e| e.to_string()),
    }
}
/// outcome code of loading `p`: 0 error, 1 old, 2 new, 3 other, 4 panic
fn outcome(p: &Path, fmt: Fmt, old: Option<&Dump>, new: &Dump) -> u64 {
    let pp = p.to_path_buf();
    match guarded(move || load_store(&pp, fmt).map(|s| dump_router(s.router()))) {
        Err(_) => 4,
        Ok(Err(_)) => if old.is_none() && !p.exists() { 1 } else { 0 },
        Ok(Ok(d)) => {
            if dump_bits_eq(&d, new) { 2 } else if old.map_or(false, |o| dump_bits_eq(&d, o)) { 1 } else { 3 }
        }
    }
}

struct Captured { files: Vec<(PathBuf, Vec<u8>)> }

fn main() {
    let args = Args::parse();
    quiet_panics();
    let mut rng = Rng::new(args.seed);
    let mut dist = Dist::default();
    let mut hits = Hits::default();
    let scratch = args.out.join("scratch");
    std::fs::create_dir_all(&scratch).unwrap();

    let mut hdr = CaseWriter::new(&args.out, "hdr");
    let mut rt = CaseWriter::new(&args.out, "rt");
    let mut q = CaseWriter::new(&args.out, "q");
    let mut crash = CaseWriter::new(&args.out, "crash");
    let mut slabs = CaseWriter::new(&args.out, "slabs");
    let mut big = CaseWriter::new(&args.out, "big");
    let mut tt = CaseWriter::new(&args.out, "tt");

    // ---------------------------------------------------------------- rt (+hdr): corpus first
    let mut rt_inputs: Vec<(usize, u64, Vec<Op>)> = vec![];
    {
        // F-C07-tiny: slab dimension 4, vector with entries the sparse rule rewrites
        let mut t = TensorData::new();
        t.set("_embedding", TensorValue::Vector(vec![1.0, 1e-7, -0.0, f32::NAN]));
        rt_inputs.push((4, 2, vec![Op::Put("emb:z".into(), t.clone())]));
        rt_inputs.push((4, 0, vec![Op::Put("emb:z".into(), t)]));
        // stale slab vector kept when a later put has no _embedding; delete + re-create (tombstone)
        let mut a = TensorData::new();
        a.set("_embedding", TensorValue::Vector(vec![1.0, 2.0]));
        let mut bb = TensorData::new();
        bb.set("a", TensorValue::Scalar(ScalarValue::Int(1)));
        rt_inputs.push((2, 1, vec![Op::Put("emb:1".into(), a.clone()), Op::Put("emb:1".into(), bb.clone()), Op::Delete("emb:1".into()), Op::Put("emb:1".into(), a), Op::Put("emb:2".into(), bb)]));
    }
    let nrt = args.budget(350, 12000);
    for _ in 0..nrt {
        let dim = *rng.pick(&[2usize, 3, 4, 8]);
        let fmt = rng.below(3);
        let ops = gen_ops(&mut rng, dim, 7, &mut dist);
        rt_inputs.push((dim, fmt, ops));
    }
    for (i, (dim, fmt, ops)) in rt_inputs.iter().enumerate() {
        let cfg = SlabRouterConfig { embedding_dim: *dim, ..Default::default() };
        let r = SlabRouter::with_config(&cfg);
        apply_router(&r, ops);
        let before = dump_router(&r);
        dist.hit(&format!("rt.fmt.{fmt}"));
        let count = (r.len() + r.index.len()) as u64;
        match router_roundtrip(&r, *fmt, &scratch, "rt") {
            Ok((l, raw)) => {
                let after = dump_router(&l);
                let term = format!("({}, {}, {}, {}, {})", dim, fmt, list(ops.iter().map(|o| o.coq())), dump_coq(&before), dump_coq(&after));
                let human = format!("rt#{i} dim={dim} fmt={fmt} ops=[{}]", ops.iter().map(|o| o.human()).collect::<Vec<_>>().join("; "));
                rt.push(&term, &human, before.len() >= 1);
                if let Some(raw) = raw {
                    let n20 = raw.len().min(20);
                    hdr.push(&format!("({}, {}, {})", b(*fmt == 0), count, bytes(&raw[..n20])), &format!("hdr of rt#{i}: compressed={} count={count}", *fmt == 0), count > 0);
                }
            }
            Err(e) => hits.push("roundtrip-error", &format!("round trip failed: {e}"), json!({"kind": "rt", "index": i, "ops": ops.iter().map(|o| o.human()).collect::<Vec<_>>() })),
        }
    }

    // ---------------------------------------------------------------- slabs (implementation only)
    let nsl = args.budget(150, 4000);
    for i in 0..nsl {
        let dim = *rng.pick(&[2usize, 4, 8]);
        let cfg = SlabRouterConfig { embedding_dim: dim, ..Default::default() };
        let r = SlabRouter::with_config(&cfg);
        let ops = gen_ops(&mut rng, dim, 5, &mut dist);
        apply_router(&r, &ops);
        let (nodes, chunks) = fill_slabs(&mut rng, &r, &mut dist);
        let fmt = rng.below(3);
        let v0 = slabs_view(&r, nodes, &chunks);
        match router_roundtrip(&r, fmt, &scratch, "sl") {
            Ok((l, _)) => {
                let v1 = slabs_view(&l, nodes, &chunks);
                // taking the snapshot must not change what the live store answers
                let v0b = slabs_view(&r, nodes, &chunks);
                if let Some(k) = v0.keys().chain(v0b.keys()).find(|k| v0.get(*k) != v0b.get(*k)) {
                    hits.push("save-changes-live-store", &format!("slab view {k} of the LIVE store changed by saving it (fmt {fmt}): before {:?} after the save {:?}", v0.get(k), v0b.get(k)), json!({"kind": "slabs", "index": i, "seed": args.seed}));
                }
                let diff: Vec<&String> = v0.keys().chain(v1.keys()).filter(|k| v0.get(*k) != v1.get(*k)).collect();
                slabs.push(&format!("{i}"), &format!("slabs#{i} fmt={fmt} view={v0:?}"), v0.len() > 6);
                if !diff.is_empty() {
                    let k = diff[0];
                    let class = if k.starts_with("graph") { "graph-tensor-roundtrip" } else if k.starts_with("rel") { "relational-roundtrip" } else if k.starts_with("blob") { "blob-roundtrip" } else { "index-roundtrip" };
                    hits.push(class, &format!("slab view {k} differs after a round trip (fmt {fmt}): before {:?} after {:?}", v0.get(k), v1.get(k)), json!({"kind": "slabs", "index": i, "seed": args.seed, "before": v0.get(k), "after": v1.get(k)}));
                }
            }
            Err(e) => hits.push("roundtrip-error", &format!("round trip failed: {e}"), json!({"kind": "slabs", "index": i})),
        }
    }

    // ---------------------------------------------------------------- q: quantising format
    let mut q_inputs: Vec<(bool, Vec<Op>)> = vec![];
    {
        let mut t = TensorData::new();
        t.set("b", TensorValue::Scalar(ScalarValue::Bytes(vec![1, 2, 3])));
        q_inputs.push((false, vec![Op::Put("k".into(), t)]));                         // F-C07-bytes
        let mut t = TensorData::new();
        t.set("ids", TensorValue::Vector(vec![5.0, 3.0, 2.5, -1.0]));
        q_inputs.push((true, vec![Op::Put("k".into(), t.clone())]));                   // F-C07-ids
        q_inputs.push((false, vec![Op::Put("k".into(), t)]));
        let mut t = TensorData::new();
        t.set("w", TensorValue::Vector(vec![1.0, 1e30]));
        t.set("sp", TensorValue::Sparse(SparseVector::from_parts(5, vec![1, 3], vec![2.0, -1.0])));
        q_inputs.push((true, vec![Op::Put("k".into(), t)]));
    }
    let nq = args.budget(350, 12000);
    for _ in 0..nq {
        let delta = rng.chance(1, 2);
        let ops = gen_ops(&mut rng, 4, 6, &mut dist);
        q_inputs.push((delta, ops));
    }
    for (i, (delta, ops)) in q_inputs.iter().enumerate() {
        let s = TensorStore::new();
        apply_router(s.router(), ops);
        let before = dump_router(s.router());
        let p = scratch.join("q.bin");
        let _ = std::fs::remove_file(&p);
        let cfg = tensor_compress::CompressionConfig { tensor_mode: None, delta_encoding: *delta, rle_encoding: rng.chance(1, 2) };
        dist.hit(if *delta { "q.delta_on" } else { "q.delta_off" });
        let res = s.save_snapshot_compressed(&p, cfg).map_err(|e| e.to_string()).and_then(|_| TensorStore::load_snapshot_compressed(&p).map_err(|e| e.to_string()));
        match res {
            Ok(l) => {
                let after = dump_router(l.router());
                let term = format!("({}, {}, {}, {})", b(*delta), list(ops.iter().map(|o| o.coq())), dump_coq(&before), dump_coq(&after));
                let human = format!("q#{i} delta={delta} ops=[{}]", ops.iter().map(|o| o.human()).collect::<Vec<_>>().join("; "));
                q.push(&term, &human, before.len() >= 1);
            }
            Err(e) => hits.push("roundtrip-error", &format!("compressed round trip failed: {e}"), json!({"kind": "q", "index": i, "ops": ops.iter().map(|o| o.human()).collect::<Vec<_>>() })),
        }
    }

    // ---------------------------------------------------------------- crash: real mid-save state through the hook
    let ncrash = args.budget(24, 400);
    let cap: Arc<Mutex<Option<(PathBuf, Captured)>>> = Arc::new(Mutex::new(None));
    for i in 0..ncrash + 3 {
        // corpus: i = 0,1,2 -> path with the temp extension, one per format
        let tmp_ext = i < 3 || rng.chance(1, 6);
        let fmt = if i < 3 { [Fmt::FileZstd, Fmt::FileRaw, Fmt::Quant][i] } else { *rng.pick(&[Fmt::FileZstd, Fmt::FileRaw, Fmt::Quant]) };
        let had_old = i < 3 || rng.chance(4, 5);
        let dir = scratch.join(format!("crash{i}"));
        let _ = std::fs::remove_dir_all(&dir);
        std::fs::create_dir_all(&dir).unwrap();
        let path = dir.join(if tmp_ext { "snap.tmp" } else { "snap.bin" });
        let mk = |rng: &mut Rng, dist: &mut Dist| { let s = TensorStore::new(); let ops = gen_ops(rng, 4, 4, dist); apply_router(s.router(), &ops); let mut t = TensorData::new(); t.set("gen", TensorValue::Scalar(ScalarValue::Int(rng.below(1 << 40) as i64))); s.put("marker", t).unwrap(); s };
        let old_store = mk(&mut rng, &mut dist);
        let new_store = mk(&mut rng, &mut dist);
        // "the complete previous / new snapshot" = what loading the complete file yields
        let ref_path = dir.join("ref.dat");
        save_store(&old_store, &ref_path, fmt).unwrap();
        let old_dump = dump_router(load_store(&ref_path, fmt).unwrap().router());
        save_store(&new_store, &ref_path, fmt).unwrap();
        let new_dump = dump_router(load_store(&ref_path, fmt).unwrap().router());
        let _ = std::fs::remove_file(&ref_path);
        if had_old { save_store(&old_store, &path, fmt).unwrap(); }
        let old_bytes = if had_old { Some(std::fs::read(&path).unwrap()) } else { None };
        // capture the directory at the point between the temp write and the rename
        *cap.lock().unwrap() = None;
        let cap2 = cap.clone();
        let dir2 = dir.clone();
        verif_hook::set(Some(Arc::new(move |name: &str| {
            if name == "snapshot.before_rename" {
                let mut files = vec![];
                for e in std::fs::read_dir(&dir2).unwrap().flatten() {
                    files.push((e.path(), std::fs::read(e.path()).unwrap_or_default()));
                }
                *cap2.lock().unwrap() = Some((dir2.clone(), Captured { files }));
            }
        })));
        let res = save_store(&new_store, &path, fmt);
        verif_hook::set(None);
        if let Err(e) = res { hits.push("save-error", &format!("save failed: {e}"), json!({"kind": "crash", "index": i})); continue; }
        let final_bytes = std::fs::read(&path).unwrap();
        let leftovers: Vec<PathBuf> = std::fs::read_dir(&dir).unwrap().flatten().map(|e| e.path()).filter(|p| *p != path).collect();
        // the state the hook saw: which file held the new content, what `path` held
        let captured = cap.lock().unwrap().take();
        let (temp_file, at_hook_path): (PathBuf, Option<Vec<u8>>) = match &captured {
            Some((_, c)) => {
                dist.hit("crash.hook_fired");
                let at_path = c.files.iter().find(|(p, _)| *p == path).map(|(_, b)| b.clone());
                let temp = c.files.iter().find(|(p, b)| *p != path && *b == final_bytes).map(|(p, _)| p.clone());
                match temp {
                    Some(t) => (t, at_path),
                    None => (path.clone(), at_path), // the new content was being written to `path` itself
                }
            }
            None => { dist.hit("crash.hook_missed"); let mut nm = path.as_os_str().to_owned(); nm.push(".tmp"); (PathBuf::from(nm), old_bytes.clone()) }
        };
        let writes_in_place = temp_file == path;
        dist.hit(if writes_in_place { "crash.in_place" } else { "crash.sibling_temp" });
        if !writes_in_place && at_hook_path != old_bytes {
            hits.push("path-touched-before-rename", "the target path changed before the rename", json!({"kind": "crash", "index": i}));
        }
        // crash states before the rename: temp truncated at every byte
        let n = final_bytes.len();
        let sim = dir.join("sim");
        let mut outs = Vec::with_capacity(n + 1);
        for k in 0..=n {
            let _ = std::fs::remove_dir_all(&sim);
            std::fs::create_dir_all(&sim).unwrap();
            let sp = sim.join(path.file_name().unwrap());
            let st = sim.join(temp_file.file_name().unwrap());
            if let Some(ob) = &old_bytes { std::fs::write(&sp, ob).unwrap(); }
            std::fs::write(&st, &final_bytes[..k]).unwrap(); // File::create truncates; then a prefix reaches the disk
            outs.push(outcome(&sp, fmt, if had_old { Some(&old_dump) } else { None }, &new_dump));
        }
        let after = outcome(&path, fmt, if had_old { Some(&old_dump) } else { None }, &new_dump);
        if !leftovers.is_empty() { dist.hit("crash.temp_left_behind"); }
        dist.add("crash.truncation_points", (n + 1) as u64);
        let term = format!("({}, {}, {}, {}, {})", b(tmp_ext), b(had_old), n, list(outs.iter().map(|o| format!("{o}"))), after);
        let human = format!("crash#{i} path={} fmt={} had_old={had_old} new_len={n} temp={} outcomes(0 err,1 old,2 new,3 other,4 panic)={}", path.file_name().unwrap().to_string_lossy(), match fmt { Fmt::FileZstd => "file+zstd", Fmt::FileRaw => "file", Fmt::Quant => "quantising" }, temp_file.file_name().unwrap().to_string_lossy(), outs.iter().map(|o| format!("{o}")).collect::<String>());
        crash.push(&term, &human, had_old);
        let _ = std::fs::remove_dir_all(&dir);
    }

    // ---------------------------------------------------------------- leftover temp file: an interrupted save left <path>.tmp behind (longer than
    // the next snapshot); the next successful save must still produce exactly the new snapshot
    let mut leftover = CaseWriter::new(&args.out, "leftover");
    for (li, fmt) in [Fmt::FileZstd, Fmt::FileRaw, Fmt::Quant, Fmt::FileZstd, Fmt::FileRaw, Fmt::Quant].iter().enumerate() {
        let dir = scratch.join(format!("leftover{li}"));
        let _ = std::fs::remove_dir_all(&dir);
        std::fs::create_dir_all(&dir).unwrap();
        let path = dir.join("snap.bin");
        // the interrupted save was of a LARGER store (or the leftover is arbitrary bytes)
        let bigs = TensorStore::new();
        for j in 0..60 { let mut d2 = Dist::default(); bigs.put(format!("user:{j}"), gen_tdata(&mut rng, 4, false, &mut d2)).unwrap(); let mut t = TensorData::new(); t.set("pad", TensorValue::Scalar(ScalarValue::String(format!("{j}").repeat(40)))); bigs.put(format!("pad:{j}"), t).unwrap(); }
        let big_path = dir.join("big.dat");
        save_store(&bigs, &big_path, *fmt).unwrap();
        let junk: Vec<u8> = if li < 3 { std::fs::read(&big_path).unwrap() } else { (0..20_000).map(|_| rng.below(256) as u8).collect() };
        let _ = std::fs::remove_file(&big_path);
        for name in ["snap.bin.tmp", "snap.tmp"] { std::fs::write(dir.join(name), &junk).unwrap(); }
        let small = TensorStore::new();
        let mut t = TensorData::new();
        t.set("gen", TensorValue::Scalar(ScalarValue::Int(li as i64)));
        small.put("marker", t).unwrap();
        let res = save_store(&small, &path, *fmt).and_then(|_| load_store(&path, *fmt));
        let file_len = std::fs::metadata(&path).map(|m| m.len()).unwrap_or(0);
        let want = { let ref_path = dir.join("ref.dat"); save_store(&small, &ref_path, *fmt).unwrap(); let d = dump_router(load_store(&ref_path, *fmt).unwrap().router()); (d, std::fs::metadata(&ref_path).map(|m| m.len()).unwrap_or(0)) };
        let fname = ["file+zstd", "file", "quantising"][li % 3];
        leftover.push(&format!("{li}"), &format!("leftover#{li} fmt={fname} stale temp of {} bytes ({}), new snapshot {} bytes", junk.len(), if li < 3 { "a complete larger snapshot" } else { "arbitrary bytes" }, want.1), true);
        dist.hit("leftover.case");
        match res {
            Ok(l) => if !dump_bits_eq(&dump_router(l.router()), &want.0) || file_len != want.1 {
                hits.push("stale-temp-tail", &format!("{fname}: <path>.tmp of {} bytes left by an interrupted save, then a successful save of a {}-byte snapshot: the file at the path has {file_len} bytes and loads as a different store", junk.len(), want.1), json!({"kind": "leftover", "index": li}));
            },
            Err(e) => hits.push("stale-temp-tail", &format!("{fname}: <path>.tmp of {} bytes left by an interrupted save, then a successful save of a {}-byte snapshot: the file at the path has {file_len} bytes and does not load: {e}", junk.len(), want.1), json!({"kind": "leftover", "index": li, "fmt": fname})),
        }
        let _ = std::fs::remove_dir_all(&dir);
    }

    // ---------------------------------------------------------------- entry points: every public save/load pair at TensorStore level,
    // over stores holding every key class; scan, get AND exists are compared after the load (implementation only)
    let mut entry = CaseWriter::new(&args.out, "entry");
    let nentry = args.budget(40, 600);
    for i in 0..nentry {
        let src_bloom = i % 2 == 1;
        let s = if src_bloom { TensorStore::with_default_bloom_filter() } else { TensorStore::new() };
        // one key of every class first, then random operations
        for (j, p) in ["emb:", "node:", "edge:", "table:", "_cache:", "", "_blob:meta:", "user:"].iter().enumerate() {
            let mut d2 = Dist::default();
            s.put(format!("{p}e{j}"), gen_tdata(&mut rng, 4, *p == "emb:", &mut d2)).unwrap();
        }
        for o in gen_ops(&mut rng, 4, 6, &mut dist) {
            match o { Op::Put(k, t) => { let _ = s.put(k, t); } Op::Delete(k) => { let _ = s.delete(&k); } }
        }
        let view = |st: &TensorStore, keys: &[String]| -> Vec<String> {
            let mut sc = st.scan("");
            sc.sort_by(|a, bq| a.as_bytes().cmp(bq.as_bytes()));
            let mut out = vec![format!("scan={sc:?}")];
            for k in keys { out.push(format!("get({k:?})={} exists={}", st.get(k).ok().map(|t| tdata_coq(&t)).unwrap_or_else(|| "NotFound".into()), st.exists(k))); }
            out
        };
        let mut keys = s.scan("");
        keys.sort_by(|a, bq| a.as_bytes().cmp(bq.as_bytes()));
        keys.push("absent:key".to_string());
        let want = view(&s, &keys);
        let p = scratch.join("entry.bin");
        let pairs: Vec<(&str, Box<dyn Fn() -> Result<TensorStore, String>>)> = vec![
            ("save_snapshot -> load_snapshot", Box::new(|| { s.save_snapshot(&p).map_err(|e| e.to_string())?; TensorStore::load_snapshot(&p).map_err(|e| e.to_string()) })),
            ("save_snapshot -> load_snapshot_with_bloom_filter", Box::new(|| { s.save_snapshot(&p).map_err(|e| e.to_string())?; TensorStore::load_snapshot_with_bloom_filter(&p, 1000, 0.01).map_err(|e| e.to_string()) })),
            ("snapshot_bytes -> restore_from_bytes (fresh store)", Box::new(|| { let bs = s.snapshot_bytes().map_err(|e| e.to_string())?; let n = TensorStore::new(); n.restore_from_bytes(&bs).map_err(|e| e.to_string())?; Ok(n) })),
            ("snapshot_bytes -> restore_from_bytes (fresh store with a Bloom filter)", Box::new(|| { let bs = s.snapshot_bytes().map_err(|e| e.to_string())?; let n = TensorStore::with_default_bloom_filter(); n.restore_from_bytes(&bs).map_err(|e| e.to_string())?; Ok(n) })),
            ("snapshot_bytes -> restore_from_bytes (same store, after more writes)", Box::new(|| { let bs = s.snapshot_bytes().map_err(|e| e.to_string())?; let n = if src_bloom { TensorStore::with_default_bloom_filter() } else { TensorStore::new() }; n.restore_from_bytes(&bs).map_err(|e| e.to_string())?; let mut t = TensorData::new(); t.set("x", TensorValue::Scalar(ScalarValue::Int(1))); n.put("later:key", t.clone()).unwrap(); n.put("_cache:later", t).unwrap(); for k in n.scan("") { if k.len() % 2 == 0 { let _ = n.delete(&k); } } n.restore_from_bytes(&bs).map_err(|e| e.to_string())?; Ok(n) })),
        ];
        for (what, f) in &pairs {
            dist.hit(&format!("entry.{}", what.split(" (").next().unwrap().replace(' ', "_")));
            match f() {
                Ok(l) => {
                    let got = view(&l, &keys);
                    if let Some((w, g)) = want.iter().zip(&got).find(|(w, g)| w != g) {
                        hits.push("entry-point-roundtrip", &format!("{what} (source store {} Bloom filter): original {w}; loaded {g}", if src_bloom { "with" } else { "without" }), json!({"kind": "entry", "index": i, "seed": args.seed, "entry_point": what}));
                    }
                }
                Err(e) => hits.push("entry-point-roundtrip", &format!("{what}: failed: {e}"), json!({"kind": "entry", "index": i})),
            }
        }
        // the quantising pair changes values by design in its known classes: compare scan and exists only
        {
            let res = s.save_snapshot_compressed(&p, tensor_compress::CompressionConfig { tensor_mode: None, delta_encoding: true, rle_encoding: true }).map_err(|e| e.to_string()).and_then(|_| TensorStore::load_snapshot_compressed(&p).map_err(|e| e.to_string()));
            match res {
                Ok(l) => {
                    let mut sc = l.scan("");
                    sc.sort_by(|a, bq| a.as_bytes().cmp(bq.as_bytes()));
                    let bad = keys.iter().find(|k| l.exists(k) != s.exists(k) || l.get(k).is_ok() != s.get(k).is_ok());
                    if sc != keys[..keys.len() - 1] || bad.is_some() {
                        hits.push("entry-point-roundtrip", &format!("save_snapshot_compressed -> load_snapshot_compressed: scan {sc:?} vs {:?}; key answering differently: {bad:?}", &keys[..keys.len() - 1]), json!({"kind": "entry", "index": i, "seed": args.seed}));
                    }
                }
                Err(e) => hits.push("entry-point-roundtrip", &format!("save_snapshot_compressed -> load_snapshot_compressed failed: {e}"), json!({"kind": "entry", "index": i})),
            }
        }
        entry.push(&format!("{i}"), &format!("entry#{i} source_bloom={src_bloom} keys={}", keys.len() - 1), true);
    }

    // ---------------------------------------------------------------- observe: a concurrent reader of the path during saves
    let mut observe = CaseWriter::new(&args.out, "observe");
    for (oi, fmt) in [Fmt::FileZstd, Fmt::FileRaw, Fmt::Quant].iter().enumerate() {
        let dir = scratch.join(format!("observe{oi}"));
        let _ = std::fs::remove_dir_all(&dir);
        std::fs::create_dir_all(&dir).unwrap();
        let path = dir.join("snap.bin");
        let mk = |rng: &mut Rng, dist: &mut Dist, tag: i64| { let s = TensorStore::new(); let ops = gen_ops(rng, 4, 4, dist); apply_router(s.router(), &ops); let mut t = TensorData::new(); t.set("gen", TensorValue::Scalar(ScalarValue::Int(tag))); s.put("marker", t).unwrap(); s };
        let (sa, sb) = (mk(&mut rng, &mut dist, 1), mk(&mut rng, &mut dist, 2));
        save_store(&sa, &path, *fmt).unwrap();
        let bytes_a = std::fs::read(&path).unwrap();
        let dump_a = dump_router(load_store(&path, *fmt).unwrap().router());
        save_store(&sb, &path, *fmt).unwrap();
        let bytes_b = std::fs::read(&path).unwrap();
        let dump_b = dump_router(load_store(&path, *fmt).unwrap().router());
        let stop = Arc::new(std::sync::atomic::AtomicBool::new(false));
        let (stop2, path2, fmt2, dir2) = (stop.clone(), path.clone(), *fmt, dir.clone());
        let reader = std::thread::spawn(move || {
            let (mut polls, mut missing, mut foreign) = (0u64, 0u64, 0u64);
            let mut first_bad: Option<String> = None;
            while !stop2.load(std::sync::atomic::Ordering::Relaxed) {
                polls += 1;
                match std::fs::read(&path2) {
                    Err(e) if e.kind() == std::io::ErrorKind::NotFound => { missing += 1; if first_bad.is_none() { first_bad = Some(format!("poll {polls}: no file at the path")); } }
                    Err(_) => {}
                    Ok(bs) => {
                        if bs != bytes_a && bs != bytes_b {
                            // not byte-identical to either complete file: does it at least load as one of them?
                            let probe = dir2.join("probe.bin");
                            let _ = std::fs::write(&probe, &bs);
                            let ok = load_store(&probe, fmt2).map(|s| { let d = dump_router(s.router()); dump_bits_eq(&d, &dump_a) || dump_bits_eq(&d, &dump_b) }).unwrap_or(false);
                            if !ok { foreign += 1; if first_bad.is_none() { first_bad = Some(format!("poll {polls}: {} bytes that are neither snapshot", bs.len())); } }
                        }
                    }
                }
            }
            (polls, missing, foreign, first_bad)
        });
        let saves = args.budget(400, 4000) as u64;
        for k in 0..saves { save_store(if k % 2 == 0 { &sa } else { &sb }, &path, *fmt).unwrap(); }
        stop.store(true, std::sync::atomic::Ordering::Relaxed);
        let (polls, missing, foreign, first_bad) = reader.join().unwrap();
        dist.add("observe.polls", polls);
        dist.add("observe.saves", saves);
        observe.push(&format!("({saves}, {polls}, {missing}, {foreign})"), &format!("observe#{oi} fmt={} saves={saves} polls={polls} polls_without_file={missing} polls_with_foreign_content={foreign} first={first_bad:?}", ["file+zstd", "file", "quantising"][oi]), polls > saves);
        let _ = std::fs::remove_dir_all(&dir);
    }

    // ---------------------------------------------------------------- big stores (implementation only)
    let nbig = args.budget(2, 6);
    for i in 0..nbig {
        let entries = if i == 0 { 0 } else { args.budget(6000, 40000) };
        let s = TensorStore::new();
        let mut d2 = Dist::default();
        for j in 0..entries {
            let p = *rng.pick(&KEY_PREFIX);
            let t = gen_tdata(&mut rng, 4, false, &mut d2);
            s.put(format!("{p}{j}"), t).unwrap();
        }
        dist.add("big.entries", entries as u64);
        let fmtn = i % 3;
        let before = dump_router(s.router());
        let after = match fmtn {
            0 => { let p = scratch.join("big.bin"); s.save_snapshot(&p).unwrap(); dump_router(TensorStore::load_snapshot(&p).unwrap().router()) }
            1 => { let p = scratch.join("big.bin"); snapshot::save_v3_uncompressed(s.router(), &p).unwrap(); dump_router(TensorStore::load_snapshot(&p).unwrap().router()) }
            _ => { let bs = s.snapshot_bytes().unwrap(); dump_router(SlabRouter::from_bytes(&bs).map(|r| r).as_ref().unwrap()) }
        };
        big.push(&format!("{i}"), &format!("big#{i} entries={entries} fmt={fmtn}"), entries > 0);
        if !dump_bits_eq(&before, &after) {
            let bad = before.iter().zip(after.iter()).find(|(a, bb)| a.0 != bb.0 || match (&a.1, &bb.1) { (Some(x), Some(y)) => !tdata_bits_eq(x, y), (None, None) => false, _ => true });
            hits.push("big-roundtrip", &format!("large store differs after round trip (fmt {fmtn}, {entries} entries): first difference {:?}", bad.map(|(a, bb)| (a.0.clone(), a.1.as_ref().map(sorted_fields), bb.1.as_ref().map(sorted_fields)))), json!({"kind": "big", "index": i, "seed": args.seed}));
        }
    }

    // a large, highly repetitive store through the default (zstd) file format: > 1 MiB serialised, compresses > 100x
    {
        let entries = args.budget(5000, 60000);
        let s = TensorStore::new();
        for j in 0..entries {
            let mut t = TensorData::new();
            t.set("vector", TensorValue::Vector(vec![1.0; 64]));
            t.set("name", TensorValue::Scalar(ScalarValue::String("the same string in every entry".into())));
            t.set("zeros", TensorValue::Scalar(ScalarValue::Bytes(vec![0; 32])));
            s.put(format!("{}{j:06}", ["user:", "node:", "emb:", "table:"][j % 4]), t).unwrap();
        }
        dist.add("big.compressible_entries", entries as u64);
        let before = dump_router(s.router());
        let p = scratch.join("bigc.bin");
        let raw_len = s.snapshot_bytes().map(|b| b.len()).unwrap_or(0);
        let res = s.save_snapshot(&p).map_err(|e| e.to_string()).and_then(|_| TensorStore::load_snapshot(&p).map_err(|e| e.to_string()));
        let file_len = std::fs::metadata(&p).map(|m| m.len()).unwrap_or(0);
        big.push("c", &format!("big#compressible entries={entries} serialised={raw_len}B file={file_len}B"), true);
        match res {
            Ok(l) => if !dump_bits_eq(&before, &dump_router(l.router())) { hits.push("big-roundtrip", "large repetitive store differs after save_snapshot/load_snapshot", json!({"kind": "big", "index": "compressible"})); },
            Err(e) => hits.push("big-roundtrip", &format!("{entries} repetitive entries ({raw_len} bytes serialised, {file_len} bytes on disk): save_snapshot succeeded but load_snapshot failed: {e}"), json!({"kind": "big", "index": "compressible", "entries": entries})),
        }
        let _ = std::fs::remove_file(&p);
    }

    // extremely repetitive payloads (> 1 MiB serialised, compressing by far more than 128x): whatever save writes, load must accept
    {
        let fast_eq = |a: &TensorData, bq: &TensorData| -> bool {
            a.len() == bq.len() && a.iter().all(|(k, v)| match (v, bq.get(k)) {
                (TensorValue::Vector(x), Some(TensorValue::Vector(y))) => x.len() == y.len() && x.iter().zip(y).all(|(p, q)| p.to_bits() == q.to_bits()),
                (x, Some(y)) => x == y,
                _ => false,
            })
        };
        let mut cases: Vec<(&str, Vec<(String, TensorData)>)> = vec![];
        let mut t = TensorData::new();
        t.set("z", TensorValue::Vector(vec![0.0; 1_000_000]));
        cases.push(("one vector of 1,000,000 zeros", vec![("zeros".to_string(), t)]));
        let mut t = TensorData::new();
        t.set("s", TensorValue::Scalar(ScalarValue::String(" ".repeat(4 << 20))));
        cases.push(("one 4 MiB blank string", vec![("user:blank".to_string(), t)]));
        let rows = args.budget(30_000, 100_000);
        cases.push(("rows carrying the same string", (0..rows).map(|j| { let mut t = TensorData::new(); t.set("name", TensorValue::Scalar(ScalarValue::String("the same string in every single row of this table, again and again".into()))); ("row".to_string() + &"0".repeat(6 - format!("{j}").len().min(6)) + &format!("{j}"), t) }).collect()));
        for (ci, (what, entries)) in cases.into_iter().enumerate() {
            let s = TensorStore::new();
            for (k, t) in &entries { s.put(k.clone(), t.clone()).unwrap(); }
            let p = scratch.join("bomb.bin");
            let raw_len = s.snapshot_bytes().map(|bs| bs.len()).unwrap_or(0);
            let res = s.save_snapshot(&p).map_err(|e| e.to_string()).and_then(|_| TensorStore::load_snapshot(&p).map_err(|e| e.to_string()));
            let file_len = std::fs::metadata(&p).map(|m| m.len()).unwrap_or(1).max(1);
            dist.add("big.extreme_ratio_x", raw_len as u64 / file_len);
            big.push(&format!("x{ci}"), &format!("big#extreme {what}: serialised={raw_len}B file={file_len}B ratio={}x", raw_len as u64 / file_len), true);
            match res {
                Ok(l) => {
                    let same = l.len() == s.len() && entries.iter().all(|(k, t)| l.get(k).map(|g| fast_eq(t, &g)).unwrap_or(false));
                    if !same { hits.push("big-roundtrip", &format!("{what}: store differs after save_snapshot/load_snapshot"), json!({"kind": "big", "index": format!("extreme{ci}")})); }
                }
                Err(e) => hits.push("big-roundtrip", &format!("{what} ({raw_len} bytes serialised, {file_len} bytes on disk, {}x): save_snapshot succeeded but load_snapshot failed: {e}", raw_len as u64 / file_len), json!({"kind": "big", "index": format!("extreme{ci}"), "what": what})),
            }
            let _ = std::fs::remove_file(&p);
        }
    }

    // ---------------------------------------------------------------- tt: long embeddings against the documented tolerance
    // TTConfig::for_dim documents `tolerance: 1e-4` relative per truncated SVD, i.e. d * 1e-4 for d cores
    // (3e-4 for 384 dimensions, 4e-4 at most for the dimensions used here); the check allows 1e-3.
    const TT_TOL: f64 = 1e-3;
    let ntt = args.budget(30, 300);
    for i in 0..ntt {
        let dim = [384usize, 256, 768][i % 3];
        let kind = (i / 3) % 5;
        let shape = tensor_compress::TTConfig::for_dim(dim).map(|c| c.shape).unwrap_or_else(|_| vec![dim]);
        let mut unif = |r: &mut Rng| (r.below(2_000_001) as f32 - 1_000_000.0) / 1_000_000.0;
        let (v, label): (Vec<f32>, String) = match kind {
            0 => ((0..dim).map(|j| ((j as f32) * 0.01).sin()).collect(), "smooth".into()),
            1 => ((0..dim).map(|_| unif(&mut rng)).collect(), "generic".into()),
            2 => ((0..dim).map(|j| if j % 7 == 0 { unif(&mut rng) } else { 0.0 }).collect(), "sparse".into()),
            _ => {
                // almost low rank in the reshaping the decomposition uses: two separable terms plus noise
                let eps = *rng.pick(&[0.001f32, 0.003, 0.01, 0.03, 0.08]);
                let terms: Vec<Vec<Vec<f32>>> = (0..2).map(|_| shape.iter().map(|n| (0..*n).map(|_| 0.3 + unif(&mut rng).abs()).collect()).collect()).collect();
                let mut base = vec![0f32; dim];
                for (j, slot) in base.iter_mut().enumerate() {
                    let mut rem = j;
                    let mut idx = vec![0usize; shape.len()];
                    for (k, n) in shape.iter().enumerate().rev() { idx[k] = rem % n; rem /= n; }
                    *slot = terms.iter().map(|t| idx.iter().enumerate().map(|(k, ix)| t[k][*ix]).product::<f32>()).sum();
                }
                let norm = (base.iter().map(|x| (*x as f64).powi(2)).sum::<f64>() / dim as f64).sqrt() as f32;
                (base.iter().map(|x| x + eps * norm * (unif(&mut rng) + unif(&mut rng) + unif(&mut rng))).collect(), format!("low-rank+{eps}noise"))
            }
        };
        dist.hit(&format!("tt.{}", if kind >= 3 { "almost_low_rank" } else { ["smooth", "generic", "sparse"][kind] }));
        dist.hit(&format!("tt.dim.{dim}"));
        let cfg = SlabRouterConfig { embedding_dim: dim, ..Default::default() };
        let r = SlabRouter::with_config(&cfg);
        let mut t = TensorData::new();
        t.set("_embedding", TensorValue::Vector(v.clone()));
        r.put("emb:x", t.clone()).unwrap();
        r.put("plain", t).unwrap();
        let fmt = (i / 15) as u64 % 3;
        let l = match router_roundtrip(&r, fmt, &scratch, "tt") { Ok((l, _)) => l, Err(e) => { hits.push("roundtrip-error", &format!("round trip failed: {e}"), json!({"kind": "tt", "index": i})); continue; } };
        let err = |k: &str| -> f64 {
            match l.get(k).ok().and_then(|g| g.get("_embedding").cloned()) {
                Some(TensorValue::Vector(w)) if w.len() == v.len() => {
                    let num: f64 = v.iter().zip(&w).map(|(x, y)| ((*x - *y) as f64).powi(2)).sum::<f64>().sqrt();
                    let den: f64 = v.iter().map(|x| (*x as f64).powi(2)).sum::<f64>().sqrt();
                    if den == 0.0 { num } else { num / den }
                }
                _ => f64::INFINITY,
            }
        };
        let (e_emb, e_plain) = (err("emb:x"), err("plain"));
        tt.push(&format!("{i}"), &format!("tt#{i} dim={dim} kind={label} fmt={fmt} relerr(emb:x)={e_emb:.6} relerr(plain)={e_plain:.6}"), true);
        if e_plain != 0.0 {
            hits.push("plain-vector-changed", &format!("{dim}-dim vector under a plain key changed: relative error {e_plain}"), json!({"kind": "tt", "index": i}));
        }
        if !(e_emb <= TT_TOL) {
            hits.push("tt-lossy", &format!("{dim}-dim embedding ({label}) under emb:x came back with relative error {e_emb:.5} (documented TT tolerance d*1e-4 <= 4e-4, allowed {TT_TOL})"), json!({"kind": "tt", "index": i, "seed": args.seed, "relerr": e_emb, "dim": dim, "vector": label}));
        }
    }
    // restore_from_bytes into a store drops the relational slab (shared root cause with C08)
    {
        let s = TensorStore::new();
        s.router().relations.create_table("t", TableSchema::new(vec![ColumnDef::new("x", ColumnType::Int, false)])).unwrap();
        s.router().relations.insert("t", vec![ColumnValue::Int(1)]).unwrap();
        let bs = s.snapshot_bytes().unwrap();
        let n = TensorStore::new();
        n.restore_from_bytes(&bs).unwrap();
        let rows = n.router().relations.scan_all("t").map(|r| r.len()).unwrap_or(usize::MAX);
        let via_router = SlabRouter::from_bytes(&bs).unwrap().relations.scan_all("t").map(|r| r.len()).unwrap_or(usize::MAX);
        dist.hit("bytes.relational_probe");
        if via_router != 1 {
            hits.push("relational-roundtrip", "SlabRouter::from_bytes lost a table row", json!({"kind": "bytes-rel"}));
        }
        if rows != 1 {
            hits.push("restore-drops-slabs", "table t with one row, snapshot_bytes, restore_from_bytes into a fresh store: the table is gone (restore_from_bytes re-puts only scan(\"\") keys)", json!({"kind": "bytes-rel", "rows_seen": if rows == usize::MAX { -1 } else { rows as i64 }}));
        }
    }

    write_meta(
        &args.out,
        json!({
            "property": "C07", "seed": args.seed, "tier": args.tier,
            "kinds": [hdr.summary(), rt.summary(), q.summary(), crash.summary(), leftover.summary(), entry.summary(), observe.summary(), slabs.summary(), big.summary(), tt.summary()],
            "distribution": dist.json(),
            "hits": hits.0,
            "nontrivial_rule": "rt/q: the store holds at least one key; hdr: entry count > 0; crash: an older snapshot existed at the path; slabs: more than six populated views; big: non-empty; tt: always; entry: always; leftover: always; observe: the reader polled more often than the writer saved",
        }),
    );
}
