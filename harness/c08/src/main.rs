//! C08 correspondence harness: router-level scripts over a real QueryRouter with blob store and
//! checkpoint manager (relational + graph + vector statements, CHECKPOINT, more statements,
//! ROLLBACK TO, re-query everything, continue writing).
//! Case kind `script` (Gallina term for NV.C08.Run.check_script):
//!   (max_checkpoints, [(step, observation)]) where the observation after every statement holds the
//!   digests of a fixed query battery per engine, the key-addressed store dump, the relational slab
//!   dump and the checkpoint list.
//! Implementation-only stream `ties`: retention with equal creation seconds.
use nvh_common::*;
use query_router::{QueryResult, QueryRouter};
use std::collections::{BTreeMap, HashMap};
use tensor_checkpoint::CheckpointConfig;
use tensor_store::{ScalarValue, TensorData, TensorStore, TensorValue};

// ------------------------------------------------------------------------------------ canonical answers
fn canon(res: &Result<QueryResult, String>) -> String {
    match res {
        Err(e) => format!("ERR:{e}"),
        Ok(q) => match q {
            QueryResult::Rows(rows) => {
                let mut v: Vec<String> = rows.iter().map(|r| format!("{:?}", r.values)).collect();
                v.sort();
                format!("Rows{v:?}")
            }
            QueryResult::Nodes(ns) => {
                let mut v: Vec<String> = ns
                    .iter()
                    .map(|n| {
                        let mut p: Vec<(&String, &String)> = n.properties.iter().collect();
                        p.sort();
                        format!("({},{},{p:?})", n.id, n.label)
                    })
                    .collect();
                v.sort();
                format!("Nodes{v:?}")
            }
            QueryResult::Edges(es) => {
                let mut v: Vec<String> = es.iter().map(|e| format!("({},{},{},{})", e.id, e.from, e.to, e.label)).collect();
                v.sort();
                format!("Edges{v:?}")
            }
            QueryResult::Ids(ids) => {
                let mut v = ids.clone();
                v.sort_unstable();
                format!("Ids{v:?}")
            }
            QueryResult::Similar(ss) => {
                let mut v: Vec<String> = ss.iter().map(|s| format!("({},{})", s.key, s.score.to_bits())).collect();
                v.sort();
                format!("Similar{v:?}")
            }
            QueryResult::TableList(ts) => {
                let mut v = ts.clone();
                v.sort();
                format!("Tables{v:?}")
            }
            QueryResult::Value(s) if s.starts_with("Embeddings:") => {
                // "Embeddings: [..]" lists keys in hash order
                let mut v: Vec<String> = s.trim_start_matches("Embeddings:").trim().trim_matches(|c| c == '[' || c == ']').split(", ").map(|x| x.to_string()).collect();
                v.sort();
                format!("Embeddings{v:?}")
            }
            other => format!("{other:?}"),
        },
    }
}
fn exec(r: &QueryRouter, s: &str) -> Result<QueryResult, String> {
    match guarded(std::panic::AssertUnwindSafe(|| r.execute_parsed(s))) {
        Ok(x) => x.map_err(|e| e.to_string().lines().next().unwrap_or("").to_string()),
        Err(p) => Err(format!("PANIC:{p}")),
    }
}

/// the same statement through the async entry point (what a server uses), on the router's own runtime
fn exec_async(r: &QueryRouter, s: &str) -> Result<QueryResult, String> {
    match guarded(std::panic::AssertUnwindSafe(|| r.block_on(async { r.execute_parsed_async(s).await }))) {
        Ok(Ok(x)) => x.map_err(|e| e.to_string().lines().next().unwrap_or("").to_string()),
        Ok(Err(e)) => Err(e.to_string()),
        Err(p) => Err(format!("PANIC:{p}")),
    }
}

struct Intern(HashMap<String, u64>);
impl Intern {
    fn id(&mut self, s: &str) -> u64 {
        let n = self.0.len() as u64 + 1;
        *self.0.entry(s.to_string()).or_insert(n)
    }
}

const TABLES: [&str; 2] = ["t0", "t1"];
const EKEYS: [&str; 3] = ["k0", "k1", "k2"];
const MAXNODE: u64 = 6;

fn battery(r: &QueryRouter) -> (String, String, String) {
    // The router treats every NODE / EDGE / EMBED statement (reads included) as a write for its query cache.
    // So: first the cacheable statements (SELECT, NEIGHBORS, SIMILAR) -- answered from the cache when the router
    // thinks it may --, then the others, then the cacheable ones once more so that they are in the cache when the
    // next statement of the script runs.
    let cacheable = |rel: &mut Vec<String>, g: &mut Vec<String>, v: &mut Vec<String>| {
        for t in TABLES {
            rel.push(canon(&exec(r, &format!("SELECT * FROM {t}"))));
            rel.push(canon(&exec(r, &format!("SELECT * FROM {t} WHERE id = 1"))));
        }
        for n in 1..=MAXNODE {
            g.push(canon(&exec(r, &format!("NEIGHBORS {n}"))));
        }
        g.push(canon(&exec(r, "NEIGHBORS 1 OUTGOING")));
        v.push(canon(&exec(r, "SIMILAR [1.0, 0.0, 0.0] LIMIT 5")));
    };
    let (mut rel, mut g, mut v) = (vec![], vec![], vec![]);
    cacheable(&mut rel, &mut g, &mut v);
    rel.push(canon(&exec(r, "SHOW TABLES")));
    g.push(canon(&exec(r, "NODE LIST")));
    g.push(canon(&exec(r, "EDGE LIST")));
    for n in 1..=MAXNODE {
        g.push(canon(&exec(r, &format!("NODE GET {n}"))));
    }
    v.push(canon(&exec(r, "SHOW EMBEDDINGS")));
    v.push(canon(&exec(r, "COUNT EMBEDDINGS")));
    for k in EKEYS {
        v.push(canon(&exec(r, &format!("EMBED GET '{k}'"))));
    }
    cacheable(&mut rel, &mut g, &mut v);
    (rel.join("|"), g.join("|"), v.join("|"))
}

fn tdata_str(t: &TensorData) -> String {
    let mut v: Vec<String> = t
        .iter()
        .map(|(k, x)| {
            let xs = match x {
                TensorValue::Scalar(ScalarValue::Float(f)) => format!("F{}", f.to_bits()),
                TensorValue::Vector(w) => format!("V{:?}", w.iter().map(|y| y.to_bits()).collect::<Vec<_>>()),
                other => format!("{other:?}"),
            };
            format!("{k}={xs}")
        })
        .collect();
    v.sort();
    v.join(",")
}
/// key-addressed dump without the blob store's own keys (the catalogue is observed through CHECKPOINTS)
fn kv_dump(store: &TensorStore) -> BTreeMap<String, String> {
    let mut m = BTreeMap::new();
    for k in store.scan("") {
        if k.starts_with("_blob:") {
            continue;
        }
        if let Ok(t) = store.get(&k) {
            m.insert(k, tdata_str(&t));
        }
    }
    m
}
fn rel_dump(store: &TensorStore) -> BTreeMap<String, String> {
    let rel = &store.router().relations;
    let mut m = BTreeMap::new();
    for t in rel.table_names() {
        let schema = rel.get_schema(&t).map(|s| format!("{:?}/{:?}", s.columns.iter().map(|c| (c.name.clone(), format!("{:?}", c.col_type), c.nullable)).collect::<Vec<_>>(), s.primary_key));
        let mut rows = rel.scan_all(&t).unwrap_or_default();
        rows.sort_by_key(|(id, _)| *id);
        m.insert(t, format!("{schema:?}{:?}", rows.iter().map(|(id, r)| (id.0, format!("{r:?}"))).collect::<Vec<_>>()));
    }
    m
}
fn delta(prev: &BTreeMap<String, String>, cur: &BTreeMap<String, String>, keys: &mut Intern, vals: &mut Intern) -> String {
    let mut out = vec![];
    for (k, v) in cur {
        if prev.get(k) != Some(v) {
            out.push(format!("({}, Some {})", keys.id(k), vals.id(v)));
        }
    }
    for k in prev.keys() {
        if !cur.contains_key(k) {
            out.push(format!("({}, None)", keys.id(k)));
        }
    }
    list(out)
}
fn dump_coq(d: &BTreeMap<String, String>, keys: &mut Intern, vals: &mut Intern) -> String {
    list(d.iter().map(|(k, v)| format!("({}, {})", keys.id(k), vals.id(v))))
}
fn cat_names(r: &QueryRouter) -> Vec<String> {
    match exec(r, "CHECKPOINTS LIMIT 100") {
        Ok(QueryResult::CheckpointList(l)) => l.iter().map(|c| c.name.clone()).collect(),
        _ => match exec(r, "CHECKPOINTS") {
            Ok(QueryResult::CheckpointList(l)) => l.iter().map(|c| c.name.clone()).collect(),
            _ => vec!["<error>".into()],
        },
    }
}

#[derive(Clone, Debug)]
enum Stmt {
    Write { text: String, rel: bool, id_free: bool },
    Checkpoint(String, u64),
    Rollback(String),
    /// ROLLBACK TO the checkpoint NAMED like the first character of the id of the newest checkpoint
    RollbackNamedLikeNewestId,
    /// ROLLBACK TO '<id>' of the (n mod created)-th checkpoint the script created
    RollbackId(usize),
    List,
}

#[derive(Clone, Copy, Debug)]
struct Opts { max: usize, auto: bool, bloom: bool, cache: bool, asynch: bool }

fn new_router(o: Opts, with_cp: bool) -> QueryRouter {
    let store = if o.bloom { TensorStore::with_default_bloom_filter() } else { TensorStore::new() };
    let mut r = QueryRouter::with_shared_store(store);
    if o.cache { r.init_cache(); }
    if with_cp {
        r.init_blob().unwrap();
        r.init_checkpoint_with_config(CheckpointConfig::default().with_auto_checkpoint(o.auto).with_interactive_confirm(false).with_max_checkpoints(o.max)).unwrap();
    }
    r
}
/// (id, name, is_auto) of every listed checkpoint
fn cat_full(r: &QueryRouter) -> Vec<(String, String, bool)> {
    match exec(r, "CHECKPOINTS LIMIT 100") {
        Ok(QueryResult::CheckpointList(l)) => l.iter().map(|c| (c.id.clone(), c.name.clone(), c.is_auto)).collect(),
        _ => vec![],
    }
}

fn gen_write(r: &mut Rng, dist: &mut Dist) -> Stmt {
    let k = r.below(100);
    let (text, rel, id_free, tag) = if k < 10 {
        (format!("CREATE TABLE {} (id INT, name TEXT)", r.pick(&TABLES)), true, true, "create_table")
    } else if k < 30 {
        (format!("INSERT INTO {} (id, name) VALUES ({}, 'n{}')", r.pick(&TABLES), r.range(1, 4), r.below(5)), true, true, "insert")
    } else if k < 36 {
        (format!("UPDATE {} SET name = 'u{}' WHERE id = {}", r.pick(&TABLES), r.below(5), r.range(1, 4)), true, true, "update")
    } else if k < 42 {
        (format!("DELETE FROM {} WHERE id = {}", r.pick(&TABLES), r.range(1, 4)), true, true, "delete")
    } else if k < 45 {
        (format!("DROP TABLE {}", r.pick(&TABLES)), true, true, "drop_table")
    } else if k < 48 {
        (format!("CREATE INDEX ix{} ON {} (id)", r.below(3), r.pick(&TABLES)), true, true, "create_index")
    } else if k < 62 {
        (format!("NODE CREATE person {{ name: 'p{}' }}", r.below(5)), false, false, "node_create")
    } else if k < 67 {
        (format!("NODE DELETE {}", r.range(1, MAXNODE)), false, false, "node_delete")
    } else if k < 76 {
        (format!("EDGE CREATE {} -> {} : knows", r.range(1, 4), r.range(1, 4)), false, false, "edge_create")
    } else if k < 79 {
        (format!("EDGE DELETE {}", r.range(1, 4)), false, false, "edge_delete")
    } else if k < 93 {
        (format!("EMBED STORE '{}' [{}.0, {}.0, {}.5]", r.pick(&EKEYS), r.below(3), r.below(3), r.below(3)), false, true, "embed_store")
    } else {
        (format!("EMBED DELETE '{}'", r.pick(&EKEYS)), false, true, "embed_delete")
    };
    dist.hit(&format!("stmt.{tag}"));
    Stmt::Write { text, rel, id_free }
}

fn gen_script(r: &mut Rng, dist: &mut Dist) -> (Opts, Vec<Stmt>) {
    let opts = Opts { max: *r.pick(&[1usize, 2, 3, 10]), auto: r.chance(1, 3), bloom: r.chance(1, 2), cache: r.chance(1, 2), asynch: r.chance(1, 3) };
    let mut out = vec![];
    let mut names: Vec<String> = vec![];
    // a table early on makes relational content likely
    if r.chance(3, 4) {
        out.push(Stmt::Write { text: "CREATE TABLE t0 (id INT, name TEXT)".into(), rel: true, id_free: true });
    }
    let n = r.range(4, 16);
    for _ in 0..n {
        let k = r.below(100);
        if k < 16 {
            let nm = if !names.is_empty() && r.chance(1, 4) { r.pick(&names).clone() } else { format!("c{}", names.len() + 1) };
            names.push(nm.clone());
            dist.hit("stmt.checkpoint");
            out.push(Stmt::Checkpoint(nm, r.range(1, 5)));
        } else if k < 24 && !names.is_empty() {
            dist.hit("stmt.rollback");
            out.push(Stmt::Rollback(r.pick(&names).clone()));
        } else if k < 28 && !names.is_empty() {
            dist.hit("stmt.rollback_by_id");
            out.push(Stmt::RollbackId(r.below(64) as usize));
        } else if k < 31 {
            dist.hit("stmt.rollback_unknown");
            out.push(Stmt::Rollback("nope".into()));
        } else if k < 36 {
            dist.hit("stmt.list");
            out.push(Stmt::List);
        } else {
            out.push(gen_write(r, dist));
        }
    }
    (opts, out)
}

/// runs one script; returns (coq term, human text, nontrivial)
fn run_script(o: Opts, stmts: &[Stmt], dist: &mut Dist) -> (String, String, bool) {
    let max = o.max;
    let r = new_router(o, true);
    // the script's statements go through the async entry point when asked to; the query battery always asks
    // through execute_parsed, with the same texts every time (so a query cache answers from memory when it may)
    let run = |r: &QueryRouter, s: &str| if o.asynch { exec_async(r, s) } else { exec(r, s) };
    let store = r.vector().store().clone();
    let (mut keys, mut vals, mut names, mut dig) = (Intern(HashMap::new()), Intern(HashMap::new()), Intern(HashMap::new()), Intern(HashMap::new()));
    let mut kv_prev = kv_dump(&store);
    let mut rel_prev = rel_dump(&store);
    let mut dig_prev = { let (a, bq, c) = battery(&r); (dig.id(&a), dig.id(&bq), dig.id(&c)) };
    // logical history of write statements defining the state the property promises
    let mut hist: Vec<String> = vec![];
    let mut hist_at: HashMap<String, Vec<String>> = HashMap::new();
    let mut hist_by_id: HashMap<String, Vec<String>> = HashMap::new();
    let mut rolled_back = false;
    let mut steps = vec![];
    let mut human = vec![];
    let mut saw_rb_ok = false;
    let mut clock = 1000u64;                       // checkpoint creation second (through the clock hook)
    let mut seen_ids: std::collections::HashSet<String> = Default::default();
    let mut newest_id = String::new();
    let mut created_ids: Vec<String> = vec![];     // in creation order: position = the model's checkpoint id
    for s in stmts {
        let mut pre_step: Option<String> = None;  // an automatic checkpoint the statement took first
        let sop = match s {
            Stmt::Write { text, rel, id_free } => {
                clock += 1;
                tensor_checkpoint::verif_clock::set(Some(clock));
                let ok_impl = run(&r, text).is_ok();
                if o.auto {
                    // did the statement take an automatic checkpoint (before doing its work)?
                    for (id, name, is_auto) in cat_full(&r) {
                        if seen_ids.insert(id.clone()) {
                            dist.hit(if is_auto { "checkpoint.auto" } else { "checkpoint.unexpected" });
                            newest_id = id.clone();
                            created_ids.push(id.clone());
                            hist_by_id.insert(id, hist.clone());
                            hist_at.insert(name.clone(), hist.clone());
                            human.push(format!("(auto checkpoint '{name}' @{clock})"));
                            pre_step = Some(format!("SCheckpoint {} {} true", names.id(&name), clock));
                        }
                    }
                }
                // what the same statement does on a database that really is in the promised state
                let ok_ref = if rolled_back && *id_free {
                    let rr = new_router(o, false);
                    for h in &hist { let _ = exec(&rr, h); }
                    exec(&rr, text).is_ok()
                } else {
                    ok_impl
                };
                hist.push(text.clone());
                let kv = kv_dump(&store);
                let rl = rel_dump(&store);
                let t = format!("SWrite {} {} {} {} {}", delta(&kv_prev, &kv, &mut keys, &mut vals), delta(&rel_prev, &rl, &mut keys, &mut vals), b(*rel), b(ok_impl), b(ok_ref));
                human.push(format!("{text} [{}]", if ok_impl { "ok" } else { "err" }));
                t
            }
            Stmt::Checkpoint(name, inc) => {
                clock += *inc;
                let now = clock;
                tensor_checkpoint::verif_clock::set(Some(now));
                let res = run(&r, &format!("CHECKPOINT '{name}'"));
                let ok = res.is_ok();
                let mut this_id = format!("<failed-{}>", created_ids.len());
                if let Ok(QueryResult::Value(v)) = &res {
                    if let Some(id) = v.strip_prefix("Checkpoint created: ") { newest_id = id.to_string(); seen_ids.insert(id.to_string()); this_id = id.to_string(); }
                }
                created_ids.push(this_id.clone());
                hist_by_id.insert(this_id, hist.clone());
                hist_at.insert(name.clone(), hist.clone());
                dist.hit("checkpoint.manual");
                human.push(format!("CHECKPOINT '{name}' @{now} [{}]", if ok { "ok" } else { "err" }));
                format!("SCheckpoint {} {} {}", names.id(name), now, b(ok))
            }
            Stmt::Rollback(_) | Stmt::RollbackNamedLikeNewestId => {
                let name = match s { Stmt::Rollback(n) => n.clone(), _ => newest_id.chars().next().map(|c| c.to_string()).unwrap_or_else(|| "0".into()) };
                let res = run(&r, &format!("ROLLBACK TO '{name}'"));
                let ok = res.is_ok();
                if ok {
                    rolled_back = true;
                    saw_rb_ok = true;
                    if let Some(h) = hist_at.get(&name) { hist = h.clone(); }
                    dist.hit("rollback.ok");
                } else {
                    dist.hit("rollback.err");
                }
                human.push(format!("ROLLBACK TO '{name}' [{}]", match &res { Ok(_) => "ok".to_string(), Err(e) => e.clone() }));
                format!("SRollback {} {}", names.id(&name), b(ok))
            }
            Stmt::RollbackId(nth) => {
                if created_ids.is_empty() {
                    human.push("CHECKPOINTS".into());
                    "SList".to_string()
                } else {
                    let k = nth % created_ids.len();
                    let id = created_ids[k].clone();
                    let res = run(&r, &format!("ROLLBACK TO '{id}'"));
                    let ok = res.is_ok();
                    if ok {
                        rolled_back = true;
                        saw_rb_ok = true;
                        if let Some(h) = hist_by_id.get(&id) { hist = h.clone(); }
                        dist.hit("rollback_by_id.ok");
                    } else {
                        dist.hit("rollback_by_id.err");
                    }
                    human.push(format!("ROLLBACK TO <id of checkpoint #{k}> [{}]", match &res { Ok(_) => "ok".to_string(), Err(e) => e.replace(&id, "<id>") }));
                    format!("SRollbackId {k} {}", b(ok))
                }
            }
            Stmt::List => {
                human.push("CHECKPOINTS".into());
                "SList".to_string()
            }
        };
        let kv = kv_dump(&store);
        let rl = rel_dump(&store);
        let (qr, qg, qv) = battery(&r);
        let cat = cat_names(&r);
        let catc = list(cat.iter().map(|c| format!("{}", names.id(c))));
        if let Some(pre) = pre_step {
            // the automatic checkpoint saw the database as it was BEFORE the statement's own change
            steps.push(format!("({pre}, ({}, {}, {}, {}, {}, {catc}))", dig_prev.0, dig_prev.1, dig_prev.2, dump_coq(&kv_prev, &mut keys, &mut vals), dump_coq(&rel_prev, &mut keys, &mut vals)));
        }
        dig_prev = (dig.id(&qr), dig.id(&qg), dig.id(&qv));
        let obs = format!("({}, {}, {}, {}, {}, {catc})", dig_prev.0, dig_prev.1, dig_prev.2, dump_coq(&kv, &mut keys, &mut vals), dump_coq(&rl, &mut keys, &mut vals));
        steps.push(format!("({sop}, {obs})"));
        kv_prev = kv;
        rel_prev = rl;
    }
    tensor_checkpoint::verif_clock::set(None);
    (format!("({}, {})", max, list(steps)), format!("max={max} auto={} bloom={} cache={} async={} script=[{}]", o.auto, o.bloom, o.cache, o.asynch, human.join("; ")), saw_rb_ok)
}

fn w(text: &str, rel: bool) -> Stmt {
    Stmt::Write { text: text.into(), rel, id_free: !text.starts_with("NODE") && !text.starts_with("EDGE") }
}

fn main() {
    let args = Args::parse();
    quiet_panics();
    let mut rng = Rng::new(args.seed);
    let mut dist = Dist::default();
    let mut hits = Hits::default();
    let mut script = CaseWriter::new(&args.out, "script");
    let mut ties = CaseWriter::new(&args.out, "ties");

    // ---- corpus: the reproduced findings of DESIGN section 5, retention, automatic checkpoints, short hex names
    let plain = |max: usize| Opts { max, auto: false, bloom: false, cache: false, asynch: false };
    let cp = |n: &str| Stmt::Checkpoint(n.into(), 1);
    let mut corpus: Vec<(Opts, Vec<Stmt>)> = vec![
        // F-C08-restore
        (plain(10), vec![w("CREATE TABLE t0 (id INT, name TEXT)", true), w("INSERT INTO t0 (id, name) VALUES (1, 'Alice')", true), cp("c1"), w("INSERT INTO t0 (id, name) VALUES (2, 'Bob')", true), Stmt::Rollback("c1".into()), w("INSERT INTO t0 (id, name) VALUES (3, 'Z')", true)]),
        // F-C08-selfwipe
        (plain(10), vec![w("EMBED STORE 'k1' [1.0, 0.0, 0.0]", false), cp("c1"), w("EMBED STORE 'k2' [0.0, 1.0, 0.0]", false), cp("c2"), Stmt::Rollback("c1".into()), Stmt::List, Stmt::Rollback("c2".into())]),
        // graph + vector only: rollback restores them (data added later gone, deleted later back); plain and Bloom-filter store
        (plain(10), vec![w("NODE CREATE person { name: 'a' }", false), w("NODE CREATE person { name: 'b' }", false), w("EDGE CREATE 1 -> 2 : knows", false), w("EMBED STORE 'k0' [1.0, 0.0, 0.5]", false), cp("c1"), w("NODE DELETE 1", false), w("EMBED DELETE 'k0'", false), w("EMBED STORE 'k1' [0.0, 2.0, 0.5]", false), w("NODE CREATE person { name: 'c' }", false), Stmt::Rollback("c1".into()), w("EMBED STORE 'k2' [2.0, 2.0, 0.5]", false)]),
        (Opts { max: 10, auto: false, bloom: true, cache: false, asynch: false }, vec![w("NODE CREATE person { name: 'a' }", false), w("NODE CREATE person { name: 'b' }", false), w("EDGE CREATE 1 -> 2 : knows", false), w("EMBED STORE 'k0' [1.0, 0.0, 0.5]", false), cp("c1"), w("NODE DELETE 1", false), w("EMBED DELETE 'k0'", false), w("EMBED STORE 'k1' [0.0, 2.0, 0.5]", false), Stmt::Rollback("c1".into()), w("EMBED STORE 'k2' [2.0, 2.0, 0.5]", false)]),
        // retention: max 2, three checkpoints, every retained one can be rolled back to (no rollback before)
        (plain(2), vec![w("EMBED STORE 'k0' [1.0, 0.0, 0.5]", false), cp("c1"), w("EMBED STORE 'k1' [1.0, 1.0, 0.5]", false), cp("c2"), w("EMBED STORE 'k2' [1.0, 2.0, 0.5]", false), cp("c3"), Stmt::List, Stmt::Rollback("c1".into()), Stmt::Rollback("c3".into())]),
        // retention over a mix of manual and automatic checkpoints (taken before destructive statements): the newest 2 stay
        (Opts { max: 2, auto: true, bloom: false, cache: false, asynch: false }, vec![w("EMBED STORE 'k0' [1.0, 0.0, 0.5]", false), cp("m1"), w("EMBED STORE 'k1' [1.0, 1.0, 0.5]", false), w("EMBED DELETE 'k0'", false), w("EMBED STORE 'k2' [1.0, 2.0, 0.5]", false), w("EMBED DELETE 'k1'", false), Stmt::List, Stmt::Rollback("auto-before-embed-delete".into())]),
        (Opts { max: 3, auto: true, bloom: true, cache: true, asynch: false }, vec![w("CREATE TABLE t0 (id INT, name TEXT)", true), w("INSERT INTO t0 (id, name) VALUES (1, 'a')", true), cp("m1"), w("NODE CREATE person { name: 'a' }", false), cp("m2"), w("NODE DELETE 1", false), w("EMBED STORE 'k1' [1.0, 1.0, 0.5]", false), w("EMBED DELETE 'k1'", false), w("DELETE FROM t0 WHERE id = 1", true), Stmt::List]),
    ];
    // a name used twice: both checkpoints exist, count towards the limit, and the older one is reachable by id
    corpus.push((plain(10), vec![w("EMBED STORE 'k0' [1.0, 0.0, 0.5]", false), cp("nightly"), w("EMBED STORE 'k1' [1.0, 1.0, 0.5]", false), cp("before-migration"), w("EMBED STORE 'k2' [1.0, 2.0, 0.5]", false), cp("nightly"), Stmt::List, w("EMBED STORE 'k0' [7.0, 7.0, 0.5]", false), Stmt::RollbackId(0)]));
    corpus.push((plain(3), vec![w("EMBED STORE 'k0' [1.0, 0.0, 0.5]", false), cp("a"), w("EMBED STORE 'k1' [1.0, 1.0, 0.5]", false), cp("nightly"), w("EMBED STORE 'k2' [1.0, 2.0, 0.5]", false), cp("b"), w("EMBED STORE 'k0' [2.0, 2.0, 0.5]", false), cp("nightly"), Stmt::List, Stmt::Rollback("nightly".into())]));
    // query cache on, statements through the async entry point: answers cached between checkpoint and rollback must not survive it
    corpus.push((Opts { max: 10, auto: false, bloom: false, cache: true, asynch: true }, vec![w("EMBED STORE 'k1' [1.0, 0.0, 0.0]", false), w("EMBED STORE 'k2' [0.0, 1.0, 0.0]", false), w("NODE CREATE person { name: 'a' }", false), w("NODE CREATE person { name: 'b' }", false), w("NODE CREATE person { name: 'c' }", false), w("EDGE CREATE 1 -> 2 : knows", false), cp("A"), w("EDGE CREATE 1 -> 3 : knows", false), w("EMBED STORE 'k0' [0.9, 0.2, 0.0]", false), Stmt::Rollback("A".into()), Stmt::List]));
    corpus.push((Opts { max: 10, auto: false, bloom: false, cache: true, asynch: false }, vec![w("EMBED STORE 'k1' [1.0, 0.0, 0.0]", false), w("NODE CREATE person { name: 'a' }", false), w("NODE CREATE person { name: 'b' }", false), w("NODE CREATE person { name: 'c' }", false), w("EDGE CREATE 1 -> 2 : knows", false), cp("A"), w("EDGE CREATE 1 -> 3 : knows", false), w("EMBED STORE 'k0' [0.9, 0.2, 0.0]", false), Stmt::Rollback("A".into())]));
    // sixteen checkpoints named "0".."f" (a user numbering checkpoints), one more, then ROLLBACK TO the name that equals the
    // first character of that last checkpoint's id: the NAMED checkpoint must be restored, not the one whose id starts so
    for bloom in [false, true] {
        let mut st = vec![];
        for (i, c) in "0123456789abcdef".chars().enumerate() {
            st.push(w(&format!("EMBED STORE 'k{}' [{i}.0, 1.0, 0.5]", i % 3), false));
            st.push(cp(&c.to_string()));
        }
        st.push(w("EMBED STORE 'k0' [99.0, 1.0, 0.5]", false));
        st.push(cp("cafe"));
        st.push(w("EMBED STORE 'k1' [98.0, 1.0, 0.5]", false));
        st.push(Stmt::RollbackNamedLikeNewestId);
        corpus.push((Opts { max: 32, auto: false, bloom, cache: false, asynch: false }, st));
    }
    for (o, st) in &corpus {
        let (t, h, nt) = run_script(*o, st, &mut dist);
        script.push(&t, &format!("corpus {h}"), nt);
    }
    let n = args.budget(70, 2500);
    for _ in 0..n {
        let (o, st) = gen_script(&mut rng, &mut dist);
        dist.hit(&format!("script.max.{}", o.max));
        dist.hit(if o.auto { "script.auto_checkpoints" } else { "script.manual_only" });
        dist.hit(if o.bloom { "script.bloom_store" } else { "script.plain_store" });
        dist.hit(if o.cache { "script.query_cache_on" } else { "script.query_cache_off" });
        dist.hit(if o.asynch { "script.async_api" } else { "script.sync_api" });
        let (t, h, nt) = run_script(o, &st, &mut dist);
        script.push(&t, &h, nt);
    }

    // ---- ties: several checkpoints within one second, retention must still keep the newest
    let nt = args.budget(6, 100);
    for i in 0..nt {
        let max = rng.range(1, 2) as usize;
        let total = max + rng.range(1, 3) as usize;
        let r = new_router(Opts { max, auto: false, bloom: false, cache: false, asynch: false }, true);
        tensor_checkpoint::verif_clock::set(Some(5000));
        let mut created = vec![];
        for j in 0..total {
            let _ = exec(&r, &format!("EMBED STORE 'k{j}' [1.0, {j}.0, 0.0]"));
            if exec(&r, &format!("CHECKPOINT 'c{j}'")).is_ok() {
                created.push(format!("c{j}"));
            }
        }
        tensor_checkpoint::verif_clock::set(None);
        let mut kept = cat_names(&r);
        kept.sort();
        let mut want: Vec<String> = created.iter().rev().take(max).cloned().collect();
        want.sort();
        ties.push(&format!("{i}"), &format!("ties#{i} max={max} created={created:?} kept={kept:?}"), true);
        dist.hit("ties.script");
        if kept != want {
            hits.push("same-second-retention", &format!("{total} checkpoints created within one second with max_checkpoints={max}: retention kept {kept:?}, the newest are {want:?}"), json!({"kind": "ties", "index": i, "seed": args.seed, "max": max, "created": created, "kept": kept}));
        }
    }

    write_meta(
        &args.out,
        json!({
            "property": "C08", "seed": args.seed, "tier": args.tier,
            "kinds": [script.summary(), ties.summary()],
            "distribution": dist.json(),
            "hits": hits.0,
            "nontrivial_rule": "script: at least one ROLLBACK TO succeeded; ties: always",
        }),
    );
}
