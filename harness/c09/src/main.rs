//! C09 correspondence harness: drives the REAL `RelationalEngine` transaction API
//! (relational_engine/src/{lib.rs,transaction.rs}) with interleaved transactions, non-transactional
//! statements, index creation and row-lock expiry (clock hook `transaction::verif_clock`).
//! Case kind `rel` -> NV.C09.Run.check_rel.
use nvh_common::*;
use relational_engine::transaction::verif_clock;
use relational_engine::{Column, ColumnType, Condition, RelationalConfig, RelationalEngine, RelationalError, Schema, Value};
use std::collections::HashMap;

const T0: u64 = 1000;
const COLS: [&str; 3] = ["a", "b", "_id"]; // column 2 = the system column `_id` (kind `idcol` only)

fn ln(xs: &[u64]) -> String {
    list(xs.iter().map(|x| n(*x)))
}
fn on(x: Option<u64>) -> String {
    opt(x.map(n))
}

#[derive(Clone, Debug)]
enum Cond {
    True,
    Eq(u64, u64),
    Lt(u64, u64),
    Ge(u64, u64),
    And(Box<Cond>, Box<Cond>),
}
impl Cond {
    fn coq(&self) -> String {
        match self {
            Cond::True => "CTrue".into(),
            Cond::Eq(c, v) => format!("(CEq {c} {v})"),
            Cond::Lt(c, v) => format!("(CLt {c} {v})"),
            Cond::Ge(c, v) => format!("(CGe {c} {v})"),
            Cond::And(a, b) => format!("(CAnd {} {})", a.coq(), b.coq()),
        }
    }
    fn real(&self) -> Condition {
        let col = |c: &u64| COLS[*c as usize].to_string();
        match self {
            Cond::True => Condition::True,
            Cond::Eq(c, v) => Condition::Eq(col(c), Value::Int(*v as i64)),
            Cond::Lt(c, v) => Condition::Lt(col(c), Value::Int(*v as i64)),
            Cond::Ge(c, v) => Condition::Ge(col(c), Value::Int(*v as i64)),
            Cond::And(a, b) => Condition::And(Box::new(a.real()), Box::new(b.real())),
        }
    }
}

#[derive(Clone, Debug)]
enum Op {
    Begin,
    Insert(Option<u64>, u64, u64),
    Update(Option<u64>, Cond, u64, u64),
    Delete(Option<u64>, Cond),
    Commit(u64),
    Rollback(u64),
    CreateIndex(u64),
    CreateBtree(u64),
    Advance(u64),
    CleanupLocks,
    RollbackResolved(u64), // already an actual transaction id (not a symbolic number)
}
impl Op {
    fn coq(&self) -> String {
        match self {
            Op::Begin => "RBegin".into(),
            Op::Insert(t, a, bb) => format!("RInsert {} {a} {bb}", on(*t)),
            Op::Update(t, c, col, v) => format!("RUpdate {} {} {col} {v}", on(*t), c.coq()),
            Op::Delete(t, c) => format!("RDelete {} {}", on(*t), c.coq()),
            Op::Commit(t) => format!("RCommit {t}"),
            Op::Rollback(t) | Op::RollbackResolved(t) => format!("RRollback {t}"),
            Op::CreateIndex(c) => format!("RCreateIndex {c}"),
            Op::CreateBtree(c) => format!("RCreateBtree {c}"),
            Op::Advance(d) => format!("RAdvance {d}"),
            Op::CleanupLocks => "RCleanupLocks".into(),
        }
    }
}

struct World {
    e: RelationalEngine,
    begun: Vec<u64>, // small ids of the explicitly begun transactions, in order
    id0: u64,
    now: u64,
    vv: u64,
    rr: u64,
    idq: bool, // the dump also asks Eq / Lt / Ge on `_id`
}
impl World {
    fn new(lock_secs: u64, vv: u64, rr: u64, budget: Option<u64>, idq: bool) -> World {
        verif_clock::set(Some(T0));
        let mut cfg = RelationalConfig { lock_timeout_secs: lock_secs, ..RelationalConfig::default() };
        if let Some(bm) = budget {
            cfg.max_btree_entries = bm as usize;
        }
        let e = RelationalEngine::with_config(cfg);
        e.create_table("t", Schema::new(vec![Column::new("a", ColumnType::Int), Column::new("b", ColumnType::Int)])).unwrap();
        // transaction ids come from a process-wide counter: renumber from the id of a throw-away transaction
        let id0 = e.begin_transaction();
        e.rollback(id0).unwrap();
        World { e, begun: vec![], id0, now: T0, vv, rr, idq }
    }
    fn real(&self, t: u64) -> u64 {
        t + self.id0
    }
    /// ops are generated with symbolic transaction numbers (k = the k-th explicitly begun transaction);
    /// internal transactions of non-transactional statements also consume ids, so resolve at run time
    fn resolve(&self, o: &Op) -> Op {
        let r = |k: u64| self.begun.get(k as usize - 1).copied().unwrap_or(70 + k);
        match o {
            Op::Insert(Some(k), a, b) => Op::Insert(Some(r(*k)), *a, *b),
            Op::Update(Some(k), c, col, v) => Op::Update(Some(r(*k)), c.clone(), *col, *v),
            Op::Delete(Some(k), c) => Op::Delete(Some(r(*k)), c.clone()),
            Op::Commit(k) => Op::Commit(r(*k)),
            Op::Rollback(k) => Op::Rollback(r(*k)),
            other => other.clone(),
        }
    }
    fn small(&self, r: u64) -> u64 {
        r.saturating_sub(self.id0)
    }
    fn err(&self, e: &RelationalError) -> Vec<u64> {
        match e {
            RelationalError::TransactionNotFound(_) => vec![1],
            RelationalError::TransactionInactive(_) => vec![2],
            RelationalError::RollbackFailed { .. } => vec![3],
            RelationalError::LockConflict { blocking_tx, row_id, .. } => vec![4, self.small(*blocking_tx), *row_id],
            RelationalError::IndexAlreadyExists { .. } => vec![5],
            RelationalError::ResultTooLarge { .. } => vec![6],
            _ => vec![99],
        }
    }
    fn vals(a: u64, b: u64) -> HashMap<String, Value> {
        HashMap::from([("a".to_string(), Value::Int(a as i64)), ("b".to_string(), Value::Int(b as i64))])
    }
    fn apply(&mut self, op: &Op, dist: &mut Dist) -> Vec<u64> {
        let r = match op {
            Op::Begin => {
                let t = self.small(self.e.begin_transaction());
                self.begun.push(t);
                vec![t]
            }
            Op::Insert(Some(t), a, b) => match self.e.tx_insert(self.real(*t), "t", Self::vals(*a, *b)) {
                Ok(id) => vec![0, id],
                Err(e) => self.err(&e),
            },
            Op::Insert(None, a, b) => match self.e.insert("t", Self::vals(*a, *b)) {
                Ok(id) => vec![0, id],
                Err(e) => self.err(&e),
            },
            Op::Update(t, c, col, v) => {
                let upd = HashMap::from([(COLS[*col as usize].to_string(), Value::Int(*v as i64))]);
                let r = match t {
                    Some(t) => self.e.tx_update(self.real(*t), "t", c.real(), upd),
                    None => self.e.update("t", c.real(), upd),
                };
                match r {
                    Ok(k) => vec![0, k as u64],
                    Err(e) => self.err(&e),
                }
            }
            Op::Delete(t, c) => {
                let r = match t {
                    Some(t) => self.e.tx_delete(self.real(*t), "t", c.real()),
                    None => self.e.delete_rows("t", c.real()),
                };
                match r {
                    Ok(k) => vec![0, k as u64],
                    Err(e) => self.err(&e),
                }
            }
            Op::Commit(t) => match self.e.commit(self.real(*t)) {
                Ok(()) => vec![0],
                Err(e) => self.err(&e),
            },
            Op::Rollback(t) | Op::RollbackResolved(t) => match self.e.rollback(self.real(*t)) {
                Ok(()) => vec![0],
                Err(e) => self.err(&e),
            },
            Op::CreateIndex(c) => match self.e.create_index("t", COLS[*c as usize]) {
                Ok(()) => vec![0],
                Err(e) => self.err(&e),
            },
            Op::CreateBtree(c) => match self.e.create_btree_index("t", COLS[*c as usize]) {
                Ok(()) => vec![0],
                Err(e) => self.err(&e),
            },
            Op::Advance(d) => {
                self.now += d;
                verif_clock::set(Some(self.now));
                vec![]
            }
            Op::CleanupLocks => vec![self.e.tx_manager().cleanup_expired_locks() as u64],
        };
        let name = match op {
            Op::Begin => "begin",
            Op::Insert(Some(_), ..) => "tx_insert",
            Op::Insert(None, ..) => "insert",
            Op::Update(Some(_), ..) => "tx_update",
            Op::Update(None, ..) => "update",
            Op::Delete(Some(_), ..) => "tx_delete",
            Op::Delete(None, ..) => "delete_rows",
            Op::Commit(_) => "commit",
            Op::Rollback(_) | Op::RollbackResolved(_) => "rollback",
            Op::CreateIndex(_) => "create_index",
            Op::CreateBtree(_) => "create_btree_index",
            Op::Advance(_) => "advance",
            Op::CleanupLocks => "cleanup_expired_locks",
        };
        dist.hit(&format!("op.{name}"));
        match r.first() {
            Some(1) => dist.hit("ret.tx_not_found"),
            Some(3) => dist.hit("ret.rollback_failed"),
            Some(4) => dist.hit("ret.lock_conflict"),
            Some(5) => dist.hit("ret.index_exists"),
            Some(6) => dist.hit("ret.btree_budget_exhausted"),
            Some(99) => dist.hit("ret.other_error"),
            _ => {}
        }
        r
    }
    fn ids(&self, c: Condition) -> Vec<u64> {
        self.e.select("t", c).map(|rows| rows.iter().map(|r| r.id).collect()).unwrap_or_else(|_| vec![9999])
    }
    fn dump(&self) -> String {
        let rows = self.e.select("t", Condition::True).unwrap();
        let iv = |v: Option<&Value>| match v {
            Some(Value::Int(i)) => *i as u64,
            _ => 9999,
        };
        let rs: Vec<String> = rows.iter().map(|r| format!("({}, ({}, {}))", r.id, iv(r.get("a")), iv(r.get("b")))).collect();
        let mut qs = vec![];
        for kind in 0..3 {
            for c in 0..2u64 {
                for v in 0..self.vv {
                    let cond = match kind {
                        0 => Cond::Eq(c, v),
                        1 => Cond::Lt(c, v),
                        _ => Cond::Ge(c, v),
                    };
                    qs.push(ln(&self.ids(cond.real())));
                }
            }
        }
        if self.idq {
            for kind in 0..3 {
                for v in 1..=5u64 {
                    let cond = match kind {
                        0 => Cond::Eq(2, v),
                        1 => Cond::Lt(2, v),
                        _ => Cond::Ge(2, v),
                    };
                    qs.push(ln(&self.ids(cond.real())));
                }
            }
        }
        let hs: Vec<String> = (1..=self.rr).map(|id| on(self.e.tx_manager().row_lock_holder("t", id).map(|t| self.small(t)))).collect();
        format!("(Dmp {} {} {} {} {})", list(rs), list(qs), list(hs), self.e.tx_manager().active_lock_count(), self.e.active_transaction_count())
    }
}

fn run_case(ops: &[Op], lock_secs: u64, vv: u64, rr: u64, dist: &mut Dist) -> (String, String, bool) {
    run_case_x(ops, lock_secs, vv, rr, None, false, dist)
}
fn run_case_b(ops: &[Op], lock_secs: u64, vv: u64, rr: u64, budget: Option<u64>, dist: &mut Dist) -> (String, String, bool) {
    run_case_x(ops, lock_secs, vv, rr, budget, false, dist)
}

/// budget = Some(n): the engine is created with max_btree_entries = n; a transaction whose statement failed half-way
/// (ResultTooLarge) is rolled back right away
fn run_case_x(ops: &[Op], lock_secs: u64, vv: u64, rr: u64, budget: Option<u64>, idq: bool, dist: &mut Dist) -> (String, String, bool) {
    let mut w = World::new(lock_secs, vv, rr, budget, idq);
    let mut obs = vec![];
    let mut conflicts = 0;
    let mut rollbacks = 0;
    let mut resolved = vec![];
    let mut queue: std::collections::VecDeque<Op> = ops.iter().map(|o| w_resolve_later(o)).collect();
    while let Some(o) = queue.pop_front() {
        let o = &w.resolve(&o);
        resolved.push(o.clone());
        let ret = w.apply(o, dist);
        if ret.first() == Some(&6) {
            faults_inc(dist);
            let who = match o {
                Op::Insert(Some(t), ..) | Op::Update(Some(t), ..) | Op::Delete(Some(t), ..) => Some(*t),
                _ => None,
            };
            if let Some(t) = who {
                queue.push_front(Op::RollbackResolved(t));
            }
        }
        if ret.first() == Some(&4) {
            conflicts += 1;
        }
        if matches!(o, Op::Rollback(_) | Op::RollbackResolved(_)) && matches!(ret.first(), Some(0) | Some(3)) {
            rollbacks += 1;
        }
        obs.push(format!("({}, {})", ln(&ret), w.dump()));
    }
    verif_clock::set(None);
    let ops = &resolved;
    let term = format!("({vv}, {rr}, {}, {}, {})", lock_secs * 1000, list(ops.iter().map(|o| o.coq())), list(obs));
    (term, format!("V={vv} lock_timeout_s={lock_secs} ops={ops:?}"), rollbacks >= 1 || conflicts >= 1)
}

fn w_resolve_later(o: &Op) -> Op {
    o.clone()
}
fn faults_inc(dist: &mut Dist) {
    dist.hit("budget.fault");
}

fn gen_cond(r: &mut Rng, vv: u64, depth: u32) -> Cond {
    match r.below(if depth == 0 { 8 } else { 7 }) {
        0 | 1 => Cond::True,
        2 | 3 => Cond::Eq(r.below(2), r.below(vv)),
        4 => Cond::Lt(r.below(2), r.below(vv + 1)),
        5 | 6 => Cond::Ge(r.below(2), r.below(vv + 1)),
        _ => Cond::And(Box::new(gen_cond(r, vv, 1)), Box::new(gen_cond(r, vv, 1))),
    }
}

/// conditions that may also name the system column `_id` (column 2, ids 1..5)
fn gen_cond_id(r: &mut Rng, vv: u64, depth: u32) -> Cond {
    if r.chance(1, 2) {
        return gen_cond(r, vv, depth);
    }
    match r.below(if depth == 0 { 4 } else { 3 }) {
        0 => Cond::Eq(2, r.range(1, 5)),
        1 => Cond::Lt(2, r.range(1, 6)),
        2 => Cond::Ge(2, r.range(1, 6)),
        _ => Cond::And(Box::new(gen_cond_id(r, vv, 1)), Box::new(gen_cond_id(r, vv, 1))),
    }
}

/// kind `idcol`: hash / B-tree indexes on `_id` (and on the ordinary columns), created before any transaction starts
fn gen_ops_id(r: &mut Rng, vv: u64, len: usize) -> Vec<Op> {
    let mut ops = vec![];
    let pre_rows = r.range(0, 3);
    let ddl_first = r.chance(1, 2);
    let mut ddl = vec![];
    if r.chance(3, 4) {
        ddl.push(Op::CreateIndex(2));
    }
    if r.chance(3, 4) {
        ddl.push(Op::CreateBtree(2));
    }
    if r.chance(1, 2) {
        ddl.push(Op::CreateIndex(r.below(2)));
    }
    if r.chance(1, 2) {
        ddl.push(Op::CreateBtree(r.below(2)));
    }
    if ddl_first {
        ops.append(&mut ddl);
    }
    for _ in 0..pre_rows {
        ops.push(Op::Insert(None, r.below(vv), r.below(vv)));
    }
    ops.append(&mut ddl);
    let mut begun = 0u64;
    for _ in 0..len {
        let k = r.below(100);
        let tx = if begun > 0 && r.chance(5, 6) { Some(r.range(1, begun)) } else { None };
        ops.push(if k < 12 && begun < 3 {
            begun += 1;
            Op::Begin
        } else if k < 30 {
            Op::Insert(tx, r.below(vv), r.below(vv))
        } else if k < 50 {
            Op::Update(tx, gen_cond_id(r, vv, 0), r.below(2), r.below(vv))
        } else if k < 72 {
            Op::Delete(tx, gen_cond_id(r, vv, 0))
        } else if k < 80 && begun > 0 {
            Op::Commit(r.range(1, begun))
        } else if begun > 0 {
            Op::Rollback(r.range(1, begun))
        } else {
            Op::Insert(None, r.below(vv), r.below(vv))
        });
    }
    ops
}

/// family "expired and fresh locks of one transaction": lock timeout 1 s; T1 writes a row, waits, writes another row,
/// waits until the first lock (only) has timed out; the expired-lock sweep runs; T1 ends; other writers follow
fn gen_ops_lockmix(r: &mut Rng, vv: u64) -> Vec<Op> {
    let mut ops = vec![];
    let nrows = r.range(2, 4);
    for i in 0..nrows {
        ops.push(Op::Insert(None, i % vv, r.below(vv)));
    }
    if r.chance(1, 3) {
        ops.push(Op::CreateIndex(r.below(2)));
    }
    ops.push(Op::Begin);
    let first = r.below(vv.min(nrows));
    let mut second = r.below(vv.min(nrows));
    if second == first {
        second = (first + 1) % vv.min(nrows);
    }
    let w = |r: &mut Rng, c: Cond| if r.chance(3, 4) { Op::Update(Some(1), c, 1, r.below(vv)) } else { Op::Delete(Some(1), c) };
    ops.push(w(r, Cond::Eq(0, first)));
    ops.push(Op::Advance(*r.pick(&[400u64, 600, 900])));
    ops.push(w(r, Cond::Eq(0, second)));
    if r.chance(1, 3) {
        ops.push(Op::Insert(Some(1), r.below(vv), r.below(vv)));
    }
    ops.push(Op::Advance(*r.pick(&[101u64, 300, 601, 1001])));
    if r.chance(4, 5) {
        ops.push(Op::CleanupLocks);
    }
    if r.chance(1, 2) {
        // another transaction takes over the row whose lock has timed out; the first owner then writes it again
        ops.push(Op::Begin);
        ops.push(Op::Update(Some(2), Cond::Eq(0, first), 1, r.below(vv)));
        if r.chance(2, 3) {
            ops.push(if r.chance(2, 3) { Op::Update(Some(1), Cond::Eq(0, first), 1, r.below(vv)) } else { Op::Delete(Some(1), Cond::Eq(0, first)) });
            ops.push(Op::Update(Some(2), Cond::Eq(0, first), 0, first));
        }
    }
    ops.push(if r.chance(1, 2) { Op::Commit(1) } else { Op::Rollback(1) });
    ops.push(Op::Begin);
    let t = Some(r.range(2, 3));
    for _ in 0..r.range(1, 3) {
        ops.push(match r.below(3) {
            0 => Op::Update(t, Cond::Eq(0, second), 1, r.below(vv)),
            1 => Op::Update(None, gen_cond(r, vv, 0), r.below(2), r.below(vv)),
            _ => Op::Delete(t, gen_cond(r, vv, 0)),
        });
    }
    if r.chance(1, 2) {
        ops.push(Op::CleanupLocks);
    }
    ops.push(Op::Commit(2));
    ops
}

fn gen_ops(r: &mut Rng, vv: u64, len: usize, ddl_early: bool) -> Vec<Op> {
    let mut ops = vec![];
    if ddl_early {
        if r.chance(2, 3) {
            ops.push(Op::CreateIndex(r.below(2)));
        }
        if r.chance(2, 3) {
            ops.push(Op::CreateBtree(r.below(2)));
        }
    }
    for _ in 0..r.range(0, 3) {
        ops.push(Op::Insert(None, r.below(vv), r.below(vv)));
    }
    let mut begun = 0u64;
    for _ in 0..len {
        let k = r.below(100);
        let tx = if begun > 0 && r.chance(5, 6) { Some(r.range(1, begun)) } else { None };
        let op = if k < 12 && begun < 4 {
            begun += 1;
            Op::Begin
        } else if k < 32 {
            Op::Insert(tx, r.below(vv), r.below(vv))
        } else if k < 55 {
            Op::Update(tx, gen_cond(r, vv, 0), r.below(2), r.below(vv))
        } else if k < 70 {
            Op::Delete(tx, gen_cond(r, vv, 0))
        } else if k < 78 && begun > 0 {
            Op::Commit(r.range(1, begun))
        } else if k < 90 && begun > 0 {
            Op::Rollback(r.range(1, begun))
        } else if k < 93 {
            if r.chance(1, 2) { Op::CreateIndex(r.below(2)) } else { Op::CreateBtree(r.below(2)) }
        } else if k < 98 {
            Op::Advance(*r.pick(&[1u64, 500, 1000, 1001, 30001]))
        } else {
            Op::CleanupLocks
        };
        ops.push(op);
    }
    ops
}

fn main() {
    let args = Args::parse();
    quiet_panics();
    let mut rng = Rng::new(args.seed);
    let mut dist = Dist::default();
    let mut rel = CaseWriter::new(&args.out, "rel");

    // ---- corpus (DESIGN section 5 F-C09-ddl, suspected F-C09-expiry, and the unlocked-insert interleaving)
    let corpus: Vec<(&str, u64, Vec<Op>)> = vec![
        (
            "corpus F-C09-ddl: row a=1; begin; tx_delete(a=1); create_index(a); rollback -> Eq(a,1) through the new index",
            30,
            vec![Op::Insert(None, 1, 1), Op::Begin, Op::Delete(Some(1), Cond::Eq(0, 1)), Op::CreateIndex(0), Op::Rollback(1)],
        ),
        (
            "corpus ddl btree: begin; tx_update(b:=2); create_btree_index(b); rollback -> Lt/Ge(b) through the new index",
            30,
            vec![Op::Insert(None, 1, 1), Op::Begin, Op::Update(Some(1), Cond::True, 1, 2), Op::CreateBtree(1), Op::Rollback(1)],
        ),
        (
            "corpus F-C09-expiry: T1 tx_update(a:=2); 30001 ms; T2 tx_update(a:=0), commit; T1 rollback rewrites T2's committed row",
            30,
            vec![
                Op::Insert(None, 1, 1), Op::Begin, Op::Update(Some(1), Cond::True, 0, 2), Op::Begin,
                Op::Update(Some(2), Cond::True, 0, 0), Op::Update(None, Cond::True, 0, 0), Op::Advance(30001),
                Op::Update(Some(2), Cond::True, 0, 0), Op::Commit(2), Op::Rollback(1),
            ],
        ),
        (
            "corpus lock takeover then COMMIT of the expired transaction: T1 update; 30001 ms; T2 update (takes the expired lock over); T1 commit; T3 must get LockConflict on the row T2 changed",
            30,
            vec![
                Op::Insert(None, 1, 1), Op::Begin, Op::Update(Some(1), Cond::True, 0, 2), Op::Advance(30001), Op::Begin,
                Op::Update(Some(2), Cond::True, 0, 0), Op::Commit(1), Op::Begin, Op::Update(Some(3), Cond::True, 0, 1),
                Op::Delete(Some(3), Cond::True), Op::Delete(None, Cond::True), Op::Rollback(2),
            ],
        ),
        (
            "corpus lock takeover then ROLLBACK-free end by a second statement: T1 delete; expiry; T2 insert+update other row; T1 commit; T3 writes",
            1,
            vec![
                Op::Insert(None, 1, 1), Op::Insert(None, 2, 2), Op::Begin, Op::Update(Some(1), Cond::Eq(0, 1), 1, 0), Op::Advance(1001), Op::Begin,
                Op::Update(Some(2), Cond::Ge(0, 1), 1, 2), Op::Commit(1), Op::Update(None, Cond::Eq(0, 1), 1, 1), Op::Begin, Op::Delete(Some(3), Cond::Eq(0, 2)), Op::Commit(2),
            ],
        ),
        (
            "corpus lock taken over after expiry, first owner comes back: T1 updates row 1; 1001 ms (lock timed out); T2 updates row 1; T1 updates row 1 again -> must get LockConflict (T2 holds the row); T2 commit; T1 rollback",
            1,
            vec![
                Op::Insert(None, 1, 1), Op::Begin, Op::Begin, Op::Update(Some(1), Cond::True, 1, 2), Op::Advance(1001),
                Op::Update(Some(2), Cond::True, 1, 0), Op::Update(Some(1), Cond::True, 1, 1), Op::Delete(Some(1), Cond::True),
                Op::Update(Some(2), Cond::True, 0, 0), Op::Commit(2), Op::Rollback(1),
            ],
        ),
        (
            "corpus refused statement keeps the locks already held: T1 updates row 1; T2 updates row 3; T1 update(True) is refused (row 3); T3 update row 1 must still get LockConflict; T1 rollback",
            30,
            vec![
                Op::Insert(None, 0, 0), Op::Insert(None, 1, 1), Op::Insert(None, 2, 2), Op::Begin, Op::Begin, Op::Begin,
                Op::Update(Some(1), Cond::Eq(0, 0), 1, 2), Op::Update(Some(2), Cond::Eq(0, 2), 1, 0), Op::Update(Some(1), Cond::True, 1, 1),
                Op::Update(Some(3), Cond::Eq(0, 0), 1, 0), Op::Update(None, Cond::Eq(0, 0), 1, 0), Op::Rollback(1), Op::Commit(2), Op::Commit(3),
            ],
        ),
        (
            "corpus expired + fresh lock of one transaction: T1 update row 1; 600 ms; T1 update row 2; 500 ms (only row 1's lock has timed out); cleanup_expired_locks; T1 commit -> no lock may remain; T2 updates row 2",
            1,
            vec![
                Op::Insert(None, 1, 1), Op::Insert(None, 2, 2), Op::Begin, Op::Update(Some(1), Cond::Eq(0, 1), 1, 0), Op::Advance(600),
                Op::Update(Some(1), Cond::Eq(0, 2), 1, 0), Op::Advance(500), Op::CleanupLocks, Op::Commit(1), Op::Begin,
                Op::Update(Some(2), Cond::Eq(0, 2), 1, 1), Op::Commit(2),
            ],
        ),
        (
            "corpus expired + fresh lock, rollback: T1 delete row 1; 900 ms; T1 update row 2; 101 ms; cleanup_expired_locks; T1 rollback; delete_rows(True)",
            1,
            vec![
                Op::Insert(None, 1, 1), Op::Insert(None, 2, 2), Op::Begin, Op::Delete(Some(1), Cond::Eq(0, 1)), Op::Advance(900),
                Op::Update(Some(1), Cond::Eq(0, 2), 1, 0), Op::Advance(101), Op::CleanupLocks, Op::Rollback(1), Op::Delete(None, Cond::True),
            ],
        ),
        (
            "corpus unlocked insert: T1 tx_insert; T2 tx_update(True) on the uncommitted row; T1 rollback; T2 commit",
            30,
            vec![Op::CreateIndex(0), Op::Begin, Op::Begin, Op::Insert(Some(1), 1, 1), Op::Update(Some(2), Cond::True, 0, 2), Op::Rollback(1), Op::Commit(2), Op::Insert(Some(1), 1, 1), Op::Commit(2)],
        ),
        (
            "corpus unlocked insert, both roll back (RollbackFailed on the vanished row)",
            30,
            vec![Op::Begin, Op::Begin, Op::Insert(Some(1), 1, 1), Op::Update(Some(2), Cond::True, 0, 2), Op::Rollback(1), Op::Rollback(2)],
        ),
        (
            "corpus mixed multi-statement transaction over both index kinds, rolled back",
            30,
            vec![
                Op::CreateIndex(0), Op::CreateBtree(1), Op::CreateBtree(0), Op::Insert(None, 1, 2), Op::Insert(None, 2, 0), Op::Begin,
                Op::Insert(Some(1), 0, 1), Op::Update(Some(1), Cond::Ge(1, 1), 0, 2), Op::Delete(Some(1), Cond::Eq(0, 2)),
                Op::Insert(Some(1), 2, 2), Op::Update(Some(1), Cond::True, 1, 0), Op::Rollback(1),
            ],
        ),
    ];
    for (what, secs, ops) in &corpus {
        let (t, _h, _nt) = run_case(ops, *secs, 3, 8, &mut dist);
        rel.push(&t, what, true);
    }

    for i in 0..args.budget(600, 25000) {
        let vv = 3;
        let secs = *rng.pick(&[30u64, 30, 1]);
        let len = rng.range(4, 26) as usize;
        // most cases create their indexes before any transaction starts (DDL inside an open transaction is the known class)
        let (ops, secs) = if i % 10 == 9 {
            dist.hit("rel.lockmix");
            (gen_ops_lockmix(&mut rng, vv), 1)
        } else {
            (gen_ops(&mut rng, vv, len, i % 5 != 0), secs)
        };
        let (t, h, nt) = run_case(&ops, secs, vv, 8, &mut dist);
        rel.push(&t, &h, nt);
    }

    // ---- idcol: indexes and conditions on the system column `_id`
    let mut idc = CaseWriter::new(&args.out, "idcol");
    let icorpus: Vec<(&str, Vec<Op>)> = vec![
        (
            "corpus _id indexes: hash + B-tree on _id; rows 1..3; begin; tx_delete(a=1); rollback -> Eq/Lt/Ge(_id) through the indexes must list the row again",
            vec![
                Op::CreateIndex(2), Op::CreateBtree(2), Op::Insert(None, 0, 0), Op::Insert(None, 1, 1), Op::Insert(None, 2, 2), Op::Begin,
                Op::Delete(Some(1), Cond::Eq(0, 1)), Op::Rollback(1),
            ],
        ),
        (
            "corpus _id indexes created over existing rows: tx_insert + tx_update(_id >= 2) + tx_delete(_id = 1), rollback; then the same committed",
            vec![
                Op::Insert(None, 0, 0), Op::Insert(None, 1, 1), Op::CreateBtree(2), Op::CreateIndex(2), Op::CreateIndex(0), Op::Begin,
                Op::Insert(Some(1), 2, 2), Op::Update(Some(1), Cond::Ge(2, 2), 0, 1), Op::Delete(Some(1), Cond::Eq(2, 1)), Op::Rollback(1), Op::Begin,
                Op::Insert(Some(2), 2, 2), Op::Update(Some(2), Cond::Ge(2, 2), 0, 1), Op::Delete(Some(2), Cond::Eq(2, 1)), Op::Commit(2),
            ],
        ),
    ];
    for (what, ops) in &icorpus {
        let (t, _h, _nt) = run_case_x(ops, 30, 3, 8, None, true, &mut dist);
        idc.push(&t, what, true);
    }
    for _ in 0..args.budget(200, 8000) {
        let vv = 3;
        let len = rng.range(4, 20) as usize;
        let ops = gen_ops_id(&mut rng, vv, len);
        let (t, h, nt) = run_case_x(&ops, 30, vv, 8, None, true, &mut dist);
        idc.push(&t, &h, nt);
    }

    // ---- budget: a small B-tree entry budget makes index maintenance fail in the middle of a statement
    let mut bud = CaseWriter::new(&args.out, "budget");
    let bcorpus: Vec<(&str, u64, Vec<Op>)> = vec![
        (
            "corpus budget: 2 keys; hash(a)+btree(b); rows (1,1) (2,1) (0,2); tx: update ok, then update b:=0 of row 1 fails half-way (old key still used by row 2) -> rollback; scan vs indexes",
            2,
            vec![
                Op::CreateIndex(0), Op::CreateBtree(1), Op::Insert(None, 1, 1), Op::Insert(None, 2, 1), Op::Insert(None, 0, 2), Op::Begin,
                Op::Update(Some(1), Cond::Eq(0, 0), 0, 2), Op::Update(Some(1), Cond::Eq(0, 1), 1, 0),
            ],
        ),
        (
            "corpus budget: the same failing update outside a transaction (internal rollback), then a failing delete-free tx_insert + rollback and a failing insert",
            2,
            vec![
                Op::CreateIndex(1), Op::CreateBtree(1), Op::Insert(None, 1, 1), Op::Insert(None, 2, 1), Op::Insert(None, 0, 2),
                Op::Update(None, Cond::Eq(0, 1), 1, 0), Op::Begin, Op::Insert(Some(1), 1, 0), Op::Insert(None, 2, 0),
                Op::Begin, Op::Delete(Some(2), Cond::Eq(1, 1)), Op::Update(Some(2), Cond::True, 1, 0), Op::Commit(2),
            ],
        ),
    ];
    let bcorpus2: Vec<(&str, u64, Vec<Op>)> = vec![
        (
            "corpus budget regression (318ccde5): budget 2, btree+hash on b; rows (2,0) (2,0); begin T; tx_update(a>=1, b:=1) frees key 0; plain insert(1,2) takes the freed entry; rollback(T) must restore rows AND B-tree entries (Lt/Ge(b) list both rows)",
            2,
            vec![
                Op::CreateBtree(1), Op::CreateIndex(1), Op::Insert(None, 2, 0), Op::Insert(None, 2, 0), Op::Begin,
                Op::Update(Some(1), Cond::Ge(0, 1), 1, 1), Op::Insert(None, 1, 2), Op::Rollback(1),
            ],
        ),
        (
            "corpus budget regression, delete: budget 1, btree on b; row (1,0); begin T; tx_delete(True) frees key 0; plain insert(2,1) takes it; rollback(T): row 1 back in Lt/Ge(b)",
            1,
            vec![Op::CreateBtree(1), Op::Insert(None, 1, 0), Op::Begin, Op::Delete(Some(1), Cond::True), Op::Insert(None, 2, 1), Op::Rollback(1), Op::Begin, Op::Update(Some(2), Cond::True, 0, 0), Op::Commit(2)],
        ),
    ];
    for (what, bm, ops) in bcorpus.iter().chain(bcorpus2.iter()) {
        let (t, _h, _nt) = run_case_b(ops, 30, 3, 8, Some(*bm), &mut dist);
        bud.push(&t, what, true);
    }
    for _ in 0..args.budget(250, 10000) {
        let vv = 3;
        let bm = rng.range(1, 3);
        // indexes are created on the empty table (a create_btree_index that runs out of budget is DDL, not a transaction)
        let mut ops = vec![Op::CreateBtree(1)];
        if rng.chance(1, 2) {
            ops.push(Op::CreateIndex(rng.below(2)));
        }
        if rng.chance(1, 3) {
            ops.push(Op::CreateBtree(0));
        }
        let mut begun = 0u64;
        for _ in 0..rng.range(6, 24) {
            let k = rng.below(100);
            let tx = if begun > 0 && rng.chance(3, 4) { Some(rng.range(1, begun)) } else { None };
            ops.push(if k < 12 && begun < 3 {
                begun += 1;
                Op::Begin
            } else if k < 40 {
                Op::Insert(tx, rng.below(vv), rng.below(vv))
            } else if k < 72 {
                Op::Update(tx, gen_cond(&mut rng, vv, 0), rng.below(2), rng.below(vv))
            } else if k < 82 {
                Op::Delete(tx, gen_cond(&mut rng, vv, 0))
            } else if k < 90 && begun > 0 {
                Op::Commit(rng.range(1, begun))
            } else if begun > 0 {
                Op::Rollback(rng.range(1, begun))
            } else {
                Op::Insert(None, rng.below(vv), rng.below(vv))
            });
        }
        let (t, h, nt) = run_case_b(&ops, 30, vv, 8, Some(bm), &mut dist);
        bud.push(&t, &format!("budget={bm} {h}"), nt);
    }
    // stream "the undo needs entries somebody else took": one open transaction frees B-tree keys (update / delete of
    // the last row under a key), PLAIN inserts / updates add new keys while it is open, then it rolls back
    for _ in 0..args.budget(80, 4000) {
        let vv = 3;
        let bm = rng.range(1, 3);
        let mut ops = vec![Op::CreateBtree(1)];
        if rng.chance(1, 2) {
            ops.push(Op::CreateIndex(rng.below(2)));
        }
        let b0 = rng.below(vv);
        for _ in 0..rng.range(1, 3) {
            ops.push(Op::Insert(None, rng.below(vv), b0));
        }
        ops.push(Op::Begin);
        for _ in 0..rng.range(1, 2) {
            ops.push(if rng.chance(2, 3) { Op::Update(Some(1), gen_cond(&mut rng, vv, 0), 1, rng.below(vv)) } else { Op::Delete(Some(1), gen_cond(&mut rng, vv, 0)) });
        }
        for _ in 0..rng.range(1, 3) {
            ops.push(if rng.chance(2, 3) { Op::Insert(None, rng.below(vv), rng.below(vv)) } else { Op::Update(None, gen_cond(&mut rng, vv, 0), 1, rng.below(vv)) });
        }
        ops.push(if rng.chance(4, 5) { Op::Rollback(1) } else { Op::Commit(1) });
        ops.push(Op::Insert(None, rng.below(vv), rng.below(vv)));
        dist.hit("budget.undo_stream");
        let (t, h, nt) = run_case_b(&ops, 30, vv, 8, Some(bm), &mut dist);
        bud.push(&t, &format!("budget={bm} {h}"), nt);
    }

    write_meta(
        &args.out,
        json!({
            "property": "C09", "seed": args.seed, "tier": args.tier,
            "kinds": [rel.summary(), idc.summary(), bud.summary()],
            "distribution": dist.json(),
            "nontrivial_rule": "rel / idcol: at least one rollback of a live transaction or one lock conflict",
        }),
    );
}
