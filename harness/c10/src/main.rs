//! C10 correspondence harness: drives a REAL `RaftNode::with_wal` through elections, vote
//! requests, append-entries (with conflicts), leadership and proposals; after every generation the
//! real WAL file is truncated at EVERY byte offset of what the generation appended, the node is
//! restarted from the truncated file (`RaftNode::with_wal` and `RaftRecoveryState::from_wal`) and
//! observed (term, vote, log image, a probing RequestVote).  Up to three generations.
//!
//! kind `gens` : (payload table, [generation]) -> NV.C10.Run.check_gens
use nvh_common::*;
use std::collections::BTreeSet;
use std::fs;
use std::path::Path;
use std::sync::Arc;
use tensor_chain::{
    AppendEntries, AppendEntriesResponse, Block, BlockHeader, LogEntry, MemoryTransport, Message, RaftConfig,
    PreVoteResponse, RaftNode, RaftRecoveryState, RaftState, RaftWal, RaftWalEntry, RequestVote, RequestVoteResponse, SnapshotMetadata,
};
use tensor_store::SparseVector;

const PROBE: u64 = 9;
fn nid(i: u64) -> String {
    match i {
        0 => "n0".into(),
        1 => "n1".into(),
        2 => "n2".into(),
        _ => format!("c{i}"),
    }
}
fn nid_of(s: &str) -> u64 {
    s[1..].parse().unwrap_or(99)
}
fn block(h: u64) -> Block {
    Block::new(BlockHeader { height: h, proposer: "p".into(), ..BlockHeader::default() }, vec![])
}
static TRAILING: std::sync::atomic::AtomicUsize = std::sync::atomic::AtomicUsize::new(1);
fn config() -> RaftConfig {
    RaftConfig {
        enable_fast_path: false,
        enable_geometric_tiebreak: false,
        enable_pre_vote: false,
        auto_heartbeat: false,
        snapshot_trailing_logs: TRAILING.load(std::sync::atomic::Ordering::SeqCst),
        ..RaftConfig::default()
    }
}
fn open_node(path: &Path) -> std::io::Result<RaftNode> {
    RaftNode::with_wal(nid(0), vec![nid(1), nid(2)], Arc::new(MemoryTransport::new(nid(0))), config(), path)
}

type LEntry = (u64, u64, u64);
#[derive(Clone, Debug)]
enum Step {
    Elect,
    ReqVote { t: u64, cand: u64, lli: u64, llt: u64 },
    VoteResp { from: u64, t: u64, granted: bool },
    Append { t: u64, leader: u64, prev_i: u64, prev_t: u64, ents: Vec<LEntry>, commit: u64 },
    AppendResp { from: u64, t: u64 },
    BecomeLeader,
    Propose(u64),
    /// in-memory log compaction: finalize_to(commit_index - back), create_snapshot, truncate_log;
    /// `newbase` (first retained index - 1) is read off the node afterwards
    Compact { back: u64, newbase: u64 },
    /// install_snapshot(metadata, data) with the complete log `ents` (index 1..) as data;
    /// last_included_term = `lit` = term of the last entry; `accepted` = the call returned Ok
    /// (read off the node: a snapshot not newer than the last one is refused)
    InstallSnap { lit: u64, ents: Vec<LEntry>, accepted: bool },
    /// start_pre_vote() (the node enters the pre-vote phase), then a PreVoteResponse from a peer
    PreVote { from: u64, t: u64, granted: bool },
}
fn le_coq(e: &LEntry) -> String {
    format!("({}, {}, {})", e.0, e.1, e.2)
}
impl Step {
    fn coq(&self) -> String {
        match self {
            Step::Elect => "XS Elect".into(),
            Step::ReqVote { t, cand, lli, llt } => format!("XS (ReqVote {t} {cand} {lli} {llt})"),
            Step::VoteResp { from, t, granted } => format!("XS (VoteResp {from} {t} {})", b(*granted)),
            Step::Append { t, leader, prev_i, prev_t, ents, commit } => {
                format!("XS (Append {t} {leader} {prev_i} {prev_t} {} {commit})", list(ents.iter().map(le_coq)))
            }
            Step::AppendResp { from, t } => format!("XS (AppendResp {from} {t})"),
            Step::BecomeLeader => "XS BecomeLeader".into(),
            Step::Compact { newbase, .. } => format!("XCompact {newbase}"),
            Step::Propose(h) => format!("XS (Propose {h})"),
            Step::PreVote { from, t, granted } => format!("XS (PreVote {from} {t} {})", b(*granted)),
            Step::InstallSnap { lit, ents, accepted } => format!("XS (InstallSnap {lit} {} {})", list(ents.iter().map(le_coq)), b(*accepted)),
        }
    }
}

type NObs = (u64, Option<u64>, Vec<LEntry>, u64);
fn role_code(r: RaftState) -> u64 {
    match r {
        RaftState::Follower => 0,
        RaftState::Candidate => 1,
        RaftState::Leader => 2,
        _ => 7,
    }
}
fn observe(n: &RaftNode) -> NObs {
    (n.current_term(), n.verif_voted_for().map(|s| nid_of(&s)), n.verif_log_image(), role_code(n.state()))
}
fn nobs_coq(o: &NObs) -> String {
    format!("({}, {}, {}, {})", o.0, opt(o.1.map(n)), list(o.2.iter().map(le_coq)), o.3)
}
type RObs = (u64, Option<u64>, Vec<LEntry>, bool);
fn robs_coq(o: &RObs) -> String {
    format!("({}, {}, {}, {})", o.0, opt(o.1.map(n)), list(o.2.iter().map(le_coq)), b(o.3))
}

/// apply one step to the real node; returns the reply as numbers
fn apply(node: &RaftNode, s: &Step) -> Vec<u64> {
    match s {
        Step::Elect => {
            node.start_election();
            vec![node.current_term()]
        }
        Step::ReqVote { t, cand, lli, llt } => {
            let m = Message::RequestVote(RequestVote {
                term: *t,
                candidate_id: nid(*cand),
                last_log_index: *lli,
                last_log_term: *llt,
                state_embedding: SparseVector::new(0),
            });
            match node.handle_message(&nid(*cand), &m) {
                Some(Message::RequestVoteResponse(r)) => vec![r.term, r.vote_granted as u64],
                _ => vec![99],
            }
        }
        Step::VoteResp { from, t, granted } => {
            let m = Message::RequestVoteResponse(RequestVoteResponse { term: *t, vote_granted: *granted, voter_id: nid(*from) });
            node.handle_message(&nid(*from), &m);
            vec![]
        }
        Step::Append { t, leader, prev_i, prev_t, ents, commit } => {
            let m = Message::AppendEntries(AppendEntries {
                term: *t,
                leader_id: nid(*leader),
                prev_log_index: *prev_i,
                prev_log_term: *prev_t,
                entries: ents.iter().map(|(i, tt, h)| LogEntry::new(*tt, *i, block(*h))).collect(),
                leader_commit: *commit,
                block_embedding: None,
            });
            match node.handle_message(&nid(*leader), &m) {
                Some(Message::AppendEntriesResponse(r)) => vec![r.term, r.success as u64, r.match_index],
                _ => vec![99],
            }
        }
        Step::AppendResp { from, t } => {
            let m = Message::AppendEntriesResponse(AppendEntriesResponse {
                term: *t,
                success: false,
                follower_id: nid(*from),
                match_index: 0,
                used_fast_path: false,
            });
            node.handle_message(&nid(*from), &m);
            vec![]
        }
        Step::BecomeLeader => {
            node.become_leader();
            vec![]
        }
        Step::Compact { back, .. } => {
            let h = node.commit_index().saturating_sub(*back);
            if h >= 1 && node.finalize_to(h).is_ok() {
                if let Ok((meta, _)) = node.create_snapshot() {
                    let _ = node.truncate_log(&meta);
                }
            }
            vec![]
        }
        Step::PreVote { from, t, granted } => {
            node.start_pre_vote();
            let m = Message::PreVoteResponse(PreVoteResponse { term: *t, vote_granted: *granted, voter_id: nid(*from) });
            node.handle_message(&nid(*from), &m);
            vec![]
        }
        Step::InstallSnap { ents, lit, .. } => {
            use sha2::{Digest, Sha256};
            let entries: Vec<LogEntry> = ents.iter().map(|(i, tt, h)| LogEntry::new(*tt, *i, block(*h))).collect();
            let data = bitcode::serialize(&entries).unwrap();
            let hash: [u8; 32] = Sha256::digest(&data).into();
            let meta = SnapshotMetadata::new(ents.last().map_or(0, |e| e.0), *lit, hash, vec![nid(1), nid(2)], data.len() as u64);
            vec![node.install_snapshot(meta, &data).is_ok() as u64]
        }
        Step::Propose(h) => {
            node.quorum_tracker().mark_reachable(&nid(1));
            node.quorum_tracker().mark_reachable(&nid(2));
            match node.propose(block(*h)) {
                Ok(i) => vec![1, i],
                Err(_) => vec![0, 0],
            }
        }
    }
}

/// every record this case can write, with its real payload bytes
struct Table {
    rows: Vec<String>,
    seen: BTreeSet<String>,
}
impl Table {
    fn push(&mut self, term: String, e: &RaftWalEntry) {
        if self.seen.insert(term.clone()) {
            let by = bitcode::serialize(e).expect("serialize");
            self.rows.push(format!("({}, {})", term, bytes(&by)));
        }
    }
    fn tv(&mut self, t: u64, v: Option<u64>) {
        self.push(format!("TermAndVote {} {}", t, opt(v.map(n))), &RaftWalEntry::TermAndVote { term: t, voted_for: v.map(nid) });
    }
    fn full(&mut self, e: &LEntry) {
        let entry_data = bitcode::serialize(&LogEntry::new(e.1, e.0, block(e.2))).unwrap();
        self.push(format!("LogEntryFull {} {} {}", e.0, e.1, e.2), &RaftWalEntry::LogEntryFull { index: e.0, term: e.1, entry_data });
    }
    fn trunc(&mut self, i: u64) {
        self.push(format!("LogTruncate {i}"), &RaftWalEntry::LogTruncate { from_index: i });
    }
    /// the records step `s` may write on a node in term `term` with log length `len`
    fn for_step(&mut self, s: &Step, term: u64, len: u64) {
        match s {
            Step::Elect => self.tv(term + 1, Some(0)),
            Step::ReqVote { t, cand, .. } => {
                self.tv(*t, None);
                self.tv(*t, Some(*cand));
                self.tv(term, Some(*cand));
            }
            Step::VoteResp { t, .. } | Step::AppendResp { t, .. } => self.tv(*t, None),
            Step::PreVote { t, .. } => {
                self.tv(*t, None);
                self.tv(term + 1, Some(0));
            }
            Step::Append { t, ents, .. } => {
                self.tv(*t, None);
                for e in ents {
                    self.full(e);
                    self.trunc(e.0);
                }
            }
            Step::BecomeLeader | Step::Compact { .. } => {}
            Step::InstallSnap { lit, ents, .. } => {
                self.tv(*lit, None);
                for e in ents {
                    self.full(e);
                    self.trunc(e.0);
                }
                self.trunc(ents.len() as u64 + 1);
            }
            Step::Propose(h) => self.full(&(len + 1, term, *h)),
        }
    }
}

fn restart_obs(path: &Path) -> Option<RObs> {
    let r = guarded(std::panic::AssertUnwindSafe(|| -> Option<RObs> {
        let node = open_node(path).ok()?;
        let term = node.current_term();
        let vote = node.verif_voted_for().map(|s| nid_of(&s));
        let image = node.verif_log_image();
        // the recovery-state API must tell the same story as the restarted node
        // (opened AFTER the node's own open, which may already have cut a torn tail)
        let rs = RaftWal::open(path).ok().and_then(|w| RaftRecoveryState::from_wal(&w).ok())?;
        if rs.current_term != term || rs.voted_for.map(|s| nid_of(&s)) != vote || rs.recovered_log.len() != image.len() {
            return Some((u64::MAX, None, vec![], false)); // never equal to a model observation
        }
        let probe = Message::RequestVote(RequestVote {
            term,
            candidate_id: nid(PROBE),
            last_log_index: 1_000_000,
            last_log_term: 1_000_000,
            state_embedding: SparseVector::new(0),
        });
        let granted = matches!(node.handle_message(&nid(PROBE), &probe), Some(Message::RequestVoteResponse(r)) if r.vote_granted);
        Some((term, vote, image, granted))
    }));
    r.ok().flatten()
}

struct GenOut {
    term: String,
    human: String,
    fail: Option<String>,
}

#[allow(clippy::too_many_arguments)]
fn run_generation(node: RaftNode, wal: &Path, scratch: &Path, steps: &[Step], tab: &mut Table, pick: &mut dyn FnMut(u64, u64, &[u64]) -> u64, dist: &mut Dist) -> (GenOut, Vec<u8>, u64) {
    let base = fs::metadata(wal).map(|m| m.len()).unwrap_or(0);
    let mut lives: Vec<NObs> = vec![observe(&node)];
    let mut outs = vec![];
    let mut ends = vec![];
    let mut steps: Vec<Step> = steps.to_vec();
    for s in steps.iter_mut() {
        // after a compaction the harness only sends requests that refer to retained entries
        // (prev index above the compaction base), as a leader that is not behind the snapshot does
        let image = node.verif_log_image();
        let cbase = image.first().map_or(0, |e| e.0 - 1);
        if cbase > 0 {
            if let Step::Append { prev_i, prev_t, ents, .. } = s {
                if *prev_i <= cbase {
                    *prev_i = cbase + 1;
                    *prev_t = image[0].1;
                    for (j, e) in ents.iter_mut().enumerate() {
                        e.0 = *prev_i + 1 + j as u64;
                    }
                    dist.hit("step.Append.moved_above_compaction_base");
                }
            }
        }
        if let Step::InstallSnap { ents, lit, .. } = s {
            // entries the node already holds (same index and term) are the same entries; the last
            // entry carries the last-included term; after a compaction the node no longer shows
            // what it compacted away, so no snapshot is offered then (an empty one is refused)
            if cbase > 0 {
                ents.clear();
                dist.hit("step.InstallSnap.skipped_after_compaction");
            }
            for e in ents.iter_mut() {
                if let Some(x) = image.iter().find(|x| x.0 == e.0 && x.1 == e.1) {
                    e.2 = x.2;
                }
            }
            if let Some(last) = ents.last() {
                *lit = last.1;
            }
        }
        tab.for_step(s, node.current_term(), node.last_log_index());
        dist.hit(&format!("step.{}", format!("{s:?}").split(|c: char| !c.is_alphanumeric()).next().unwrap_or("?")));
        let out = guarded(std::panic::AssertUnwindSafe(|| apply(&node, s))).unwrap_or_else(|_| vec![98]);
        if let Step::InstallSnap { accepted, .. } = s {
            *accepted = out == vec![1];
            dist.hit(if *accepted { "step.InstallSnap.accepted" } else { "step.InstallSnap.refused" });
        }
        if let Step::Compact { newbase, .. } = s {
            *newbase = node.verif_log_image().first().map_or(0, |e| e.0 - 1);
            if *newbase > cbase {
                dist.hit("step.Compact.log_shortened");
            }
        }
        outs.push(out);
        lives.push(observe(&node));
        ends.push(fs::metadata(wal).map(|m| m.len()).unwrap_or(0));
    }
    let steps = &steps[..];
    drop(node);
    let fbytes = fs::read(wal).unwrap_or_default();
    let len = fbytes.len() as u64;
    let offsets: Vec<u64> = (base..=len).collect();
    let nthreads = 12usize.min(offsets.len().max(1));
    let chunk = ((offsets.len() + nthreads - 1) / nthreads.max(1)).max(1);
    let mut all: Vec<(u64, Option<RObs>)> = vec![];
    std::thread::scope(|sc| {
        let mut hs = vec![];
        for (ti, part) in offsets.chunks(chunk).enumerate() {
            let fb = &fbytes;
            let path = scratch.with_extension(format!("t{ti}"));
            hs.push(sc.spawn(move || {
                let mut out = vec![];
                for &k in part {
                    fs::write(&path, &fb[..k as usize]).unwrap();
                    out.push((k, restart_obs(&path)));
                }
                let _ = fs::remove_file(&path);
                out
            }));
        }
        for h in hs {
            all.extend(h.join().unwrap());
        }
    });
    all.sort_by_key(|x| x.0);
    let mut runs: Vec<(u64, u64, u64, Option<RObs>)> = vec![];
    let mut fail = None;
    for (k, ro) in all {
        let a = ends.iter().filter(|e| **e <= k).count();
        // the oracle of Run.v, here only to label the evidence
        let holds = match &ro {
            None => false,
            Some((rt, rv, rl, granted)) => {
                let (lt, lv, ll, _) = &lives[a];
                let keep = if a + 1 < lives.len() {
                    let nl = &lives[a + 1].2;
                    ll.iter().zip(nl.iter()).take_while(|(x, y)| x == y).count().min(ll.len())
                } else {
                    ll.len()
                };
                rt >= lt
                    && (rt != lt || lv.map_or(true, |c| *rv == Some(c) && (c == PROBE || !granted)))
                    && ll.iter().take(keep).all(|e| rl.contains(e))
            }
        };
        if !holds && fail.is_none() {
            fail = Some(format!(
                "crash at byte {k} of {len} ({a}/{} steps answered; live term/vote/log = {:?}): restart {}",
                steps.len(),
                (&lives[a].0, &lives[a].1, &lives[a].2),
                match &ro {
                    None => "FAILED (node cannot restart)".to_string(),
                    Some(o) => format!("gave term {} vote {:?} log {:?} probe_granted {}", o.0, o.1, o.2, o.3),
                }
            ));
        }
        dist.hit(if ro.is_some() { "restart.ok" } else { "restart.err" });
        match runs.last_mut() {
            Some((from, to, step, o)) if *o == ro && (*from == *to || k - *to == *step) => {
                *step = k - *to;
                *to = k;
            }
            _ => runs.push((k, k, 1, ro)),
        }
    }
    let chosen = pick(base, len, &ends);
    let term = format!(
        "({}, {}, {}, {}, {}, {}, {}, {})",
        list(steps.iter().map(|s| s.coq())),
        list(outs.iter().map(|o| list(o.iter().map(|x| n(*x))))),
        list(lives.iter().map(nobs_coq)),
        list(ends.iter().map(|e| n(*e))),
        base,
        bytes(&fbytes),
        list(runs.iter().map(|(a, z, st, o)| format!("({}, {}, {}, {})", a, z, st, opt(o.as_ref().map(robs_coq))))),
        chosen
    );
    let last = lives.last().unwrap();
    let human = format!("steps={:?} replies={:?} base={} len={} chosen_crash={} final=(term {}, vote {:?}, log {:?}, role {})", steps, outs, base, len, chosen, last.0, last.1, last.2, last.3);
    (GenOut { term, human, fail }, fbytes, chosen)
}

type Pick = Box<dyn FnMut(u64, u64, &[u64]) -> u64>;
fn pick_end() -> Pick {
    Box::new(|_b, len, _e| len)
}
fn pick_back(back: u64) -> Pick {
    Box::new(move |b, len, _e| len.saturating_sub(back).max(b))
}
fn pick_random(mut r: Rng) -> Pick {
    Box::new(move |b, len, ends| {
        if len == b {
            return len;
        }
        match r.below(4) {
            0 => len,
            1 => r.range(b, len),
            2 => {
                let e = if ends.is_empty() { b } else { *r.pick(ends) };
                (e + r.below(9)).min(len).max(b)
            }
            _ => len - 1 - r.below((len - b).min(6)),
        }
    })
}

struct Ctx<'a> {
    args: &'a Args,
    dist: Dist,
    w: CaseWriter,
    counter: usize,
}

fn run_case(cx: &mut Ctx, label: &str, gens: Vec<Vec<Step>>, mut picks: Vec<Pick>) {
    cx.counter += 1;
    let dir = cx.args.out.join("scratch");
    fs::create_dir_all(&dir).unwrap();
    let wal = dir.join(format!("c{}.wal", cx.counter));
    let scratch = dir.join(format!("crash{}.wal", cx.counter));
    let _ = fs::remove_file(&wal);
    let mut tab = Table { rows: vec![], seen: BTreeSet::new() };
    let mut terms = vec![];
    let mut humans = vec![];
    let mut fail: Option<String> = None;
    let mut nsteps = 0;
    for (gi, steps) in gens.iter().enumerate() {
        let node = match open_node(&wal) {
            Ok(n) => n,
            Err(e) => {
                humans.push(format!("gen{}: node cannot restart: {e}", gi + 1));
                break;
            }
        };
        nsteps += steps.len();
        let (out, fbytes, chosen) = run_generation(node, &wal, &scratch, steps, &mut tab, &mut *picks[gi], &mut cx.dist);
        if fail.is_none() {
            if let Some(f) = &out.fail {
                fail = Some(format!("generation {}: {}", gi + 1, f));
            }
        }
        terms.push(out.term);
        humans.push(format!("gen{}: {}", gi + 1, out.human));
        fs::write(&wal, &fbytes[..chosen as usize]).unwrap();
        cx.dist.hit(&format!("generations.{}", gi + 1));
    }
    let _ = fs::remove_file(&wal);
    let term = format!("({}, {})", list(tab.rows.clone()), list(terms));
    let human = format!("{label}: {}{}", humans.join(" | "), fail.as_ref().map(|f| format!(" ORACLE-FALSE: {f}")).unwrap_or_default());
    cx.w.push(&term, &human, nsteps >= 2);
}

/// a well-formed step for a node that is believed to be in `term` with log `log`
fn gen_step(r: &mut Rng, term: u64, log: &[LEntry], role: u64) -> Step {
    let len = log.len() as u64;
    let (li, lt) = log.last().map_or((0, 0), |e| (e.0, e.1));
    let near_term = |r: &mut Rng| (term + r.below(4)).saturating_sub(r.below(2));
    match r.below(100) {
        0..=11 => Step::Elect,
        12..=36 => {
            let t = near_term(r);
            let (lli, llt) = match r.below(4) {
                0 => (li, lt),
                1 => (li + r.below(3), lt + r.below(2)),
                2 => (li.saturating_sub(1), lt),
                _ => (r.below(6), r.below(term + 2)),
            };
            Step::ReqVote { t, cand: *r.pick(&[1u64, 2, 3, PROBE]), lli, llt }
        }
        37..=44 => Step::VoteResp { from: *r.pick(&[1u64, 2]), t: near_term(r), granted: r.chance(2, 3) },
        45..=79 => {
            let t = near_term(r).max(1);
            // prev: mostly consistent with the local log, sometimes beyond it or with a wrong term
            let prev_i = match r.below(5) {
                0 => 0,
                1 => len + r.below(2),
                _ => r.below(len + 1),
            };
            let true_prev_t = if prev_i == 0 { 0 } else { log.get(prev_i as usize - 1).map_or(t, |e| e.1) };
            let prev_t = if r.chance(1, 6) { true_prev_t + 1 } else { true_prev_t };
            let ne = r.below(4);
            let mut ents = vec![];
            for j in 0..ne {
                let i = prev_i + 1 + j;
                // same term as the local entry (idempotent), or a conflicting one
                let tt = match log.get(i as usize - 1) {
                    Some(e) if r.chance(1, 2) => e.1,
                    _ => t.saturating_sub(r.below(2)).max(true_prev_t).max(1),
                };
                ents.push((i, tt, 100 + r.below(50)));
            }
            Step::Append { t, leader: *r.pick(&[1u64, 2]), prev_i, prev_t, ents, commit: r.below(len + 2) }
        }
        80..=82 => Step::AppendResp { from: *r.pick(&[1u64, 2]), t: near_term(r) },
        83..=84 => Step::PreVote { from: *r.pick(&[1u64, 2]), t: near_term(r), granted: r.chance(1, 2) },
        85..=87 => Step::BecomeLeader,
        88..=90 => Step::Compact { back: r.below(2), newbase: 0 },
        91..=95 => {
            // a snapshot: a prefix of the local log, then (mostly) newer entries; its last entry is
            // of the last-included term, at or above the node's term half of the time
            let keep = r.below(len + 1) as usize;
            let mut ents: Vec<LEntry> = log[..keep].to_vec();
            let floor = ents.last().map_or(1, |e| e.1).max(1);
            let lit = if r.chance(1, 2) { (term + r.below(3)).max(floor) } else { floor + r.below(2) };
            let extra = if keep > 0 && r.chance(1, 4) { 0 } else { r.range(1, 3) };
            for j in 0..extra {
                ents.push((keep as u64 + 1 + j, lit, 300 + r.below(50)));
            }
            Step::InstallSnap { lit, ents, accepted: false }
        }
        _ => {
            if role == 2 || r.chance(1, 3) {
                Step::Propose(200 + r.below(50))
            } else {
                Step::BecomeLeader
            }
        }
    }
}

fn main() {
    let args = Args::parse();
    quiet_panics();
    let mut rng = Rng::new(args.seed);
    let mut cx = Ctx { args: &args, dist: Dist::default(), w: CaseWriter::new(&args.out, "gens"), counter: 0 };

    // ---------------- corpus ----------------
    // F-WAL-torn (DESIGN 5): vote in term 1; tear the last record; reopen; grant a vote to n1 in
    // term 5 (fsynced, answered); reopen
    run_case(
        &mut cx,
        "corpus F-WAL-torn",
        vec![
            vec![Step::Elect, Step::ReqVote { t: 2, cand: 2, lli: 0, llt: 0 }],
            vec![Step::ReqVote { t: 5, cand: 1, lli: 0, llt: 0 }],
            vec![Step::ReqVote { t: 5, cand: 2, lli: 9, llt: 9 }, Step::Elect],
        ],
        vec![pick_back(3), pick_back(2), pick_end()],
    );
    // votes: same term, different candidates; probing after restart
    run_case(
        &mut cx,
        "corpus two-candidates-one-term",
        vec![vec![Step::ReqVote { t: 3, cand: 1, lli: 0, llt: 0 }, Step::ReqVote { t: 3, cand: 2, lli: 5, llt: 5 }, Step::ReqVote { t: 3, cand: PROBE, lli: 5, llt: 5 }]],
        vec![pick_end()],
    );
    // appends, a conflict truncation, leadership and proposals
    run_case(
        &mut cx,
        "corpus append-conflict-propose",
        vec![
            vec![
                Step::Append { t: 1, leader: 1, prev_i: 0, prev_t: 0, ents: vec![(1, 1, 101), (2, 1, 102), (3, 1, 103)], commit: 1 },
                Step::Append { t: 2, leader: 2, prev_i: 1, prev_t: 1, ents: vec![(2, 2, 112), (3, 2, 113)], commit: 1 },
                Step::Elect,
                Step::VoteResp { from: 1, t: 3, granted: true },
                Step::Propose(201),
                Step::Propose(202),
            ],
            vec![Step::Append { t: 4, leader: 1, prev_i: 4, prev_t: 3, ents: vec![(5, 4, 120)], commit: 4 }, Step::Elect, Step::BecomeLeader, Step::Propose(203)],
        ],
        vec![pick_back(10), pick_end()],
    );

    // in-memory compaction, then a conflict truncation above the compaction base, then restart
    for trailing in [0usize, 1, 2] {
        TRAILING.store(trailing, std::sync::atomic::Ordering::SeqCst);
        run_case(
            &mut cx,
            &format!("corpus compaction-then-conflict (trailing {trailing})"),
            vec![
                vec![
                    Step::Append { t: 1, leader: 1, prev_i: 0, prev_t: 0, ents: vec![(1, 1, 101), (2, 1, 102), (3, 1, 103), (4, 1, 104), (5, 1, 105), (6, 1, 106), (7, 1, 107)], commit: 5 },
                    Step::Compact { back: 0, newbase: 0 },
                    Step::Append { t: 2, leader: 2, prev_i: 6, prev_t: 1, ents: vec![(7, 2, 117), (8, 2, 118)], commit: 5 },
                ],
                vec![Step::Append { t: 3, leader: 1, prev_i: 8, prev_t: 2, ents: vec![(9, 3, 119)], commit: 8 }, Step::Compact { back: 1, newbase: 0 }, Step::Elect, Step::BecomeLeader, Step::Propose(220)],
            ],
            vec![pick_end(), pick_end()],
        );
    }

    TRAILING.store(1, std::sync::atomic::Ordering::SeqCst);
    // snapshot installs: (a) over a conflicting local log, then a heartbeat that acknowledges the
    // installed entries, restart at every byte -- the installed entries must be back; (b) a vote
    // held in the old term, a snapshot with a higher last-included term (no vote in it), a vote for
    // another candidate in that term, restart, the first candidate asks again; (c) a snapshot shorter
    // than the (consistent) local log; a second, older snapshot is refused
    run_case(
        &mut cx,
        "corpus snapshot-install-over-conflicting-log",
        vec![
            vec![
                Step::Append { t: 1, leader: 1, prev_i: 0, prev_t: 0, ents: vec![(1, 1, 101), (2, 1, 102)], commit: 0 },
                Step::InstallSnap { lit: 2, ents: vec![(1, 1, 101), (2, 2, 202), (3, 2, 203), (4, 2, 204)], accepted: false },
                Step::Append { t: 2, leader: 2, prev_i: 4, prev_t: 2, ents: vec![], commit: 4 },
            ],
            vec![Step::Append { t: 2, leader: 2, prev_i: 4, prev_t: 2, ents: vec![(5, 2, 205)], commit: 4 }, Step::Elect],
        ],
        vec![pick_back(30), pick_end()],
    );
    run_case(
        &mut cx,
        "corpus snapshot-install-raises-term-while-vote-held",
        vec![
            vec![
                Step::ReqVote { t: 1, cand: 1, lli: 0, llt: 0 },
                Step::InstallSnap { lit: 3, ents: vec![(1, 3, 301), (2, 3, 302)], accepted: false },
                Step::ReqVote { t: 3, cand: 2, lli: 2, llt: 3 },
            ],
            vec![Step::ReqVote { t: 3, cand: 1, lli: 2, llt: 3 }, Step::ReqVote { t: 3, cand: 2, lli: 2, llt: 3 }],
        ],
        vec![pick_end(), pick_end()],
    );
    run_case(
        &mut cx,
        "corpus snapshot-shorter-than-log-then-older-snapshot",
        vec![
            vec![
                Step::Append { t: 2, leader: 1, prev_i: 0, prev_t: 0, ents: vec![(1, 1, 101), (2, 2, 102), (3, 2, 103), (4, 2, 104)], commit: 2 },
                Step::InstallSnap { lit: 2, ents: vec![(1, 1, 101), (2, 2, 102), (3, 2, 103)], accepted: false },
                Step::InstallSnap { lit: 2, ents: vec![(1, 1, 101), (2, 2, 102)], accepted: false },
                Step::Elect,
            ],
            vec![Step::BecomeLeader, Step::Propose(230)],
        ],
        vec![pick_end(), pick_end()],
    );
    // a LEADER is deposed by an AppendEntriesResponse / RequestVoteResponse of a later term, answers in
    // that term, restarts before anything else carries the term
    run_case(
        &mut cx,
        "corpus leader-deposed-by-append-response",
        vec![
            vec![
                Step::Elect,
                Step::VoteResp { from: 1, t: 1, granted: true },
                Step::Propose(210),
                Step::AppendResp { from: 2, t: 4 },
                Step::Append { t: 3, leader: 1, prev_i: 0, prev_t: 0, ents: vec![(1, 3, 131)], commit: 0 },
                Step::ReqVote { t: 3, cand: 2, lli: 5, llt: 5 },
            ],
            vec![Step::Append { t: 3, leader: 1, prev_i: 0, prev_t: 0, ents: vec![(1, 3, 131)], commit: 0 }, Step::Elect],
            vec![Step::BecomeLeader, Step::AppendResp { from: 1, t: 9 }, Step::Elect],
        ],
        vec![pick_end(), pick_end(), pick_end()],
    );
    // the pre-vote phase: a PreVoteResponse of a later term is adopted (and must be logged) -- restart at
    // once, before any other record carries that term; a granted pre-vote starts the real election
    run_case(
        &mut cx,
        "corpus pre-vote-response-of-a-later-term",
        vec![
            vec![Step::PreVote { from: 1, t: 4, granted: false }],
            vec![Step::ReqVote { t: 3, cand: 2, lli: 0, llt: 0 }, Step::PreVote { from: 2, t: 4, granted: true }, Step::PreVote { from: 1, t: 9, granted: true }],
            vec![Step::Elect],
        ],
        vec![pick_end(), pick_end(), pick_end()],
    );
    run_case(
        &mut cx,
        "corpus candidate-deposed-by-vote-response",
        vec![vec![Step::Elect, Step::VoteResp { from: 2, t: 6, granted: false }, Step::ReqVote { t: 5, cand: 1, lli: 0, llt: 0 }], vec![Step::Elect]],
        vec![pick_end(), pick_end()],
    );

    // ---------------- seeded ----------------
    let ncases = args.budget(40, 500);
    for ci in 0..ncases {
        TRAILING.store(rng.below(3) as usize, std::sync::atomic::Ordering::SeqCst);
        let ngen = rng.range(1, 3) as usize;
        let mut gens = vec![];
        let mut picks: Vec<Pick> = vec![];
        // the generator tracks a rough belief of the node's state only to keep steps interesting;
        // it re-reads nothing from the node (the real state is observed by run_generation)
        let mut term = 0u64;
        let mut log: Vec<LEntry> = vec![];
        let mut role = 0u64;
        for _ in 0..ngen {
            let ns = rng.range(1, 8) as usize;
            let mut steps = vec![];
            for _ in 0..ns {
                let s = gen_step(&mut rng, term, &log, role);
                // belief update (approximate)
                match &s {
                    Step::Elect => {
                        term += 1;
                        role = 1;
                    }
                    Step::ReqVote { t, .. } | Step::VoteResp { t, .. } | Step::AppendResp { t, .. } => {
                        if *t > term {
                            term = *t;
                            role = 0;
                        }
                    }
                    Step::PreVote { t, granted, .. } => {
                        if *t > term {
                            term = *t;
                            role = 0;
                        } else if *granted && *t == term {
                            term += 1;
                            role = 1;
                        }
                    }
                    Step::Append { t, prev_i, ents, .. } => {
                        if *t >= term {
                            term = *t;
                            role = 0;
                            if *prev_i <= log.len() as u64 {
                                for e in ents {
                                    let pos = e.0 as usize - 1;
                                    if pos < log.len() {
                                        if log[pos].1 != e.1 {
                                            log.truncate(pos);
                                            log.push(*e);
                                        }
                                    } else if pos == log.len() {
                                        log.push(*e);
                                    }
                                }
                            }
                        }
                    }
                    Step::BecomeLeader => role = 2,
                    Step::Compact { .. } => {}
                    Step::InstallSnap { ents, .. } => {
                        if let Some(last) = ents.last() {
                            if last.1 > term {
                                term = last.1;
                            }
                            log = ents.clone();
                        }
                    }
                    Step::Propose(h) => {
                        if role == 2 {
                            log.push((log.len() as u64 + 1, term, *h));
                        }
                    }
                }
                steps.push(s);
            }
            gens.push(steps);
            picks.push(pick_random(rng.fork()));
            role = 0;
        }
        cx.dist.hit(&format!("case.generations.{ngen}"));
        run_case(&mut cx, &format!("seed{} #{}", args.seed, ci), gens, picks);
    }
    // ---------------- implementation-only stream: log rotation (known finding class) ----------------
    let mut hits = Hits::default();
    {
        let dir = args.out.join("scratch");
        fs::create_dir_all(&dir).unwrap();
        let wal = dir.join("rotate.wal");
        for i in 0..5 {
            let _ = fs::remove_file(dir.join(format!("rotate.wal.{i}")));
        }
        let _ = fs::remove_file(&wal);
        let cfg = tensor_chain::raft_wal::WalConfig { max_size_bytes: 120, ..tensor_chain::raft_wal::WalConfig::default() };
        if let Ok(mut w) = RaftWal::open_with_config(&wal, cfg.clone()) {
            let mut ok = w.append(&RaftWalEntry::TermAndVote { term: 7, voted_for: Some(nid(1)) }).is_ok();
            for i in 1..=6u64 {
                let entry_data = bitcode::serialize(&LogEntry::new(7, i, block(100 + i))).unwrap();
                ok &= w.append(&RaftWalEntry::LogEntryFull { index: i, term: 7, entry_data }).is_ok();
            }
            drop(w);
            if ok {
                if let Ok(w2) = RaftWal::open_with_config(&wal, cfg) {
                    if let Ok(rs) = RaftRecoveryState::from_wal(&w2) {
                        cx.dist.hit("rotation.probe");
                        if rs.current_term < 7 || rs.voted_for != Some(nid(1)) || rs.recovered_log.len() < 6 {
                            hits.push(
                                "wal-rotation",
                                &format!("RaftWal max_size_bytes=120: TermAndVote{{7,n1}} + 6 entries all fsynced; after reopen RaftRecoveryState has term {} vote {:?} and {} log entries (everything before the last rotation is forgotten; reachable in RaftNode::with_wal only past the 1 GiB default)", rs.current_term, rs.voted_for, rs.recovered_log.len()),
                                json!({"config": "raft_wal::WalConfig{max_size_bytes:120, ..default}", "written": "TermAndVote{7,n1}, LogEntryFull 1..6", "recovered_term": rs.current_term, "recovered_log_len": rs.recovered_log.len()}),
                            );
                        }
                    }
                }
            }
        }
    }
    // ---------------- implementation-only stream: one very large record ----------------
    // The writer and replay accept any payload up to u32::MAX; so must the tail repair done by
    // open.  One ~17 MiB entry (incompressible block signature), a small entry and a term change
    // after it; restart; everything must be back.  Judged on the implementation's observations
    // only (no byte-level model comparison for 17 MiB).
    {
        let dir = args.out.join("scratch");
        fs::create_dir_all(&dir).unwrap();
        let wal = dir.join("large.wal");
        let _ = fs::remove_file(&wal);
        let mut big = block(900);
        let mut r2 = rng.fork();
        big.header.signature = (0..17 * 1024 * 1024 / 8).flat_map(|_| r2.next().to_le_bytes()).collect();
        let t0 = std::time::Instant::now();
        if let Ok(node) = open_node(&wal) {
            node.start_election();
            node.become_leader();
            node.quorum_tracker().mark_reachable(&nid(1));
            node.quorum_tracker().mark_reachable(&nid(2));
            let p1 = node.propose(big).is_ok();
            let p2 = node.propose(block(901)).is_ok();
            node.start_election();
            let before = (node.current_term(), node.verif_voted_for().map(|x| nid_of(&x)), node.verif_log_image());
            drop(node);
            let size = fs::metadata(&wal).map(|m| m.len()).unwrap_or(0);
            cx.dist.hit("large_record.probe");
            let after = open_node(&wal).ok().map(|n2| (n2.current_term(), n2.verif_voted_for().map(|x| nid_of(&x)), n2.verif_log_image()));
            if p1 && p2 && after.as_ref() != Some(&before) {
                hits.push(
                    "large-record",
                    &format!(
                        "start_election; become_leader; propose(block with a {} byte signature) -> Ok; propose(small) -> Ok; start_election; restart from the {} byte log: before the restart (term, vote, log) = {:?}, after = {}",
                        17 * 1024 * 1024, size, before,
                        after.as_ref().map_or("node cannot restart".to_string(), |a| format!("{a:?}"))
                    ),
                    json!({"steps": "Elect; BecomeLeader; Propose(17 MiB block); Propose(small); Elect; restart", "log_bytes": size}),
                );
            }
        }
        if std::env::var("NVH_TIMING").is_ok() {
            eprintln!("large record probe: {:?}", t0.elapsed());
        }
        let _ = fs::remove_file(&wal);
    }
    let _ = fs::remove_dir_all(args.out.join("scratch"));
    write_meta(
        &args.out,
        json!({
            "property": "C10", "seed": args.seed, "tier": args.tier,
            "kinds": [cx.w.summary()],
            "distribution": cx.dist.json(),
            "hits": hits.0,
            "nontrivial_rule": "a case with at least 2 protocol steps; the node is restarted from EVERY byte offset of what each generation appended to the real WAL file",
        }),
    );
}
