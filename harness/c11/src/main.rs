//! C11 correspondence harness: concurrent operations on the real TensorStore.
//! Case kinds (Gallina terms for NV.C11.Run):
//!   lin   : (found, history)  multi-thread histories on contended keys of every key class, with and
//!           without the durable log; a Wing-Gong search (here, the search tool) looks for a
//!           linearization against the sequential specification; the witness (or the un-linearizable
//!           history) is re-checked inside Coq                                   -> check_lin
//!   order : deterministic replay of the durable-order race through the guarded hook
//!           (T1 held between its WAL append and its in-memory apply)           -> check_order
//! Implementation-only stream `durable`: after each durable history, recovery must equal memory.
use nvh_common::*;
use std::cell::Cell;
use std::collections::{BTreeMap, HashSet};
use std::result::Result;
use std::sync::atomic::{AtomicU64, Ordering};
use std::sync::mpsc;
use std::sync::{Arc, Barrier, Condvar, Mutex};
use std::time::Duration;
use tensor_store::*;

thread_local! { static ROLE: Cell<u8> = const { Cell::new(0) }; }
static CLK: AtomicU64 = AtomicU64::new(0);

const DIM: usize = 384; // TensorStore::new(): embedding slab dimension
const PREFIX: [&str; 5] = ["emb:", "node:", "table:", "_cache:", "m"];
const TORN: u64 = 2_000_000;

#[derive(Clone, Copy, Debug, PartialEq, Eq, Hash, PartialOrd, Ord)]
struct Key { cls: u8, idx: u8 }
#[derive(Clone, Copy, Debug)]
enum Op { Put(Key, u64), Get(Key), Del(Key), Exists(Key), Scan(u8) }
#[derive(Clone, Debug, PartialEq, Eq)]
enum Res { Unit, Val(Option<u64>), Del(bool), Bool(bool), Keys(Vec<u64>) }

fn kname(h: usize, k: Key) -> String { format!("{}h{}:{}", PREFIX[k.cls as usize], h, k.idx) }
fn value(k: Key, v: u64) -> TensorData {
    let mut t = TensorData::new();
    t.set("v", TensorValue::Scalar(ScalarValue::Int(v as i64)));
    if k.cls == 0 { t.set("_embedding", TensorValue::Vector(vec![v as f32; DIM])); }
    t
}
/// the value a get returned: the written id, or a code for a mixture / torn vector
fn decode(k: Key, t: &TensorData) -> u64 {
    let tag = match t.get("v") { Some(TensorValue::Scalar(ScalarValue::Int(n))) => *n as u64, _ => 0 };
    if k.cls != 0 { return tag; }
    match t.get("_embedding") {
        Some(TensorValue::Vector(w)) => {
            let e = w[0];
            if w.iter().any(|x| x.to_bits() != e.to_bits()) { return TORN; }
            let e = e as u64;
            if e == tag { tag } else { 1_000_000 + tag * 1000 + e }
        }
        _ => 1_000_000 + tag * 1000,
    }
}
fn run_op(s: &TensorStore, h: usize, durable: bool, o: Op) -> Res {
    match o {
        Op::Put(k, v) => { let r = if durable { s.put_durable(kname(h, k), value(k, v)) } else { s.put(kname(h, k), value(k, v)) }; r.unwrap(); Res::Unit }
        Op::Get(k) => Res::Val(s.get(&kname(h, k)).ok().map(|t| decode(k, &t))),
        Op::Del(k) => Res::Del(if durable { s.delete_durable(&kname(h, k)).is_ok() } else { s.delete(&kname(h, k)).is_ok() }),
        Op::Exists(k) => Res::Bool(s.exists(&kname(h, k))),
        Op::Scan(c) => {
            let p = format!("{}h{}:", PREFIX[c as usize], h);
            let mut v: Vec<u64> = s.scan(&p).iter().filter_map(|x| x[p.len()..].parse().ok()).collect();
            v.sort_unstable();
            Res::Keys(v)
        }
    }
}
// ------------------------------------------------------------------------------------ sequential spec + Wing-Gong
type St = BTreeMap<Key, u64>;
fn apply(st: &mut St, o: Op) -> Res {
    match o {
        Op::Put(k, v) => { st.insert(k, v); Res::Unit }
        Op::Get(k) => Res::Val(st.get(&k).copied()),
        Op::Del(k) => Res::Del(st.remove(&k).is_some()),
        Op::Exists(k) => Res::Bool(st.contains_key(&k)),
        Op::Scan(c) => Res::Keys(st.keys().filter(|k| k.cls == c).map(|k| k.idx as u64).collect()),
    }
}
#[derive(Clone, Debug)]
struct Rec { id: u64, op: Op, res: Res, inv: u64, rsp: u64 }

fn wing_gong(h: &[Rec]) -> Option<Vec<usize>> {
    fn go(h: &[Rec], done: u32, st: &St, order: &mut Vec<usize>, seen: &mut HashSet<(u32, Vec<(Key, u64)>)>) -> bool {
        if done.count_ones() as usize == h.len() { return true; }
        let key = (done, st.iter().map(|(k, v)| (*k, *v)).collect::<Vec<_>>());
        if !seen.insert(key) { return false; }
        // earliest response among the remaining operations
        let min_rsp = (0..h.len()).filter(|i| done & (1 << i) == 0).map(|i| h[i].rsp).min().unwrap();
        for i in 0..h.len() {
            if done & (1 << i) != 0 || h[i].inv > min_rsp { continue; }
            let mut st2 = st.clone();
            if apply(&mut st2, h[i].op) != h[i].res { continue; }
            order.push(i);
            if go(h, done | (1 << i), &st2, order, seen) { return true; }
            order.pop();
        }
        false
    }
    let mut order = vec![];
    if go(h, 0, &St::new(), &mut order, &mut HashSet::new()) { Some(order) } else { None }
}

// ------------------------------------------------------------------------------------ Gallina
fn key_coq(k: Key) -> String { format!("({}, {})", k.cls, k.idx) }
fn op_coq(o: Op) -> String {
    match o {
        Op::Put(k, v) => format!("OPut {} {}", key_coq(k), v),
        Op::Get(k) => format!("OGet {}", key_coq(k)),
        Op::Del(k) => format!("ODel {}", key_coq(k)),
        Op::Exists(k) => format!("OExists {}", key_coq(k)),
        Op::Scan(c) => format!("OScan {c}"),
    }
}
fn res_coq(r: &Res) -> String {
    match r {
        Res::Unit => "RUnit".into(),
        Res::Val(o) => format!("RVal {}", opt(o.map(n))),
        Res::Del(x) => format!("RDel {}", b(*x)),
        Res::Bool(x) => format!("RBool {}", b(*x)),
        Res::Keys(ks) => format!("RKeys {}", list(ks.iter().map(|x| n(*x)))),
    }
}
fn rec_coq(r: &Rec) -> String { format!("({}, {}, {}, {}, {})", r.id, op_coq(r.op), res_coq(&r.res), r.inv, r.rsp) }

// ------------------------------------------------------------------------------------ histories
fn gen_plan(r: &mut Rng, classes: &[u8], threads: usize, per: usize, dist: &mut Dist) -> Vec<Vec<Op>> {
    let mut next = 1u64;
    (0..threads)
        .map(|_| {
            (0..per)
                .map(|_| {
                    let k = Key { cls: *r.pick(classes), idx: r.below(2) as u8 };
                    let x = r.below(100);
                    let o = if x < 40 { let v = next; next += 1; Op::Put(k, v) } else if x < 70 { Op::Get(k) } else if x < 82 { Op::Del(k) } else if x < 92 { Op::Exists(k) } else { Op::Scan(k.cls) };
                    dist.hit(match o { Op::Put(..) => "op.put", Op::Get(_) => "op.get", Op::Del(_) => "op.delete", Op::Exists(_) => "op.exists", Op::Scan(_) => "op.scan" });
                    o
                })
                .collect()
        })
        .collect()
}
fn run_history(store: &TensorStore, hid: usize, durable: bool, plan: &[Vec<Op>]) -> Vec<Rec> {
    let bar = Arc::new(Barrier::new(plan.len()));
    let mut hs = vec![];
    for (t, ops) in plan.iter().enumerate() {
        let (s, ops, bar) = (store.clone(), ops.clone(), bar.clone());
        hs.push(std::thread::spawn(move || {
            bar.wait();
            let mut out = vec![];
            for (j, o) in ops.into_iter().enumerate() {
                let inv = CLK.fetch_add(1, Ordering::SeqCst);
                let res = run_op(&s, hid, durable, o);
                let rsp = CLK.fetch_add(1, Ordering::SeqCst);
                out.push(Rec { id: (t * 100 + j) as u64, op: o, res, inv, rsp });
            }
            out
        }));
    }
    let mut all: Vec<Rec> = hs.into_iter().flat_map(|h| h.join().unwrap()).collect();
    all.sort_by_key(|r| r.inv);
    all
}

// ------------------------------------------------------------------------------------ durable order through the hook
#[derive(Clone, Copy, Debug)]
enum DOp { Put(u64), Del }
fn dval(v: u64) -> TensorData { value(Key { cls: 4, idx: 0 }, v) }
fn dread(s: &TensorStore, k: &str) -> Option<u64> { s.get(k).ok().map(|t| decode(Key { cls: 4, idx: 0 }, &t)) }

fn order_race(dir: &std::path::Path, pre: Option<u64>, op1: DOp, op2: DOp) -> (bool, bool, Option<u64>, Option<u64>) {
    let key = "m0";
    let wal = dir.join("order.wal");
    let _ = std::fs::remove_file(&wal);
    let cfg = WalConfig::default();
    let store = TensorStore::open_durable(&wal, cfg.clone()).unwrap();
    if let Some(p) = pre { store.put_durable(key, dval(p)).unwrap(); }
    let gate = Arc::new((Mutex::new(false), Condvar::new()));
    let (tx, rx) = mpsc::channel::<()>();
    let tx = Mutex::new(tx);
    let g2 = gate.clone();
    verif_hook::set(Some(Arc::new(move |name: &str| {
        if ROLE.with(|r| r.get()) == 1 && name.ends_with(".logged") {
            let _ = tx.lock().unwrap().send(());
            let (m, cv) = &*g2;
            let mut open = m.lock().unwrap();
            let mut waited = 0;
            while !*open && waited < 200 {
                let (o, _) = cv.wait_timeout(open, Duration::from_millis(50)).unwrap();
                open = o;
                waited += 1;
            }
        }
    })));
    let run = |s: &TensorStore, o: DOp, k: &str| match o { DOp::Put(v) => { let _ = s.put_durable(k, dval(v)); } DOp::Del => { let _ = s.delete_durable(k); } };
    let s1 = store.clone();
    let t1 = std::thread::spawn(move || { ROLE.with(|r| r.set(1)); run(&s1, op1, key); });
    let parked = rx.recv_timeout(Duration::from_secs(5)).is_ok();
    let s2 = store.clone();
    let (dtx, drx) = mpsc::channel::<()>();
    let t2 = std::thread::spawn(move || { run(&s2, op2, key); let _ = dtx.send(()); });
    // generous margin: an uncontended put_durable takes well under a millisecond (plus one fsync)
    let interleaved = drx.recv_timeout(Duration::from_millis(400)).is_ok();
    { let (m, cv) = &*gate; *m.lock().unwrap() = true; cv.notify_all(); }
    t1.join().unwrap();
    t2.join().unwrap();
    verif_hook::set(None);
    let mem = dread(&store, key);
    store.wal_sync().unwrap();
    drop(store);
    let rec = TensorStore::recover(&wal, &cfg, None).unwrap();
    (parked, interleaved, mem, dread(&rec, key))
}
fn dop_coq(d: DOp) -> String { match d { DOp::Put(v) => format!("DPut okey {v}"), DOp::Del => "DDel okey".into() } }

fn main() {
    let args = Args::parse();
    quiet_panics();
    let mut rng = Rng::new(args.seed);
    let mut dist = Dist::default();
    let mut hits = Hits::default();
    let dir = args.out.join("scratch");
    std::fs::create_dir_all(&dir).unwrap();
    let mut lin = CaseWriter::new(&args.out, "lin");
    let mut order = CaseWriter::new(&args.out, "order");
    let mut durable = CaseWriter::new(&args.out, "durable");

    // ---------------------------------------------------------------- order: hook replay (corpus = F-C11-order)
    let mut races = vec![(None, DOp::Put(1), DOp::Put(2)), (Some(9), DOp::Del, DOp::Put(2)), (Some(9), DOp::Put(1), DOp::Del)];
    for _ in 0..args.budget(3, 40) {
        let pre = if rng.chance(1, 2) { Some(rng.range(50, 60)) } else { None };
        let mk = |r: &mut Rng| if r.chance(2, 3) { DOp::Put(r.range(1, 40)) } else { DOp::Del };
        races.push((pre, mk(&mut rng), mk(&mut rng)));
    }
    for (i, (pre, a, bb)) in races.iter().enumerate() {
        let (parked, inter, mem, rec) = order_race(&dir, *pre, *a, *bb);
        dist.hit(if parked { "order.hook_fired" } else { "order.hook_missed" });
        dist.hit(if inter { "order.t2_overtook" } else { "order.t2_waited" });
        let term = format!("({}, {}, {}, {}, {}, {})", opt(pre.map(n)), dop_coq(*a), dop_coq(*bb), b(inter), opt(mem.map(n)), opt(rec.map(n)));
        order.push(&term, &format!("order#{i} pre={pre:?} T1={a:?} (held after its WAL append) T2={bb:?}: T2 finished meanwhile={inter} memory={mem:?} recovered={rec:?}"), true);
        if !parked { hits.push("hook-missing", "the put_durable/delete_durable .logged hook point was not reached", json!({"kind": "order", "index": i})); }
    }

    // ---------------------------------------------------------------- window: reads while a durable put of a NEW key is in flight
    // (T1 is held at put_durable.logged: the WAL records are written, the in-memory apply is not done). exists, scan and get
    // are issued one after the other meanwhile; the whole history must have a linearization (checked like every lin case):
    // once a completed read has seen the key, every later read must see it too.
    for (wi, cls) in [0u8, 0, 1, 2, 4].iter().enumerate() {
        let hid = 900_000 + wi;
        let k = Key { cls: *cls, idx: 0 };
        let wal = dir.join("window.wal");
        let _ = std::fs::remove_file(&wal);
        let store = TensorStore::open_durable(&wal, WalConfig { sync_mode: SyncMode::Manual, ..WalConfig::default() }).unwrap();
        let gate = Arc::new((Mutex::new(false), Condvar::new()));
        let (tx, rx) = mpsc::channel::<()>();
        let tx = Mutex::new(tx);
        let g2 = gate.clone();
        verif_hook::set(Some(Arc::new(move |name: &str| {
            if ROLE.with(|r| r.get()) == 1 && name == "put_durable.logged" {
                let _ = tx.lock().unwrap().send(());
                let (m, cv) = &*g2;
                let mut open = m.lock().unwrap();
                let mut waited = 0;
                while !*open && waited < 200 { let (o, _) = cv.wait_timeout(open, Duration::from_millis(50)).unwrap(); open = o; waited += 1; }
            }
        })));
        let mut v = value(k, 7);
        if *cls != 0 { v.set("_embedding", TensorValue::Vector(vec![7.0, 1.0, 2.0])); }
        let put_inv = CLK.fetch_add(1, Ordering::SeqCst);
        let (s1, kn1) = (store.clone(), kname(hid, k));
        let t1 = std::thread::spawn(move || { ROLE.with(|r| r.set(1)); s1.put_durable(kn1, v).unwrap(); CLK.fetch_add(1, Ordering::SeqCst) });
        let parked = rx.recv_timeout(Duration::from_secs(5)).is_ok();
        let mut h: Vec<Rec> = vec![];
        let mut timed = |id: u64, o: Op, h: &mut Vec<Rec>| { let inv = CLK.fetch_add(1, Ordering::SeqCst); let res = run_op(&store, hid, false, o); let rsp = CLK.fetch_add(1, Ordering::SeqCst); h.push(Rec { id, op: o, res, inv, rsp }); };
        // emb keys: exists takes the key's stripe lock, which the writer does not hold while parked
        let reads: Vec<Op> = if wi % 2 == 0 { vec![Op::Exists(k), Op::Scan(*cls), Op::Get(k)] } else { vec![Op::Scan(*cls), Op::Get(k), Op::Exists(k)] };
        for (ri, o) in reads.iter().enumerate() { timed(10 + ri as u64, *o, &mut h); }
        { let (m, cv) = &*gate; *m.lock().unwrap() = true; cv.notify_all(); }
        let put_rsp = t1.join().unwrap();
        verif_hook::set(None);
        timed(20, Op::Get(k), &mut h);
        timed(21, Op::Exists(k), &mut h);
        h.push(Rec { id: 1, op: Op::Put(k, 7), res: Res::Unit, inv: put_inv, rsp: put_rsp });
        h.sort_by_key(|r| r.inv);
        dist.hit(if parked { "window.hook_fired" } else { "window.hook_missed" });
        let shown = h.iter().map(|r| format!("{:?}->{:?}@[{},{}]", r.op, r.res, r.inv, r.rsp)).collect::<Vec<_>>().join(" ");
        match wing_gong(&h) {
            Some(ord) => lin.push(&format!("(true, {})", list(ord.iter().map(|i| rec_coq(&h[*i])))), &format!("window#{wi} class={} durable put of a new key held after its WAL append; linearizable: {shown}", PREFIX[*cls as usize]), true),
            None => { dist.hit("lin.not_linearizable"); lin.push(&format!("(false, {})", list(h.iter().map(rec_coq))), &format!("window#{wi} class={} durable put of a new key held after its WAL append; NOT linearizable: {shown}", PREFIX[*cls as usize]), true) }
        }
    }

    // ---------------------------------------------------------------- pscan: scan(p) = exactly the keys that start with p,
    // over multi-byte keys and prefixes (the upper bound of the range scan is computed on bytes)
    let mut pscan = CaseWriter::new(&args.out, "pscan");
    {
        let alphabet = ['a', 'b', '\u{7f}', '\u{80}', '\u{bf}', '\u{c0}', '\u{480}', '\u{7ff}', '\u{800}', '\u{d7ff}', '\u{e000}', '\u{ffff}', '\u{10000}', '\u{10ffff}'];
        let mut corpus: Vec<(Vec<String>, String)> = vec![(vec!["\u{bf}x".into(), "\u{480}y".into()], "\u{bf}".into())];
        for _ in 0..args.budget(120, 3000) {
            let word = |r: &mut Rng, lo: u64, hi: u64| -> String { (0..r.range(lo, hi)).map(|_| *r.pick(&alphabet)).collect() };
            let mut keys: Vec<String> = (0..rng.range(2, 10)).map(|_| word(&mut rng, 1, 3)).collect();
            keys.sort();
            keys.dedup();
            let prefix = if rng.chance(1, 2) { let k = rng.pick(&keys).clone(); let n = rng.range(1, k.chars().count() as u64) as usize; k.chars().take(n).collect() } else { word(&mut rng, 1, 2) };
            corpus.push((keys, prefix));
        }
        // keys of every key class (embedding keys live in the entity index too, cache keys in the cache ring only)
        // and every proper prefix of them: "_", "_c", "_cache", "e", "em", "emb", ...
        {
            let class_keys: Vec<String> = ["_cache:a", "_cache:b", "_cfg", "emb:a", "emb:b", "embargo", "node:1", "nodes", "table:t", "edge:1", "e", "_blob:meta:x", "plain"].iter().map(|x| x.to_string()).collect();
            let mut prefixes: Vec<String> = vec![];
            for k in &class_keys { for n in 1..=k.len() { let p = k[..n].to_string(); if !prefixes.contains(&p) { prefixes.push(p); } } }
            let take = args.budget(40, 1000).min(prefixes.len());
            rng.shuffle(&mut prefixes);
            for must in ["_", "_c", "_cache", "_cache:", "e", "emb", "emb:", "n"] { corpus.push((class_keys.clone(), must.to_string())); }
            for p in prefixes.into_iter().take(take) { corpus.push((class_keys.clone(), p)); }
        }
        for (keys, prefix) in corpus {
            let s = TensorStore::new();
            for k in &keys { s.put(k.clone(), value(Key { cls: 4, idx: 0 }, 1)).unwrap(); }
            let mut got = s.scan(&prefix);
            got.sort_by(|a, bq| a.as_bytes().cmp(bq.as_bytes()));
            let mut ks = keys.clone();
            ks.sort_by(|a, bq| a.as_bytes().cmp(bq.as_bytes()));
            let bl = |x: &str| bytes(x.as_bytes());
            dist.hit(if prefix.is_ascii() { "pscan.ascii_prefix" } else { "pscan.multibyte_prefix" });
            pscan.push(&format!("({}, {}, {})", bl(&prefix), list(ks.iter().map(|k| bl(k))), list(got.iter().map(|k| bl(k)))), &format!("scan({prefix:?}) over keys {ks:?} returned {got:?}"), !got.is_empty());
        }
    }

    // ---------------------------------------------------------------- lin: stress histories
    let plain = TensorStore::new();
    let wal = dir.join("lin.wal");
    let _ = std::fs::remove_file(&wal);
    let dcfg = WalConfig { sync_mode: SyncMode::Manual, ..WalConfig::default() };
    let dstore = TensorStore::open_durable(&wal, dcfg.clone()).unwrap();
    let mut durable_keys: Vec<(usize, Key)> = vec![];
    let nh = args.budget(600, 12000);
    for hid in 0..nh {
        let use_durable = hid % 4 == 3;
        // one class per history most of the time (contention), sometimes all classes
        let classes: Vec<u8> = if rng.chance(1, 5) { vec![0, 1, 2, 3, 4] } else { vec![*rng.pick(&[0u8, 1, 2, 3, 4, 4])] };
        let classes: Vec<u8> = if use_durable { classes.into_iter().map(|c| if c == 3 { 4 } else { c }).collect() } else { classes };
        let threads = rng.range(2, 4) as usize;
        let per = (rng.range(2, 4) as usize).min(12 / threads); // at most 12 operations: the in-Coq re-search is exhaustive
        let mut plan = gen_plan(&mut rng, &classes, threads, per, &mut dist);
        // histories with a scan are re-searched as a whole inside Coq: keep them at 8 operations
        if plan.iter().flatten().any(|o| matches!(o, Op::Scan(_))) {
            let keep = (8 / threads).max(1);
            for t in plan.iter_mut() { t.truncate(keep); }
        }
        let store = if use_durable { &dstore } else { &plain };
        let h = run_history(store, hid, use_durable, &plan);
        dist.hit(&format!("lin.threads.{threads}"));
        dist.hit(if use_durable { "lin.durable" } else { "lin.plain" });
        for c in &classes { dist.hit(&format!("lin.class.{}", PREFIX[*c as usize].trim_end_matches(':'))); }
        let overlapping = h.iter().enumerate().any(|(i, a)| h.iter().skip(i + 1).any(|bb| a.rsp > bb.inv && bb.rsp > a.inv));
        // how many histories really overlapped in time depends on the scheduler: reported in the distribution,
        // not in the (deterministic) non-trivial count -- every history is a multi-threaded run
        dist.hit(if overlapping { "lin.observed_overlap" } else { "lin.observed_no_overlap" });
        if use_durable { for k in plan.iter().flatten().filter_map(|o| match o { Op::Put(k, _) | Op::Del(k) => Some(*k), _ => None }) { durable_keys.push((hid, k)); } }
        match wing_gong(&h) {
            Some(ord) => {
                let term = format!("(true, {})", list(ord.iter().map(|i| rec_coq(&h[*i]))));
                lin.push(&term, &format!("lin#{hid} durable={use_durable} linearizable: {}", ord.iter().map(|i| format!("{:?}->{:?}@[{},{}]", h[*i].op, h[*i].res, h[*i].inv, h[*i].rsp)).collect::<Vec<_>>().join(" ")), true);
            }
            None => {
                dist.hit("lin.not_linearizable");
                let term = format!("(false, {})", list(h.iter().map(rec_coq)));
                lin.push(&term, &format!("lin#{hid} durable={use_durable} NOT linearizable: {}", h.iter().map(|r| format!("{:?}->{:?}@[{},{}]", r.op, r.res, r.inv, r.rsp)).collect::<Vec<_>>().join(" ")), true);
            }
        }
    }
    // after quiescence: recovery must equal memory for every key a durable history wrote
    dstore.wal_sync().unwrap();
    let mem: Vec<Option<u64>> = durable_keys.iter().map(|(h, k)| dstore.get(&kname(*h, *k)).ok().map(|t| decode(*k, &t))).collect();
    drop(dstore);
    match TensorStore::recover(&wal, &dcfg, None) {
        Ok(rec) => {
            let mut bad = 0;
            for ((h, k), m) in durable_keys.iter().zip(&mem) {
                let r = rec.get(&kname(*h, *k)).ok().map(|t| decode(*k, &t));
                if r != *m {
                    bad += 1;
                    if bad <= 3 { hits.push("durable-order", &format!("after quiescence key {} holds {m:?} in memory but {r:?} after recovery", kname(*h, *k)), json!({"kind": "durable", "seed": args.seed, "key": kname(*h, *k)})); }
                }
            }
            durable.push("0", &format!("durable: {} keys written by durable histories compared after recovery, {bad} differ", durable_keys.len()), !durable_keys.is_empty());
            dist.add("durable.keys_compared", durable_keys.len() as u64);
        }
        Err(e) => hits.push("recover-error", &format!("recover failed: {e}"), json!({"kind": "durable"})),
    }

    // ---------------------------------------------------------------- hammer: continuous load, every read must be a value
    // that was written under the key it was read from, whole (implementation only: no search needed,
    // a foreign, mixed or torn value is a violation by itself)
    let mut hammer = CaseWriter::new(&args.out, "hammer");
    for (cls, millis) in [(0u8, args.budget(1200, 5000)), (3u8, args.budget(600, 4000)), (4u8, args.budget(200, 1000)), (1u8, args.budget(200, 1000))] {
        let store = TensorStore::new();
        let stop = Arc::new(std::sync::atomic::AtomicBool::new(false));
        let kn = move |i: u64| format!("{}hammer:{}", PREFIX[cls as usize], i);
        // value written under key i with sequence number q: tag = i * 1_000_000 + q, and for embedding keys the vector [tag; DIM]
        let mk = move |i: u64, q: u64| { let tag = i * 1_000_000 + q; let mut t = TensorData::new(); t.set("v", TensorValue::Scalar(ScalarValue::Int(tag as i64))); if cls == 0 { t.set("_embedding", TensorValue::Vector(vec![tag as f32; DIM])); } t };
        let mut writers = vec![];
        for wi in 0..2u64 {
            let (s, stop) = (store.clone(), stop.clone());
            writers.push(std::thread::spawn(move || {
                let mut q = wi * 400_000;
                let mut n = 0u64;
                while !stop.load(Ordering::Relaxed) {
                    // put(a) delete(a) put(b) delete(b) ...: for the cache ring this re-uses the slot just freed
                    for i in 0..2u64 {
                        q += 1;
                        let _ = s.put(kn(i), mk(i, q));
                        n += 1;
                        // (embedding keys: few deletes -- every delete + put leaves one more tombstoned entry with the
                        //  same hash in the entity index, and lookups walk all of them)
                        let del = if cls == 0 { q % 16 == 0 } else { wi == 0 || q % 3 == 0 };
                        if del { let _ = s.delete(&kn(i)); n += 1; }
                    }
                }
                n
            }));
        }
        let mut readers = vec![];
        for ri in 0..4u64 {
            let (s, stop) = (store.clone(), stop.clone());
            readers.push(std::thread::spawn(move || {
                let (mut reads, mut found) = (0u64, 0u64);
                let mut bad: Option<String> = None;
                while !stop.load(Ordering::Relaxed) && bad.is_none() {
                    let i = (reads + ri) % 2;
                    reads += 1;
                    if let Ok(t) = s.get(&kn(i)) {
                        found += 1;
                        let tag = match t.get("v") { Some(TensorValue::Scalar(ScalarValue::Int(x))) => Some(*x as u64), _ => None };
                        match tag {
                            None => bad = Some(format!("get({}) returned a value without the field every written value has (fields {:?}): nobody wrote it", kn(i), t.keys().collect::<Vec<_>>())),
                            Some(tag) if tag / 1_000_000 != i => bad = Some(format!("get({}) returned tag {tag}, a value written under {}", kn(i), kn(tag / 1_000_000))),
                            Some(tag) => if cls == 0 {
                                match t.get("_embedding") {
                                    Some(TensorValue::Vector(w)) => {
                                        if w.iter().any(|x| x.to_bits() != w[0].to_bits()) { bad = Some(format!("get({}) returned a torn vector (tag {tag})", kn(i))); }
                                        else if w[0] as u64 != tag { bad = Some(format!("get({}) returned the fields of write {tag} with the vector of write {}: a mixture of two writes", kn(i), w[0] as u64)); }
                                    }
                                    _ => bad = Some(format!("get({}) returned write {tag} without its vector", kn(i))),
                                }
                            },
                        }
                    }
                }
                (reads, found, bad)
            }));
        }
        std::thread::sleep(Duration::from_millis(millis as u64));
        stop.store(true, Ordering::Relaxed);
        let writes: u64 = writers.into_iter().map(|h| h.join().unwrap()).sum();
        let mut reads = 0; let mut found = 0; let mut bad: Option<String> = None;
        for h in readers { let (r, f, bq) = h.join().unwrap(); reads += r; found += f; if bad.is_none() { bad = bq; } }
        dist.add(&format!("hammer.{}.reads", PREFIX[cls as usize].trim_end_matches(':')), reads);
        dist.add(&format!("hammer.{}.writes", PREFIX[cls as usize].trim_end_matches(':')), writes);
        hammer.push(&format!("{cls}"), &format!("hammer class={} writes={writes} reads={reads} found={found} bad={bad:?}", PREFIX[cls as usize]), found > 0);
        if let Some(bq) = bad {
            hits.push("foreign-or-mixed-read", &format!("2 writers (put/delete on 2 keys) and 4 readers, after {reads} reads / {writes} writes: {bq}"), json!({"kind": "hammer", "class": PREFIX[cls as usize], "seed": args.seed}));
        }
    }

    // ---------------------------------------------------------------- entity ids across recovery: fresh durable stores, a few keys; non-embedding keys
    // whose value carries a vector take an entity id as well; after recovery every embedding key must return its own vector
    for (ei, n_other) in [1usize, 2, 0, 1, 3].iter().enumerate() {
        let wal6 = dir.join("ids.wal");
        let _ = std::fs::remove_file(&wal6);
        let cfg6 = WalConfig { sync_mode: SyncMode::Manual, ..WalConfig::default() };
        let st = TensorStore::open_durable(&wal6, cfg6.clone()).unwrap();
        let mut script: Vec<String> = vec![];
        for j in 0..*n_other {
            let mut t = TensorData::new();
            t.set("v", TensorValue::Scalar(ScalarValue::Int(j as i64)));
            t.set("_embedding", TensorValue::Vector(vec![j as f32, 1.0, 2.0]));
            let k = format!("{}o{j}", ["user:", "node:", "table:"][j % 3]);
            st.put_durable(k.clone(), t).unwrap();
            script.push(format!("put_durable({k}, value with a 3-float _embedding)"));
        }
        let nemb = 2 + ei % 2;
        let mut seq = 600u64 + ei as u64 * 10;
        for j in 0..nemb { seq += 1; st.put_durable(format!("emb:i{j}"), value(Key { cls: 0, idx: j as u8 }, seq)).unwrap(); script.push(format!("put_durable(emb:i{j}, write {seq})")); }
        // overwrite the oldest embedding key(s) only (their stale-id records must not land on a later key); then delete + re-create one
        for j in 0..(nemb - 1) { seq += 1; st.put_durable(format!("emb:i{j}"), value(Key { cls: 0, idx: j as u8 }, seq)).unwrap(); script.push(format!("put_durable(emb:i{j}, write {seq})")); }
        if ei >= 3 { let _ = st.delete_durable("emb:i0"); seq += 1; st.put_durable("emb:i0", value(Key { cls: 0, idx: 0 }, seq)).unwrap(); script.push(format!("delete_durable(emb:i0); put_durable(emb:i0, write {seq})")); }
        st.wal_sync().unwrap();
        let view = |s: &TensorStore| -> Vec<String> { (0..nemb).map(|j| format!("get(emb:i{j})={:?}", s.get(&format!("emb:i{j}")).ok().map(|t| decode(Key { cls: 0, idx: j as u8 }, &t)))).collect() };
        let mem = view(&st);
        drop(st);
        match TensorStore::recover(&wal6, &cfg6, None) {
            Ok(rec) => {
                let r = view(&rec);
                durable.push(&format!("i{ei}"), &format!("entity-ids#{ei}: {script:?}; memory {mem:?}; recovered {r:?}"), true);
                dist.hit("recover.entity_id_script");
                if mem != r {
                    hits.push("recovery-differs", &format!("fresh durable store, {script:?}, quiescence, recover: in memory {mem:?} but after recovery {r:?} (a value >= 1000000 is tag*1000+vector: the fields of one write with the vector of another)"), json!({"kind": "entity-ids", "index": ei}));
                }
            }
            Err(e) => hits.push("recover-error", &format!("recover failed: {e}"), json!({"kind": "entity-ids"})),
        }
    }

    // ---------------------------------------------------------------- slot hammer: FIRST puts of different embedding keys at the same moment
    // (each allocates a slab slot); the vector encodes the key's write id, so a foreign vector is recognisable;
    // after quiescence every key must return exactly its own vector next to its own metadata
    {
        let st = TensorStore::new();
        let rounds = args.budget(2500, 12000);
        let threads = 8usize;
        let bar = Arc::new(Barrier::new(threads));
        let hs: Vec<_> = (0..threads).map(|t| {
            let (s, bar) = (st.clone(), bar.clone());
            std::thread::spawn(move || {
                for round in 0..rounds {
                    let k = Key { cls: 0, idx: 0 };
                    let v = value(k, (round * 10 + t + 1) as u64);
                    bar.wait();
                    s.put(format!("emb:slot:{round}:{t}"), v).unwrap();
                }
            })
        }).collect();
        for h in hs { h.join().unwrap(); }
        let mut wrong = vec![];
        for round in 0..rounds { for t in 0..threads {
            let want = (round * 10 + t + 1) as u64;
            let got = st.get(&format!("emb:slot:{round}:{t}")).ok().map(|x| decode(Key { cls: 0, idx: 0 }, &x));
            if got != Some(want) { wrong.push((format!("emb:slot:{round}:{t}"), want, got)); }
        } }
        dist.add("slothammer.keys", (rounds * threads) as u64);
        hammer.push("slot", &format!("slot-hammer: {} embedding keys first put by {threads} threads at once, {} return something else than their own value", rounds * threads, wrong.len()), true);
        if let Some((k, want, got)) = wrong.first() {
            hits.push("foreign-or-mixed-read", &format!("{threads} threads behind a barrier each do the first put of a fresh embedding key ({rounds} rounds); after quiescence get({k}) returns {got:?} instead of write {want} (a value >= 1000000 is tag*1000+vector: its own metadata with ANOTHER key's vector); {} of {} keys are wrong", wrong.len(), rounds * threads), json!({"kind": "slot-hammer", "key": k, "seed": args.seed}));
        }
    }

    // ---------------------------------------------------------------- first durable writes of NEW embedding keys from many threads at once
    // (every such write allocates an entity id and logs it): after quiescence recovery must return every key's own value
    {
        let wal3 = dir.join("newkeys.wal");
        let _ = std::fs::remove_file(&wal3);
        let cfg3 = WalConfig { sync_mode: SyncMode::Manual, ..WalConfig::default() };
        let st = TensorStore::open_durable(&wal3, cfg3.clone()).unwrap();
        let rounds = args.budget(120, 2000);
        let threads = 8usize;
        for round in 0..rounds {
            let bar = Arc::new(Barrier::new(threads));
            let hs: Vec<_> = (0..threads).map(|t| {
                let (s, bar) = (st.clone(), bar.clone());
                std::thread::spawn(move || {
                    let k = Key { cls: 0, idx: t as u8 };
                    bar.wait();
                    s.put_durable(kname(100_000 + round, k), value(k, (round * 10 + t + 1) as u64)).unwrap();
                    if round % 3 == 0 { let _ = s.delete_durable(&kname(100_000 + round, k)); s.put_durable(kname(100_000 + round, k), value(k, (round * 10 + t + 1) as u64)).unwrap(); }
                })
            }).collect();
            for h in hs { h.join().unwrap(); }
        }
        st.wal_sync().unwrap();
        let all: Vec<(usize, Key)> = (0..rounds).flat_map(|r| (0..threads).map(move |t| (100_000 + r, Key { cls: 0, idx: t as u8 }))).collect();
        let mem: Vec<Option<u64>> = all.iter().map(|(h, k)| st.get(&kname(*h, *k)).ok().map(|t| decode(*k, &t))).collect();
        drop(st);
        match TensorStore::recover(&wal3, &cfg3, None) {
            Ok(rec) => {
                let mut bad = 0;
                for ((h, k), m) in all.iter().zip(&mem) {
                    let r = rec.get(&kname(*h, *k)).ok().map(|t| decode(*k, &t));
                    if r != *m {
                        bad += 1;
                        if bad <= 2 { hits.push("durable-order", &format!("{threads} threads each durably wrote a NEW embedding key at once; after quiescence {} reads {m:?} in memory but {r:?} after recovery (values >= 1000000 encode tag*1000+vector: the fields of one write with the vector of another)", kname(*h, *k)), json!({"kind": "newkeys", "seed": args.seed, "key": kname(*h, *k)})); }
                    }
                }
                durable.push("n", &format!("new-key race: {} embedding keys first written by {threads} threads at once, compared after recovery, {bad} differ", all.len()), true);
                dist.add("durable.new_emb_keys", all.len() as u64);
            }
            Err(e) => hits.push("recover-error", &format!("recover failed: {e}"), json!({"kind": "newkeys"})),
        }
    }

    // ---------------------------------------------------------------- visibility hammer (hook-free): one writer durably puts FRESH embedding keys
    // (fsync per record widens the window between logging and applying); readers do exists -> get and scan -> get;
    // no delete is ever issued, so a key a completed read has seen must be found by every later get
    {
        let wal4 = dir.join("visible.wal");
        let _ = std::fs::remove_file(&wal4);
        let st = TensorStore::open_durable(&wal4, WalConfig::default()).unwrap();
        let next = Arc::new(AtomicU64::new(0));
        let stop = Arc::new(std::sync::atomic::AtomicBool::new(false));
        let (s1, n1, st1) = (st.clone(), next.clone(), stop.clone());
        let writer = std::thread::spawn(move || {
            let mut i = 0u64;
            while !st1.load(Ordering::Relaxed) {
                i += 1;
                n1.store(i, Ordering::SeqCst);
                let k = Key { cls: 0, idx: 0 };
                s1.put_durable(format!("emb:vis:{i}"), value(k, i)).unwrap();
            }
            i
        });
        let mut readers = vec![];
        for ri in 0..3 {
            let (s2, n2, st2) = (st.clone(), next.clone(), stop.clone());
            readers.push(std::thread::spawn(move || {
                let mut pairs = 0u64;
                let mut bad: Option<String> = None;
                while !st2.load(Ordering::Relaxed) && bad.is_none() {
                    let i = n2.load(Ordering::SeqCst);
                    let k = format!("emb:vis:{i}");
                    if ri < 2 {
                        if s2.exists(&k) { pairs += 1; if s2.get(&k).is_err() { bad = Some(format!("exists({k}) returned true and the following get({k}) returned NotFound (no delete is ever issued)")); } }
                    } else {
                        for key in s2.scan(&format!("emb:vis:{i}")) { pairs += 1; if s2.get(&key).is_err() { bad = Some(format!("scan listed {key} and the following get({key}) returned NotFound (no delete is ever issued)")); break; } }
                    }
                }
                (pairs, bad)
            }));
        }
        std::thread::sleep(Duration::from_millis(args.budget(500, 3000) as u64));
        stop.store(true, Ordering::Relaxed);
        let writes = writer.join().unwrap();
        let mut pairs = 0; let mut bad: Option<String> = None;
        for h in readers { let (n, bq) = h.join().unwrap(); pairs += n; if bad.is_none() { bad = bq; } }
        dist.add("visibility.writes", writes);
        hammer.push("v", &format!("visibility-hammer durable fresh emb keys: writes={writes} read pairs={pairs} bad={bad:?}"), writes > 0);
        if let Some(bq) = bad { hits.push("seen-then-not-found", &format!("one writer put_durable of fresh embedding keys, 3 readers, after {writes} writes: {bq}"), json!({"kind": "visibility-hammer", "seed": args.seed})); }
    }

    // ---------------------------------------------------------------- bloom hammer: stores built with a Bloom filter; many threads put
    // DISTINCT keys at once; a put that has returned must be visible to get and exists, then and for ever after
    for (label, small) in [("default filter", false), ("small filter (64 items, 1%)", true)] {
        let rounds = args.budget(70, 1500);
        let threads = 8usize;
        let per = 24usize;
        let mut bad: Option<String> = None;
        let mut puts = 0u64;
        for round in 0..rounds {
            let store = if small { TensorStore::with_bloom_filter(64, 0.01) } else { TensorStore::with_default_bloom_filter() };
            let bar = Arc::new(Barrier::new(threads));
            let mut hs = vec![];
            for t in 0..threads {
                let (s, bar) = (store.clone(), bar.clone());
                hs.push(std::thread::spawn(move || {
                    bar.wait();
                    let mut early: Option<String> = None;
                    for j in 0..per {
                        let k = format!("bk{round}:{t}:{j}");
                        let mut v = TensorData::new();
                        v.set("v", TensorValue::Scalar(ScalarValue::Int((t * 1000 + j) as i64)));
                        s.put(k.clone(), v).unwrap();
                        if early.is_none() && !(s.exists(&k) && s.get(&k).is_ok()) { early = Some(k); }
                    }
                    early
                }));
            }
            let early: Vec<String> = hs.into_iter().filter_map(|h| h.join().unwrap()).collect();
            puts += (threads * per) as u64;
            let mut lost = vec![];
            for t in 0..threads { for j in 0..per { let k = format!("bk{round}:{t}:{j}"); if !(store.exists(&k) && store.get(&k).is_ok()) { lost.push(k); } } }
            if !lost.is_empty() || !early.is_empty() {
                let listed = store.scan(&format!("bk{round}:")).len();
                bad = Some(format!("round {round}: {threads} threads put {per} distinct keys each; after all puts returned get/exists do not find {:?} (scan lists {listed} of {} keys); not visible right after their own put: {:?}", &lost[..lost.len().min(4)], threads * per, &early[..early.len().min(4)]));
                break;
            }
        }
        dist.add(&format!("bloomhammer.{}.puts", if small { "small" } else { "default" }), puts);
        hammer.push(&format!("b{}", small as u8), &format!("bloom-hammer {label}: puts={puts} bad={bad:?}"), true);
        if let Some(bq) = bad {
            hits.push("put-lost-to-bloom-filter", &format!("store with a Bloom filter ({label}), {bq}"), json!({"kind": "bloom-hammer", "filter": label, "seed": args.seed}));
        }
    }

    // ---------------------------------------------------------------- bloom visibility: on a store with a Bloom filter a key that a scan
    // has listed must be found by get and exists started afterwards (no delete is ever issued). More writer threads
    // than cores: a writer descheduled between making the key visible to scans and to get/exists is caught by a reader.
    for durable_store in [false, true] {
        let wal5 = dir.join("bloomvis.wal");
        let _ = std::fs::remove_file(&wal5);
        let st = if durable_store { TensorStore::open_durable_with_bloom(&wal5, WalConfig { sync_mode: SyncMode::Manual, ..WalConfig::default() }, 100_000, 0.01).unwrap() } else { TensorStore::with_bloom_filter(100_000, 0.01) };
        let nw = 2 * std::thread::available_parallelism().map(|n| n.get()).unwrap_or(8);
        let cur: Arc<Vec<AtomicU64>> = Arc::new((0..nw).map(|_| AtomicU64::new(0)).collect());
        let stop = Arc::new(std::sync::atomic::AtomicBool::new(false));
        let mut writers = vec![];
        for t in 0..nw {
            let (s, cur, stop) = (st.clone(), cur.clone(), stop.clone());
            writers.push(std::thread::spawn(move || {
                let mut i = 0u64;
                let v = value(Key { cls: 4, idx: 0 }, 1);
                while !stop.load(Ordering::Relaxed) {
                    i += 1;
                    cur[t].store(i, Ordering::SeqCst);
                    let k = format!("bv{t}:{i}:");
                    if durable_store { s.put_durable(k, v.clone()).unwrap(); } else { s.put(k, v.clone()).unwrap(); }
                }
                i
            }));
        }
        let mut readers = vec![];
        for ri in 0..4usize {
            let (s, cur, stop) = (st.clone(), cur.clone(), stop.clone());
            readers.push(std::thread::spawn(move || {
                let mut pairs = 0u64;
                let mut bad: Option<String> = None;
                let mut t = ri;
                while !stop.load(Ordering::Relaxed) && bad.is_none() {
                    t = (t + 1) % cur.len();
                    let i = cur[t].load(Ordering::SeqCst);
                    let k = format!("bv{t}:{i}:");
                    // the metadata slab alone answers this (one shard lock); SlabRouter::scan would also walk the whole cache ring
                    if s.router().metadata.contains(&k) || !s.router().metadata.scan(&k).is_empty() {
                        pairs += 1;
                        let (e, g) = (s.exists(&k), s.get(&k).is_ok());
                        if !e || !g { bad = Some(format!("the key {k} is in the store (a scan of its prefix lists it) but exists -> {e} and get -> {}", if g { "found" } else { "NotFound" })); }
                    }
                }
                (pairs, bad)
            }));
        }
        std::thread::sleep(Duration::from_millis(args.budget(600, 4000) as u64));
        stop.store(true, Ordering::Relaxed);
        let writes: u64 = writers.into_iter().map(|h| h.join().unwrap()).sum();
        let mut pairs = 0; let mut bad: Option<String> = None;
        for h in readers { let (n, bq) = h.join().unwrap(); pairs += n; if bad.is_none() { bad = bq; } }
        dist.add("bloomvis.writes", writes);
        hammer.push(&format!("bv{}", durable_store as u8), &format!("bloom-visibility durable={durable_store} writers={nw} writes={writes} listed-then-read pairs={pairs} bad={bad:?}"), pairs > 0);
        if let Some(bq) = bad { hits.push("listed-then-not-found", &format!("store with a Bloom filter (durable log {}), {nw} writers of fresh keys and 4 readers, after {writes} writes: {bq}", if durable_store { "on" } else { "off" }), json!({"kind": "bloom-visibility", "seed": args.seed})); }
    }

    // ---------------------------------------------------------------- scan hammer: a prefix scan is one of the states it overlapped
    // keys a, b present; one writer cycles put(c); delete(a); put(a); delete(c): the key set is always {a,b}, {a,b,c} or {b,c},
    // so every scan must list b, and a or c, and nothing else
    for cls in [4u8, 1, 2] {
        let store = TensorStore::new();
        let pfx = format!("{}scan:", PREFIX[cls as usize]);
        let key = |x: &str| format!("{pfx}{x}");
        let val = |n: i64| { let mut t = TensorData::new(); t.set("v", TensorValue::Scalar(ScalarValue::Int(n))); t.set("pad", TensorValue::Scalar(ScalarValue::String("x".repeat(200)))); t };
        store.put(key("a"), val(1)).unwrap();
        store.put(key("b"), val(2)).unwrap();
        let stop = Arc::new(std::sync::atomic::AtomicBool::new(false));
        let (s1, st1, ka, kc) = (store.clone(), stop.clone(), key("a"), key("c"));
        let v3 = val(3);
        let writer = std::thread::spawn(move || {
            let mut n = 0u64;
            while !st1.load(Ordering::Relaxed) {
                s1.put(kc.clone(), v3.clone()).unwrap();
                let _ = s1.delete(&ka);
                s1.put(ka.clone(), v3.clone()).unwrap();
                let _ = s1.delete(&kc);
                n += 4;
            }
            n
        });
        let mut readers = vec![];
        for _ in 0..3 {
            let (s2, st2, pfx2) = (store.clone(), stop.clone(), pfx.clone());
            readers.push(std::thread::spawn(move || {
                let mut scans = 0u64;
                let mut bad: Option<String> = None;
                while !st2.load(Ordering::Relaxed) && bad.is_none() {
                    let mut ks: Vec<String> = s2.scan(&pfx2).iter().map(|k| k[pfx2.len()..].to_string()).collect();
                    ks.sort();
                    scans += 1;
                    let has = |x: &str| ks.iter().any(|k| k == x);
                    if !has("b") || !(has("a") || has("c")) || ks.iter().any(|k| !["a", "b", "c"].contains(&k.as_str())) {
                        bad = Some(format!("scan({pfx2:?}) returned {ks:?}; the store only ever held {{a,b}}, {{a,b,c}} or {{b,c}}"));
                    }
                }
                (scans, bad)
            }));
        }
        std::thread::sleep(Duration::from_millis(args.budget(350, 2000) as u64));
        stop.store(true, Ordering::Relaxed);
        let writes = writer.join().unwrap();
        let mut scans = 0; let mut bad: Option<String> = None;
        for h in readers { let (n, bq) = h.join().unwrap(); scans += n; if bad.is_none() { bad = bq; } }
        dist.add(&format!("scanhammer.{}.scans", PREFIX[cls as usize].trim_end_matches(':')), scans);
        hammer.push(&format!("s{cls}"), &format!("scan-hammer prefix={pfx} writes={writes} scans={scans} bad={bad:?}"), scans > 0);
        if let Some(bq) = bad {
            hits.push("scan-not-a-state", &format!("writer cycles put(c) delete(a) put(a) delete(c) next to 3 scanning threads, after {scans} scans / {writes} writes: {bq}"), json!({"kind": "scan-hammer", "prefix": pfx, "seed": args.seed}));
        }
    }

    // ---------------------------------------------------------------- recover: after quiescence the recovered store answers like memory,
    // scans included; values of every key class may carry an `_embedding` (put_durable registers such keys in the entity index)
    {
        let wal2 = dir.join("recover.wal");
        let _ = std::fs::remove_file(&wal2);
        let cfg2 = WalConfig { sync_mode: SyncMode::Manual, ..WalConfig::default() };
        let st = TensorStore::open_durable(&wal2, cfg2.clone()).unwrap();
        let prefixes = ["m", "node:", "table:", "emb:", "user:", "edge:"];
        let mk = |n: i64, emb: bool| { let mut t = TensorData::new(); t.set("v", TensorValue::Scalar(ScalarValue::Int(n))); if emb { t.set("_embedding", TensorValue::Vector(vec![n as f32, 1.0, 2.0])); } t };
        let mut script = vec![];
        for (pi, p) in prefixes.iter().enumerate() {
            let k = |i: usize| format!("{p}r{i}");
            let base = (pi * 10) as i64;
            st.put_durable(k(0), mk(base, true)).unwrap();
            st.put_durable(k(1), mk(base + 1, true)).unwrap();
            st.put_durable(k(2), mk(base + 2, true)).unwrap();
            st.put_durable(k(3), mk(base + 3, false)).unwrap();
            let _ = st.delete_durable(&k(0));                       // a key that carried a vector
            let _ = st.delete_durable(&k(3));
            st.put_durable(k(1), mk(base + 4, false)).unwrap();   // overwritten without a vector
            if rng.chance(1, 2) { let _ = st.delete_durable(&k(2)); st.put_durable(k(2), mk(base + 5, true)).unwrap(); script.push(format!("re-created {}", k(2))); }
        }
        // entity ids: a non-embedding key whose value carries a vector takes an id too; the embedding keys written
        // after it (slab-dimension vectors) must come back with their OWN vectors
        st.put_durable("user:rv", mk(77, true)).unwrap();
        st.put_durable("emb:ra", value(Key { cls: 0, idx: 0 }, 501)).unwrap();
        st.put_durable("emb:rb", value(Key { cls: 0, idx: 1 }, 502)).unwrap();
        st.put_durable("emb:ra", value(Key { cls: 0, idx: 0 }, 503)).unwrap();
        st.put_durable("node:rv", mk(78, true)).unwrap();
        st.put_durable("emb:rc", value(Key { cls: 0, idx: 2 }, 504)).unwrap();
        let _ = st.delete_durable("emb:rb");
        st.put_durable("emb:rb", value(Key { cls: 0, idx: 1 }, 505)).unwrap();
        st.wal_sync().unwrap();
        let view = |s: &TensorStore| -> Vec<String> {
            let mut out = vec![];
            for p in prefixes {
                let mut ks = s.scan(&format!("{p}r"));
                ks.sort();
                out.push(format!("scan({p}r)={ks:?}"));
                for i in 0..4 {
                    let k = format!("{p}r{i}");
                    let g = s.get(&k).ok().map(|t| { let mut f: Vec<String> = t.iter().map(|(a, bq)| format!("{a}={bq:?}")).collect(); f.sort(); f });
                    out.push(format!("get({k})={g:?} exists={}", s.exists(&k)));
                }
            }
            for (k, key) in [("emb:ra", Key { cls: 0, idx: 0 }), ("emb:rb", Key { cls: 0, idx: 1 }), ("emb:rc", Key { cls: 0, idx: 2 })] {
                out.push(format!("get({k})={:?} (tag, or 1000000+tag*1000+vector when the vector belongs to another write) exists={}", s.get(k).ok().map(|t| decode(key, &t)), s.exists(k)));
            }
            out
        };
        let mem = view(&st);
        drop(st);
        match TensorStore::recover(&wal2, &cfg2, None) {
            Ok(rec) => {
                let r = view(&rec);
                let diff: Vec<(String, String)> = mem.iter().zip(&r).filter(|(a, bq)| a != bq).map(|(a, bq)| (a.clone(), bq.clone())).collect();
                durable.push("r", &format!("recover: {} observations (scan/get/exists over 6 key classes, values with and without _embedding) compared, {} differ", mem.len(), diff.len()), true);
                dist.add("recover.observations", mem.len() as u64);
                if let Some((a, bq)) = diff.first() {
                    hits.push("recovery-differs", &format!("durable puts/deletes on every key class (values carrying `_embedding`), quiescence, recover: in memory {a} but after recovery {bq} ({} observations differ)", diff.len()), json!({"kind": "recover", "memory": a, "recovered": bq}));
                }
            }
            Err(e) => hits.push("recover-error", &format!("recover failed: {e}"), json!({"kind": "recover"})),
        }
    }

    write_meta(
        &args.out,
        json!({
            "property": "C11", "seed": args.seed, "tier": args.tier,
            "kinds": [order.summary(), lin.summary(), pscan.summary(), durable.summary(), hammer.summary()],
            "distribution": dist.json(),
            "hits": hits.0,
            "nontrivial_rule": "lin: every history (2-4 threads run concurrently; how many actually overlapped in time is scheduler-dependent and reported in the distribution as lin.observed_overlap); order: always; durable: at least one key compared; hammer: at least one read found a value; pscan: the scan returned at least one key",
        }),
    );
}
