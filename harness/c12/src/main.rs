//! C12 correspondence harness: drives the REAL `LockManager`, `WaitForGraph`, `DeadlockDetector` and the
//! lock / wait-graph side of `DistributedTxCoordinator` (tensor_chain/src/{distributed_tx,deadlock}.rs).
//! Case kinds (Gallina terms for NV.C12.Run):
//!   lm     : op sequences on LockManager + WaitForGraph                  -> check_lm
//!   coord  : coordinator-level sequences (prepare/vote/commit/abort/timeouts) projected on the same ops -> check_lm
//!   graph  : wait-for graphs through DeadlockDetector                     -> check_graph
//!   stress : 2-6 threads on one LockManager (implementation-only oracle: mutual exclusion, nothing left)
//! Time: the guarded clock hook `distributed_tx::verif_clock` (cfg neumann_verif).
use nvh_common::*;
use std::collections::{BTreeMap, HashMap};
use std::sync::atomic::{AtomicU64, Ordering};
use std::sync::Arc;
use std::time::Duration;
use tensor_chain::block::Transaction;
use tensor_chain::consensus::{ConsensusConfig, ConsensusManager};
use tensor_chain::deadlock::{DeadlockDetector, DeadlockDetectorConfig, VictimSelectionPolicy, WaitForGraph};
use tensor_chain::distributed_tx::{
    lock_handle_current, verif_clock, verif_sched, DistributedTxConfig, DistributedTxCoordinator, LockManager, PrepareRequest,
    PrepareVote, SerializableLockState, TxPhase,
};
use tensor_store::SparseVector;

const T0: u64 = 1000; // model's initial `now`

fn key(k: u64) -> String {
    format!("k{k}")
}
fn kidx(s: &str) -> u64 {
    s[1..].parse().unwrap()
}
fn ln(xs: &[u64]) -> String {
    list(xs.iter().map(|x| n(*x)))
}
fn on(x: Option<u64>) -> String {
    opt(x.map(n))
}

// ------------------------------------------------------------------------------------ ops (Gallina NV.C12.Model.op)
#[derive(Clone, Debug)]
enum Op {
    TryLock(u64, Vec<u64>),
    TryLockWait(u64, Vec<u64>, Option<u64>),
    Release(u64),
    ReleaseHandle(u64),
    ReleaseHandleWait(u64),
    Cleanup,
    CleanupWait,
    SerRestore,
    Advance(u64),
    SetTimeout(u64),
    AddWait(u64, u64, Option<u64>),
    RemoveTx(u64),
    RemoveWait(u64, u64),
    Finish(u64, Vec<u64>),
    Timeouts(Vec<(u64, Vec<u64>)>),
}
impl Op {
    fn coq(&self) -> String {
        match self {
            Op::TryLock(t, ks) => format!("OTryLock {t} {}", ln(ks)),
            Op::TryLockWait(t, ks, p) => format!("OTryLockWait {t} {} {}", ln(ks), on(*p)),
            Op::Release(t) => format!("ORelease {t}"),
            Op::ReleaseHandle(h) => format!("OReleaseHandle {h}"),
            Op::ReleaseHandleWait(h) => format!("OReleaseHandleWait {h}"),
            Op::Cleanup => "OCleanup".into(),
            Op::CleanupWait => "OCleanupWait".into(),
            Op::SerRestore => "OSerRestore".into(),
            Op::Advance(d) => format!("OAdvance {d}"),
            Op::SetTimeout(t) => format!("OSetTimeout {t}"),
            Op::AddWait(w, h, p) => format!("OAddWait {w} {h} {}", on(*p)),
            Op::RemoveTx(t) => format!("ORemoveTx {t}"),
            Op::RemoveWait(w, h) => format!("ORemoveWait {w} {h}"),
            Op::Finish(t, hs) => format!("OFinish {t} {}", ln(hs)),
            Op::Timeouts(f) => format!("OTimeouts {}", list(f.iter().map(|(t, hs)| format!("({t}, {})", ln(hs))))),
        }
    }
    fn name(&self) -> &'static str {
        match self {
            Op::TryLock(..) => "try_lock",
            Op::TryLockWait(..) => "try_lock_wait",
            Op::Release(_) => "release",
            Op::ReleaseHandle(_) => "release_by_handle",
            Op::ReleaseHandleWait(_) => "release_by_handle_wait",
            Op::Cleanup => "cleanup_expired",
            Op::CleanupWait => "cleanup_expired_wait",
            Op::SerRestore => "serialize_restore",
            Op::Advance(_) => "advance",
            Op::SetTimeout(_) => "set_timeout",
            Op::AddWait(..) => "add_wait",
            Op::RemoveTx(_) => "remove_transaction",
            Op::RemoveWait(..) => "remove_wait",
            Op::Finish(..) => "finish",
            Op::Timeouts(_) => "timeouts",
        }
    }
}

// ------------------------------------------------------------------------------------ dump
fn dump(lm: &LockManager, g: &WaitForGraph, kk: u64, tt: u64, tx_real: &dyn Fn(u64) -> u64, tx_small: &dyn Fn(u64) -> u64) -> String {
    let holders: Vec<String> = (0..kk).map(|k| on(lm.lock_holder(&key(k)).map(|t| tx_small(t)))).collect();
    let keys: Vec<String> = (1..=tt)
        .map(|t| list(lm.keys_for_transaction(tx_real(t)).iter().map(|s| n(kidx(s)))))
        .collect();
    let setl = |s: std::collections::HashSet<u64>| {
        let mut v: Vec<u64> = s.into_iter().map(|t| tx_small(t)).collect();
        v.sort();
        ln(&v)
    };
    let wf: Vec<String> = (1..=tt).map(|t| setl(g.waiting_for(tx_real(t)))).collect();
    let wo: Vec<String> = (1..=tt).map(|t| setl(g.waiting_on(tx_real(t)))).collect();
    let ws: Vec<String> = (1..=tt).map(|t| on(g.get_wait_start(tx_real(t)))).collect();
    format!(
        "(Dump {} {} {} {} {} {} {} {})",
        list(holders),
        lm.active_lock_count(),
        list(keys),
        list(wf),
        list(wo),
        list(ws),
        g.edge_count(),
        g.transaction_count()
    )
}

// ------------------------------------------------------------------------------------ lm kind
struct Lm {
    lm: LockManager,
    g: WaitForGraph,
    now: u64,
    h0: u64,
    kk: u64,
    tt: u64,
}
impl Lm {
    fn new(kk: u64, tt: u64, tmo: u64, maxe: u64) -> Lm {
        verif_clock::set(Some(T0));
        Lm {
            lm: LockManager::with_default_timeout(Duration::from_millis(tmo)),
            g: if maxe == 0 { WaitForGraph::new() } else { WaitForGraph::with_max_edges_per_tx(maxe as usize) },
            now: T0,
            h0: lock_handle_current(),
            kk,
            tt,
        }
    }
    fn ch(&self, h: u64) -> u64 {
        h - self.h0 + 1
    }
    fn rh(&self, h: u64) -> u64 {
        h + self.h0 - 1
    }
    fn keys(ks: &[u64]) -> Vec<String> {
        ks.iter().map(|k| key(*k)).collect()
    }
    fn apply(&mut self, op: &Op) -> Vec<u64> {
        match op {
            Op::TryLock(t, ks) => match self.lm.try_lock(*t, &Self::keys(ks)) {
                Ok(h) => vec![0, self.ch(h)],
                Err(o) => vec![1, o],
            },
            Op::TryLockWait(t, ks, p) => match self.lm.try_lock_with_wait_tracking(*t, &Self::keys(ks), &self.g, p.map(|x| x as u32)) {
                Ok(h) => vec![0, self.ch(h)],
                Err(w) => {
                    let mut v = vec![1, w.blocking_tx_id];
                    v.extend(w.conflicting_keys.iter().map(|s| kidx(s)));
                    v
                }
            },
            Op::Release(t) => {
                self.lm.release(*t);
                vec![]
            }
            Op::ReleaseHandle(h) => {
                self.lm.release_by_handle(self.rh(*h));
                vec![]
            }
            Op::ReleaseHandleWait(h) => {
                self.lm.release_by_handle_with_wait_cleanup(self.rh(*h), &self.g);
                vec![]
            }
            Op::Cleanup => vec![self.lm.cleanup_expired() as u64],
            Op::CleanupWait => vec![self.lm.cleanup_expired_with_wait_cleanup(&self.g) as u64],
            Op::SerRestore => {
                let st = self.lm.to_serializable();
                let bytes = bitcode::serialize(&st).expect("serialize lock state");
                let st2: SerializableLockState = bitcode::deserialize(&bytes).expect("deserialize lock state");
                self.lm = LockManager::from_serializable(st2);
                vec![]
            }
            Op::Advance(d) => {
                self.now += d;
                verif_clock::set(Some(self.now));
                vec![]
            }
            Op::SetTimeout(t) => {
                self.lm.default_timeout = Duration::from_millis(*t);
                vec![]
            }
            Op::AddWait(w, h, p) => {
                self.g.add_wait(*w, *h, p.map(|x| x as u32));
                vec![]
            }
            Op::RemoveTx(t) => {
                self.g.remove_transaction(*t);
                vec![]
            }
            Op::RemoveWait(w, h) => {
                self.g.remove_wait(*w, *h);
                vec![]
            }
            Op::Finish(..) | Op::Timeouts(_) => unreachable!("coordinator-level op in an lm case"),
        }
    }
    fn dump(&self) -> String {
        dump(&self.lm, &self.g, self.kk, self.tt, &|t| t, &|t| t)
    }
}

fn gen_keys(r: &mut Rng, kk: u64, max: u64) -> Vec<u64> {
    let cnt = r.range(0, max);
    (0..cnt).map(|_| r.below(kk)).collect() // duplicates and the empty request included
}

fn lm_case(ops: &[Op], kk: u64, tt: u64, tmo: u64, maxe: u64, dist: &mut Dist) -> (String, String, bool) {
    let mut m = Lm::new(kk, tt, tmo, maxe);
    let mut obs = vec![];
    let mut grants = 0;
    let mut refusals = 0;
    for o in ops {
        let ret = m.apply(o);
        dist.hit(&format!("lm.op.{}", o.name()));
        if matches!(o, Op::TryLock(..) | Op::TryLockWait(..)) {
            if ret[0] == 0 {
                grants += 1;
                dist.hit("lm.granted");
            } else {
                refusals += 1;
                dist.hit("lm.refused");
            }
        }
        obs.push(format!("({}, {})", ln(&ret), m.dump()));
    }
    verif_clock::set(None);
    let term = format!("({kk}, {tt}, {tmo}, {maxe}, {}, {})", list(ops.iter().map(|o| o.coq())), list(obs));
    (term, format!("K={kk} T={tt} tmo={tmo} maxe={maxe} ops={ops:?}"), grants >= 1 && refusals >= 1)
}

fn gen_lm_ops(r: &mut Rng, kk: u64, tt: u64, maxe: u64, len: usize) -> Vec<Op> {
    let mut ops = vec![];
    let mut issued: u64 = 0; // number of handles issued so far is unknown to the generator: use small guesses
    for _ in 0..len {
        let k = r.below(100);
        let tx = r.range(1, tt);
        let op = if k < 22 {
            issued += 1;
            Op::TryLock(tx, gen_keys(r, kk, 3))
        } else if k < 44 {
            issued += 1;
            let ks = if maxe > 0 { vec![r.below(kk)] } else { gen_keys(r, kk, 3) };
            Op::TryLockWait(tx, ks, if r.chance(1, 3) { Some(r.below(5)) } else { None })
        } else if k < 54 {
            Op::Release(tx)
        } else if k < 61 {
            Op::ReleaseHandle(r.range(1, issued.max(1) + 1))
        } else if k < 68 {
            Op::ReleaseHandleWait(r.range(1, issued.max(1) + 1))
        } else if k < 72 {
            Op::Cleanup
        } else if k < 76 {
            Op::CleanupWait
        } else if k < 79 {
            Op::SerRestore
        } else if k < 88 {
            Op::Advance(*r.pick(&[0u64, 1, 10, 49, 50, 51, 100, 1000]))
        } else if k < 91 {
            Op::SetTimeout(*r.pick(&[0u64, 50, 100, 100000]))
        } else if k < 95 {
            Op::AddWait(r.range(1, tt), r.range(1, tt), if r.chance(1, 3) { Some(r.below(5)) } else { None })
        } else if k < 98 {
            Op::RemoveTx(tx)
        } else {
            Op::RemoveWait(r.range(1, tt), r.range(1, tt))
        };
        ops.push(op);
    }
    ops
}

// ------------------------------------------------------------------------------------ coord kind
#[derive(Clone, Debug)]
enum CoOp {
    Begin(u64),                 // number of shards
    Prepare(u64, u64, Vec<u64>), // tx index (1-based), shard, keys
    Vote(u64, usize),           // deliver the i-th stored vote of tx (duplicates possible)
    Commit(u64),
    Abort(u64),
    Advance(u64),
    Timeouts,
}

struct Co {
    c: DistributedTxCoordinator,
    ids: Vec<u64>, // real tx id of tx index i+1
    votes: Vec<Vec<(usize, PrepareVote)>>,
    now: u64,
    h0: u64,
    kk: u64,
    tt: u64,
}
impl Co {
    fn new(kk: u64, tt: u64, prepare_timeout_ms: u64) -> Co {
        verif_clock::set(Some(T0));
        let cfg = DistributedTxConfig { prepare_timeout_ms, optimistic_locking: false, ..DistributedTxConfig::default() };
        Co {
            c: DistributedTxCoordinator::new(ConsensusManager::new(ConsensusConfig::default()), cfg),
            ids: vec![],
            votes: vec![],
            now: T0,
            h0: lock_handle_current(),
            kk,
            tt,
        }
    }
    fn small(&self, real: u64) -> u64 {
        self.ids.iter().position(|x| *x == real).map(|i| i as u64 + 1).unwrap_or(0)
    }
    fn real(&self, t: u64) -> u64 {
        // a transaction index that has not begun yet maps to an id nobody uses
        self.ids.get(t as usize - 1).copied().unwrap_or(u64::MAX - t)
    }
    fn dump(&self) -> String {
        dump(self.c.lock_manager(), self.c.wait_graph(), self.kk, self.tt, &|t| self.real(t), &|t| self.small(t))
    }
    fn handles(&self, t: u64) -> Vec<u64> {
        let mut hs: Vec<u64> = self
            .c
            .get(self.real(t))
            .map(|tx| {
                tx.votes
                    .values()
                    .filter_map(|v| if let PrepareVote::Yes { lock_handle, .. } = v { Some(lock_handle - self.h0 + 1) } else { None })
                    .collect()
            })
            .unwrap_or_default();
        hs.sort();
        hs
    }
    /// apply one coordinator-level call; returns the projected model op and its return value, if any
    fn apply(&mut self, op: &CoOp, dist: &mut Dist) -> Option<(Op, Vec<u64>)> {
        match op {
            CoOp::Begin(shards) => {
                if self.ids.len() as u64 >= self.tt {
                    return None;
                }
                let parts: Vec<usize> = (0..*shards as usize).collect();
                let tx = self.c.begin(&"n0".to_string(), &parts).expect("begin");
                self.ids.push(tx.tx_id);
                self.votes.push(vec![]);
                dist.hit("coord.begin");
                None
            }
            CoOp::Prepare(t, shard, ks) => {
                if *t as usize > self.ids.len() {
                    return None;
                }
                // conflicting keys = requested keys currently held by somebody else (read from the implementation)
                let me = self.real(*t);
                let cks: Vec<u64> = ks
                    .iter()
                    .copied()
                    .filter(|k| self.c.lock_manager().lock_holder(&key(*k)).is_some_and(|o| o != me))
                    .collect();
                let req = PrepareRequest {
                    tx_id: me,
                    coordinator: "n0".to_string(),
                    operations: ks.iter().map(|k| Transaction::Put { key: key(*k), data: vec![1] }).collect(),
                    delta_embedding: SparseVector::from_dense(&[0.0, 0.0]),
                    timeout_ms: 5000,
                };
                let vote = self.c.handle_prepare(&req);
                let ret = match &vote {
                    PrepareVote::Yes { lock_handle, .. } => {
                        dist.hit("coord.prepare.yes");
                        vec![0, lock_handle - self.h0 + 1]
                    }
                    PrepareVote::Conflict { conflicting_tx, .. } => {
                        dist.hit("coord.prepare.conflict");
                        let mut v = vec![1, self.small(*conflicting_tx)];
                        v.extend(cks);
                        v
                    }
                    _ => vec![9],
                };
                self.votes[*t as usize - 1].push((*shard as usize, vote));
                Some((Op::TryLockWait(*t, ks.clone(), None), ret))
            }
            CoOp::Vote(t, i) => {
                if *t as usize > self.ids.len() {
                    return None;
                }
                let vs = &self.votes[*t as usize - 1];
                if vs.is_empty() {
                    return None;
                }
                let (shard, vote) = vs[*i % vs.len()].clone();
                match self.c.record_vote(self.real(*t), shard, vote) {
                    Ok(Some(TxPhase::Prepared)) => dist.hit("coord.vote.prepared"),
                    Ok(Some(_)) => dist.hit("coord.vote.aborting"),
                    Ok(None) => dist.hit("coord.vote.recorded"),
                    Err(_) => dist.hit("coord.vote.rejected"),
                }
                None
            }
            CoOp::Commit(t) | CoOp::Abort(t) => {
                if *t as usize > self.ids.len() {
                    return None;
                }
                let hs = self.handles(*t);
                let res = if matches!(op, CoOp::Commit(_)) { self.c.commit(self.real(*t)) } else { self.c.abort(self.real(*t), "harness") };
                match res {
                    Ok(()) => {
                        dist.hit(if matches!(op, CoOp::Commit(_)) { "coord.commit.ok" } else { "coord.abort.ok" });
                        Some((Op::Finish(*t, hs), vec![]))
                    }
                    Err(_) => {
                        dist.hit(if matches!(op, CoOp::Commit(_)) { "coord.commit.refused" } else { "coord.abort.refused" });
                        Some((Op::Advance(0), vec![])) // a refused call must change nothing
                    }
                }
            }
            CoOp::Advance(d) => {
                self.now += d;
                verif_clock::set(Some(self.now));
                Some((Op::Advance(*d), vec![]))
            }
            CoOp::Timeouts => {
                let before: BTreeMap<u64, Vec<u64>> = (1..=self.ids.len() as u64).map(|t| (t, self.handles(t))).collect();
                let mut out: Vec<u64> = self.c.cleanup_timeouts().iter().map(|r| self.small(*r)).collect();
                out.sort();
                let _ = self.c.take_pending_aborts();
                dist.add("coord.timed_out", out.len() as u64);
                Some((Op::Timeouts(out.iter().map(|t| (*t, before[t].clone())).collect()), vec![]))
            }
        }
    }
}

fn coord_case(cops: &[CoOp], kk: u64, tt: u64, ptmo: u64, dist: &mut Dist) -> (String, String, bool) {
    let mut c = Co::new(kk, tt, ptmo);
    let mut ops = vec![];
    let mut obs = vec![];
    let mut finished = 0;
    let mut conflicts = 0;
    for co in cops {
        if let Some((op, ret)) = c.apply(co, dist) {
            if matches!(op, Op::Finish(..)) {
                finished += 1;
            }
            if let Op::Timeouts(f) = &op {
                finished += f.len();
            }
            if matches!(op, Op::TryLockWait(..)) && ret[0] == 1 {
                conflicts += 1;
            }
            obs.push(format!("({}, {})", ln(&ret), c.dump()));
            ops.push(op);
        }
    }
    verif_clock::set(None);
    // the coordinator's LockManager is LockManager::new(): 30 s default timeout; its graph is unbounded
    let term = format!("({kk}, {tt}, 30000, 0, {}, {})", list(ops.iter().map(|o| o.coq())), list(obs));
    (term, format!("K={kk} T={tt} prepare_timeout={ptmo} calls={cops:?}"), finished >= 1 && conflicts >= 1)
}

fn gen_coord(r: &mut Rng, kk: u64, tt: u64, len: usize) -> Vec<CoOp> {
    let mut v = vec![CoOp::Begin(r.range(1, 3))];
    let mut begun = 1u64;
    for _ in 0..len {
        let k = r.below(100);
        let t = r.range(1, tt);
        // protocol-order snippet for a fresh one-shard transaction: begin, prepare, (duplicate prepare), vote, decide
        if k < 14 && begun < tt {
            begun += 1;
            let me = begun;
            v.push(CoOp::Begin(1));
            v.push(CoOp::Prepare(me, 0, gen_keys(r, kk, 3)));
            if r.chance(1, 4) {
                v.push(CoOp::Prepare(me, 0, gen_keys(r, kk, 2)));
            }
            v.push(CoOp::Vote(me, 0));
            v.push(match r.below(4) {
                0 => CoOp::Abort(me),
                1 => CoOp::Advance(5001),
                _ => CoOp::Commit(me),
            });
            continue;
        }
        v.push(if k < 12 {
            CoOp::Begin(r.range(1, 3))
        } else if k < 42 {
            CoOp::Prepare(t, r.below(3), gen_keys(r, kk, 3))
        } else if k < 64 {
            CoOp::Vote(t, r.below(4) as usize)
        } else if k < 74 {
            CoOp::Commit(t)
        } else if k < 84 {
            CoOp::Abort(t)
        } else if k < 93 {
            CoOp::Advance(*r.pick(&[0u64, 1, 100, 2500, 5000, 5001, 30001]))
        } else {
            CoOp::Timeouts
        });
    }
    v
}

// ------------------------------------------------------------------------------------ graph kind
#[derive(Clone, Debug)]
struct GraphIn {
    edges: Vec<(u64, u64, Option<u64>)>,
    maxe: u64,
    enabled: bool,
    policy: u64,
    max_cycle: u64,
    cascade: u64,
    locks: Option<Vec<(u64, u64)>>,
    queries: Vec<(u64, u64)>,
    /// ms that pass (clock hook) between the last add_wait and the detection round: detection reads the recorded
    /// relations, however long ago they were recorded
    delay: u64,
}

fn graph_case(gi: &GraphIn, dist: &mut Dist) -> (String, String, bool) {
    let pol = match gi.policy {
        0 => VictimSelectionPolicy::Youngest,
        1 => VictimSelectionPolicy::Oldest,
        2 => VictimSelectionPolicy::LowestPriority,
        _ => VictimSelectionPolicy::MostLocks,
    };
    let mut cfg = DeadlockDetectorConfig::default()
        .with_policy(pol)
        .with_max_cycle_length(gi.max_cycle as usize)
        .with_max_edges_per_tx(gi.maxe as usize)
        .with_victim_cascade_depth(gi.cascade as u32);
    cfg.enabled = gi.enabled;
    let mut det = DeadlockDetector::new(cfg);
    if let Some(lc) = &gi.locks {
        let m: HashMap<u64, u64> = lc.iter().copied().collect();
        det.set_lock_count_fn(move |t| m.get(&t).copied().unwrap_or(0) as usize);
    }
    let mut nodes: Vec<u64> = vec![];
    for (i, (w, h, p)) in gi.edges.iter().enumerate() {
        verif_clock::set(Some(T0 + i as u64));
        det.graph().add_wait(*w, *h, p.map(|x| x as u32));
        nodes.push(*w);
        nodes.push(*h);
    }
    nodes.sort();
    nodes.dedup();
    let g = det.graph();
    let rec: Vec<String> = nodes
        .iter()
        .map(|x| {
            let mut v: Vec<u64> = g.waiting_for(*x).into_iter().collect();
            v.sort();
            format!("({x}, {})", ln(&v))
        })
        .collect();
    let ws: Vec<String> = nodes.iter().filter_map(|x| g.get_wait_start(*x).map(|t| format!("({x}, {t})"))).collect();
    let pr: Vec<String> = nodes.iter().filter_map(|x| g.get_priority(*x).map(|t| format!("({x}, {t})"))).collect();
    verif_clock::set(Some(T0 + gi.edges.len() as u64 + gi.delay));
    let cycles = g.detect_cycles();
    let infos = det.detect();
    // the detection round only observes: the recorded relations afterwards
    let rec_after: Vec<String> = nodes
        .iter()
        .map(|x| {
            let mut v: Vec<u64> = g.waiting_for(*x).into_iter().collect();
            v.sort();
            format!("({x}, {})", ln(&v))
        })
        .collect();
    if gi.delay > 30000 {
        dist.hit("graph.detect_after_edge_ttl");
    }
    let would: Vec<String> = gi.queries.iter().map(|(w, h)| b(g.would_create_cycle(*w, *h))).collect();
    verif_clock::set(None);
    dist.hit(if cycles.is_empty() { "graph.acyclic" } else { "graph.cyclic" });
    dist.hit(&format!("graph.policy.{}", gi.policy));
    dist.add("graph.deadlocks_reported", infos.len() as u64);
    if infos.len() < cycles.len() {
        dist.hit("graph.filtered_or_cascaded");
    }
    let gin = format!(
        "(GIn {} {} (D {} {} {} {}) {} {})",
        list(gi.edges.iter().map(|(w, h, p)| format!("({w}, {h}, {})", on(*p)))),
        gi.maxe,
        b(gi.enabled),
        gi.policy,
        gi.max_cycle,
        gi.cascade,
        opt(gi.locks.as_ref().map(|l| list(l.iter().map(|(t, c)| format!("({t}, {c})"))))),
        list(gi.queries.iter().map(|(w, h)| format!("({w}, {h})")))
    );
    let gout = format!(
        "(GOut {} {} {} {} {} {} {})",
        list(rec),
        list(ws),
        list(pr),
        list(cycles.iter().map(|c| ln(c))),
        list(infos.iter().map(|i| format!("({}, {})", ln(&i.cycle), i.victim_tx_id))),
        list(would),
        list(rec_after)
    );
    (format!("({gin}, {gout})"), format!("{gi:?}"), !cycles.is_empty())
}

fn gen_graph(r: &mut Rng, nn: u64, ne: usize) -> GraphIn {
    let edges = (0..ne)
        .map(|_| (r.range(1, nn), r.range(1, nn), if r.chance(1, 3) { Some(r.below(4)) } else { None }))
        .collect();
    let policy = r.below(4);
    GraphIn {
        edges,
        maxe: *r.pick(&[0u64, 0, 50, 2, 1]),
        enabled: !r.chance(1, 20),
        policy,
        max_cycle: *r.pick(&[100u64, 100, 3, 2, 1, 0]),
        cascade: *r.pick(&[3u64, 3, 0, 1]),
        locks: if policy == 3 && r.chance(2, 3) { Some((1..=nn).map(|t| (t, r.below(4))).collect()) } else { None },
        queries: (0..3).map(|_| (r.range(1, nn), r.range(1, nn))).collect(),
        delay: *r.pick(&[0u64, 0, 1, 29999, 30001, 100000]),
    }
}

/// every directed graph on nodes 1..=nn (no self loops), edges inserted in index order
fn all_graphs(nn: u64) -> Vec<Vec<(u64, u64, Option<u64>)>> {
    let mut pairs = vec![];
    for a in 1..=nn {
        for b in 1..=nn {
            if a != b {
                pairs.push((a, b));
            }
        }
    }
    (0u64..(1 << pairs.len()))
        .map(|mask| pairs.iter().enumerate().filter(|(i, _)| mask >> i & 1 == 1).map(|(_, (a, b))| (*a, *b, None)).collect())
        .collect()
}

// ------------------------------------------------------------------------------------ stress kind
/// returns (iterations, grants, violations)
fn stress(seed: u64, threads: u64, iters: u64, kk: u64) -> (u64, u64, Vec<String>) {
    verif_clock::set(None);
    let lm = Arc::new(LockManager::new());
    let g = Arc::new(WaitForGraph::new());
    let cells: Arc<Vec<AtomicU64>> = Arc::new((0..kk).map(|_| AtomicU64::new(0)).collect());
    let grants = Arc::new(AtomicU64::new(0));
    let errs: Arc<std::sync::Mutex<Vec<String>>> = Arc::default();
    let mut hs = vec![];
    for th in 0..threads {
        let (lm, g, cells, grants, errs) = (lm.clone(), g.clone(), cells.clone(), grants.clone(), errs.clone());
        let mut r = Rng::new(seed ^ (th + 1).wrapping_mul(0x1234_5678_9ABC));
        hs.push(std::thread::spawn(move || {
            for it in 0..iters {
                let tx = (th + 1) * 1_000_000 + it;
                let cnt = r.range(1, 3);
                let mut ks: Vec<u64> = (0..cnt).map(|_| r.below(kk)).collect();
                ks.sort();
                ks.dedup();
                let names: Vec<String> = ks.iter().map(|k| key(*k)).collect();
                let tracked = r.chance(1, 2);
                let got = if tracked { lm.try_lock_with_wait_tracking(tx, &names, &g, None).ok() } else { lm.try_lock(tx, &names).ok() };
                match got {
                    Some(h) => {
                        grants.fetch_add(1, Ordering::Relaxed);
                        for k in &ks {
                            if let Err(other) = cells[*k as usize].compare_exchange(0, tx, Ordering::SeqCst, Ordering::SeqCst) {
                                errs.lock().unwrap().push(format!("key k{k} granted to tx {tx} while tx {other} still holds it"));
                            }
                        }
                        for _ in 0..r.below(50) {
                            std::hint::spin_loop();
                        }
                        for k in &ks {
                            if lm.lock_holder(&key(*k)) != Some(tx) {
                                errs.lock().unwrap().push(format!("tx {tx} holds k{k} but lock_holder disagrees"));
                            }
                            cells[*k as usize].store(0, Ordering::SeqCst);
                        }
                        match r.below(3) {
                            0 => lm.release(tx),
                            1 => lm.release_by_handle(h),
                            _ => lm.release_by_handle_with_wait_cleanup(h, &g),
                        }
                        g.remove_transaction(tx);
                    }
                    None => {
                        // aborted: what the coordinator does for a refused transaction
                        g.remove_transaction(tx);
                    }
                }
            }
        }));
    }
    for h in hs {
        let _ = h.join();
    }
    let mut v = errs.lock().unwrap().clone();
    if lm.active_lock_count() != 0 {
        v.push(format!("{} locks left after every transaction released", lm.active_lock_count()));
    }
    (threads * iters, grants.load(Ordering::Relaxed), v)
}

// ------------------------------------------------------------------------------------ sched kind
/// Two threads under a forced schedule (guarded hook `verif_sched`, point "wait_graph.add_wait"):
/// B = handle_prepare(T2) on a key T1 holds; at the moment B is about to record "T2 waits for T1" the finisher
/// A (abort / commit / cleanup_timeouts of T1) is released and B waits up to `grace` for it to complete.
/// On the real code B still holds both lock-table guards there, so A blocks until B is done and then erases T1
/// (and the fresh edge) from the graph.  If the edge were recorded after the lock table is released, A would run
/// to completion inside the window and B would leave a permanent edge to the finished T1.
/// Oracle (implementation only): after both calls returned T1 holds no lock and appears nowhere in the graph.
fn sched_case(finisher: u64, extra_keys: u64, grace_ms: u64) -> (String, Vec<String>) {
    use std::sync::mpsc;
    let cfg = DistributedTxConfig { prepare_timeout_ms: 5000, optimistic_locking: false, ..DistributedTxConfig::default() };
    verif_clock::set(Some(T0));
    let c = Arc::new(DistributedTxCoordinator::new(ConsensusManager::new(ConsensusConfig::default()), cfg));
    let req = |tx: u64, ks: &[String]| PrepareRequest {
        tx_id: tx,
        coordinator: "n0".to_string(),
        operations: ks.iter().map(|k| Transaction::Put { key: k.clone(), data: vec![1] }).collect(),
        delta_embedding: SparseVector::from_dense(&[0.0, 0.0]),
        timeout_ms: 5000,
    };
    // unrelated live holders of f0..fn, also requested by T2 (several blockers)
    let mut t2_keys = vec![key(0)];
    for i in 0..extra_keys {
        let k = format!("f{i}");
        let _ = c.handle_prepare(&req(9000 + i, &[k.clone()]));
        t2_keys.push(k);
    }
    let t1 = c.begin(&"n0".to_string(), &[0]).expect("begin").tx_id;
    let v1 = c.handle_prepare(&req(t1, &[key(0)]));
    let _ = c.record_vote(t1, 0, v1);
    let t2 = u64::MAX - 77;
    if finisher == 2 {
        verif_clock::set(Some(T0 + 5001)); // T1 is past its prepare timeout: cleanup_timeouts will finish it
    }
    let (go_tx, go_rx) = mpsc::channel::<()>();
    let (done_tx, done_rx) = mpsc::channel::<()>();
    let b_thread: Arc<std::sync::Mutex<Option<std::thread::ThreadId>>> = Arc::default();
    let fired = Arc::new(std::sync::atomic::AtomicBool::new(false));
    {
        let (b_thread, fired) = (b_thread.clone(), fired.clone());
        let go_tx = std::sync::Mutex::new(go_tx);
        let done_rx = std::sync::Mutex::new(done_rx);
        verif_sched::set(Some(Arc::new(move |name: &'static str| {
            if name != "wait_graph.add_wait" || *b_thread.lock().unwrap() != Some(std::thread::current().id()) {
                return;
            }
            if fired.swap(true, Ordering::SeqCst) {
                return; // only the first edge of B's request is a schedule point
            }
            let _ = go_tx.lock().unwrap().send(());
            let _ = done_rx.lock().unwrap().recv_timeout(Duration::from_millis(grace_ms));
        })));
    }
    let a = {
        let c = c.clone();
        std::thread::spawn(move || {
            // released by B's schedule point; if B never reaches it (no conflict), run after a while anyway
            let _ = go_rx.recv_timeout(Duration::from_millis(2000));
            match finisher {
                0 => {
                    let _ = c.abort(t1, "sched");
                }
                1 => {
                    let _ = c.commit(t1);
                }
                _ => {
                    let _ = c.cleanup_timeouts();
                }
            }
            let _ = done_tx.send(());
        })
    };
    let b = {
        let (c, b_thread, r) = (c.clone(), b_thread.clone(), req(t2, &t2_keys));
        std::thread::spawn(move || {
            *b_thread.lock().unwrap() = Some(std::thread::current().id());
            c.handle_prepare(&r)
        })
    };
    let v2 = b.join().ok();
    let _ = a.join();
    verif_sched::set(None);
    verif_clock::set(None);
    let mut errs = vec![];
    if !matches!(v2, Some(PrepareVote::Conflict { .. })) {
        errs.push(format!("T2 met a held key but was not refused: {v2:?}"));
    }
    if c.get(t1).is_some() {
        errs.push("T1 is still pending after its commit/abort/timeout".to_string());
    }
    if c.lock_manager().lock_count_for_transaction(t1) != 0 || c.lock_manager().lock_holder(&key(0)) == Some(t1) {
        errs.push("finished T1 still holds a key lock".to_string());
    }
    let g = c.wait_graph();
    if g.waiting_for(t2).contains(&t1) || !g.waiting_on(t1).is_empty() || !g.waiting_for(t1).is_empty() {
        errs.push(format!(
            "finished T1 still appears in the wait-for graph: waiting_for(T2) contains T1 = {}, |waiting_on(T1)| = {}",
            g.waiting_for(t2).contains(&t1),
            g.waiting_on(t1).len()
        ));
    }
    let fin = ["abort(T1)", "commit(T1)", "cleanup_timeouts() with T1 timed out"][finisher as usize];
    (
        format!(
            "schedule: T1 holds k0 (voted Yes); thread B handle_prepare(T2, k0 + {extra_keys} keys of other live holders) runs up to its first add_wait; thread A {fin} is released and given {grace_ms} ms; B continues; then both joined (schedule point reached: {})",
            fired.load(Ordering::SeqCst)
        ),
        errs,
    )
}

// ------------------------------------------------------------------------------------ main
fn main() {
    let args = Args::parse();
    quiet_panics();
    let mut rng = Rng::new(args.seed);
    let mut dist = Dist::default();
    let mut hits = Hits::default();

    // ---- coord: corpus first (DESIGN section 5 F-C12-waitleak, and the duplicated-prepare variant)
    let mut coord = CaseWriter::new(&args.out, "coord");
    let corpus: Vec<(&str, Vec<CoOp>)> = vec![
        (
            "corpus F-C12-waitleak: T1 holds k0; T2 prepare k0 -> Conflict (edge T2->T1); vote -> Aborting; abort(T2)",
            vec![CoOp::Begin(1), CoOp::Begin(1), CoOp::Prepare(1, 0, vec![0]), CoOp::Prepare(2, 0, vec![0]), CoOp::Vote(2, 0), CoOp::Abort(2)],
        ),
        (
            "corpus waitleak by timeout: same, then 5001 ms pass and cleanup_timeouts()",
            vec![CoOp::Begin(1), CoOp::Begin(1), CoOp::Prepare(1, 0, vec![0]), CoOp::Prepare(2, 0, vec![0]), CoOp::Advance(5001), CoOp::Timeouts],
        ),
        (
            "corpus duplicated prepare: T1 prepare k0 twice (second handle never reaches the votes); vote; commit(T1)",
            vec![CoOp::Begin(1), CoOp::Prepare(1, 0, vec![0]), CoOp::Prepare(1, 0, vec![0]), CoOp::Vote(1, 0), CoOp::Vote(1, 1), CoOp::Commit(1)],
        ),
        (
            "corpus duplicated prepare then abort",
            vec![CoOp::Begin(1), CoOp::Prepare(1, 0, vec![0, 1]), CoOp::Prepare(1, 0, vec![0, 1]), CoOp::Vote(1, 0), CoOp::Abort(1)],
        ),
    ];
    for (what, cops) in &corpus {
        let (t, _h, _nt) = coord_case(cops, 2, 2, 5000, &mut dist);
        coord.push(&t, what, true);
    }
    for _ in 0..args.budget(350, 12000) {
        let kk = rng.range(1, 4);
        let tt = rng.range(2, 4);
        let len = rng.range(4, 22) as usize;
        let cops = gen_coord(&mut rng, kk, tt, len);
        let (t, h, nt) = coord_case(&cops, kk, tt, 5000, &mut dist);
        coord.push(&t, &h, nt);
    }

    // ---- lm
    let mut lm = CaseWriter::new(&args.out, "lm");
    {
        // corpus: expiry lets another transaction in; release by a stale handle; re-lock by the same tx
        let ops = vec![
            Op::SetTimeout(50),
            Op::TryLock(1, vec![0, 1]),
            Op::TryLock(2, vec![1]),
            Op::Advance(51),
            Op::TryLock(2, vec![1]),
            Op::Release(1),
            Op::TryLock(1, vec![0]),
            Op::TryLock(1, vec![0]),
            Op::ReleaseHandle(3),
            Op::ReleaseHandle(4),
            Op::SerRestore,
            Op::Cleanup,
        ];
        let (t, h, nt) = lm_case(&ops, 2, 2, 100000, 0, &mut dist);
        lm.push(&t, &h, nt);
    }
    for _ in 0..args.budget(500, 20000) {
        let kk = rng.range(1, 5);
        let tt = rng.range(2, 6);
        let maxe = if rng.chance(1, 6) { rng.range(1, 2) } else { 0 };
        let tmo = *rng.pick(&[100000u64, 100, 50, 0]);
        let len = rng.range(2, 24) as usize;
        let ops = gen_lm_ops(&mut rng, kk, tt, maxe, len);
        let (t, h, nt) = lm_case(&ops, kk, tt, tmo, maxe, &mut dist);
        lm.push(&t, &h, nt);
    }

    // ---- graph: every digraph on <= 3 nodes (quick) / <= 4 nodes (thorough), then random graphs on <= 8
    let mut graph = CaseWriter::new(&args.out, "graph");
    let exhaustive_n = if args.thorough() { 4 } else { 3 };
    for nn in 2..=exhaustive_n {
        for edges in all_graphs(nn) {
            let gi = GraphIn { edges, maxe: 0, enabled: true, policy: rng.below(3), max_cycle: 100, cascade: 3, locks: None, queries: vec![(1, 2), (2, 1)], delay: *rng.pick(&[0u64, 30001]) };
            let (t, h, nt) = graph_case(&gi, &mut dist);
            graph.push(&t, &h, nt);
            dist.hit("graph.exhaustive");
        }
    }
    {
        // a cycle that has been in the graph for longer than edge_ttl_ms (30 s) plus an innocent waiter behind it
        let gi = GraphIn {
            edges: vec![(1, 2, None), (2, 3, None), (3, 1, None), (4, 1, None)],
            maxe: 0, enabled: true, policy: 0, max_cycle: 100, cascade: 3, locks: None, queries: vec![(1, 2), (4, 3)], delay: 30001,
        };
        let (t, _h, _nt) = graph_case(&gi, &mut dist);
        graph.push(&t, "corpus old deadlock: 1->2->3->1 and 4->1 recorded, 30001 ms pass, detect() must still report the cycle and leave the relations alone", true);
        let gi = GraphIn { edges: vec![(1, 2, None), (3, 2, Some(1))], maxe: 0, enabled: true, policy: 1, max_cycle: 100, cascade: 3, locks: None, queries: vec![(2, 1)], delay: 100000 };
        let (t, _h, _nt) = graph_case(&gi, &mut dist);
        graph.push(&t, "corpus old waiters, no cycle: 1->2, 3->2 recorded, 100 s pass, detect() reports nothing and must leave the relations alone", true);
    }
    for _ in 0..args.budget(400, 20000) {
        let nn = rng.range(2, 8);
        let ne = rng.range(0, nn * 2) as usize;
        let gi = gen_graph(&mut rng, nn, ne);
        let (t, h, nt) = graph_case(&gi, &mut dist);
        graph.push(&t, &h, nt);
    }

    // ---- stress (implementation-only)
    let mut st = CaseWriter::new(&args.out, "stress");
    for round in 0..args.budget(6, 60) {
        let threads = 2 + (round as u64 % 5);
        let (iters, grants, errs) = stress(rng.next(), threads, args.budget(300, 3000) as u64, rng.range(2, 5));
        dist.add("stress.requests", iters);
        dist.add("stress.grants", grants);
        st.push(&format!("(* stress round {round}: {threads} threads, {iters} requests, {grants} grants *)"), &format!("stress threads={threads} requests={iters} grants={grants}"), grants > 0 && grants < iters);
        for e in errs.iter().take(3) {
            hits.push("", &format!("stress: {e}"), json!({"kind": "stress", "threads": threads, "what": e}));
        }
    }

    // ---- sched (implementation-only, forced interleavings through the schedule-point hook)
    let mut sc = CaseWriter::new(&args.out, "sched");
    for finisher in 0..3u64 {
        for extra in [0u64, 3] {
            let (what, errs) = sched_case(finisher, extra, 40);
            dist.hit("sched.cases");
            sc.push(&format!("(* {what} *)"), &what, true);
            for e in errs.iter().take(2) {
                hits.push("", &format!("sched: {e}"), json!({"kind": "sched", "schedule": what, "what": e}));
            }
        }
    }

    write_meta(
        &args.out,
        json!({
            "property": "C12", "seed": args.seed, "tier": args.tier,
            "kinds": [coord.summary(), lm.summary(), graph.summary(), st.summary(), sc.summary()],
            "distribution": dist.json(),
            "hits": hits.0,
            "nontrivial_rule": "lm: at least one grant and one refusal; coord: at least one conflict vote and one finished (committed/aborted/timed-out) transaction; graph: the graph has a cycle; stress: some but not all requests granted",
        }),
    );
}
