//! C13 correspondence harness: drives a REAL `DistributedTxCoordinator` with a `TxWal`
//! (begin / record_vote / commit / abort / complete_* / cleanup_timeouts, locks taken in its lock
//! manager), truncates the real log at EVERY byte offset of what each generation appended,
//! restarts (`new(..).with_wal(TxWal::open(..))` + `recover_from_wal`) and observes: recovery
//! statistics, the pending table, the reply of every transaction's natural completion call, and
//! the timeout sweeper after 6 s.  Up to three generations.  Time through the guarded clock hook.
//!
//! kind `gens` : (payload table, T, [generation]) -> NV.C13.Run.check_gens
use nvh_common::*;
use std::collections::BTreeMap;
use std::fs;
use std::path::Path;
use tensor_chain::distributed_tx::verif_clock;
use tensor_store::TensorStore;
use tensor_chain::{
    ConsensusManager, DeltaVector, DistributedTxConfig, DistributedTxCoordinator, PrepareVote, PrepareVoteKind, TxOutcome,
    TxPhase, TxWal, TxWalEntry, VoteRecordError,
};

const NSHARD: u64 = 4;
const GHOST_TX: u64 = 90; // model id of a transaction id that was never begun
const GHOST_REAL: u64 = 0x0BAD_0BAD_0BAD;

#[derive(Clone, Copy, Debug, PartialEq, Eq)]
enum V {
    Yes(u64),
    No,
}
impl V {
    fn coq(&self) -> String {
        match self {
            V::Yes(h) => format!("(VYes {h})"),
            V::No => "VNo".into(),
        }
    }
}
#[derive(Clone, Debug)]
enum Step {
    Begin(u64, Vec<u64>),
    Lock(u64, u64), // (handle id, tx) -- model step `Lock h`
    Vote(u64, u64, V),
    Commit(u64, Vec<u64>),
    Abort(u64),
    CompleteCommit(u64),
    CompleteAbort(u64),
    /// (clock, order in which the sweep logged the timed-out transactions -- filled in from the log)
    Timeouts(u64, Vec<u64>),
    /// a further recover_from_wal() call on the LIVE coordinator
    Recover,
}
impl Step {
    fn coq(&self) -> String {
        match self {
            Step::Begin(t, ps) => format!("XS (Begin {} {})", t, list(ps.iter().map(|p| n(*p)))),
            Step::Lock(h, t) => format!("XS (Lock {h} {t})"),
            Step::Vote(t, s, v) => format!("XS (Vote {} {} {})", t, s, v.coq()),
            Step::Commit(t, o) => format!("XS (Commit {} {})", t, list(o.iter().map(|h| n(*h)))),
            Step::Abort(t) => format!("XS (Abort {t})"),
            Step::CompleteCommit(t) => format!("XS (CompleteCommit {t})"),
            Step::CompleteAbort(t) => format!("XS (CompleteAbort {t})"),
            Step::Timeouts(now, order) => format!("XS (Timeouts {} {})", now, list(order.iter().map(|t| n(*t)))),
            Step::Recover => "XRecover".into(),
        }
    }
}
fn phase_code(p: TxPhase) -> u64 {
    match p {
        TxPhase::Preparing => 0,
        TxPhase::Prepared => 1,
        TxPhase::Committing => 2,
        TxPhase::Committed => 3,
        TxPhase::Aborting => 4,
        TxPhase::Aborted => 5,
        _ => 9,
    }
}
fn phase_of(c: u64) -> TxPhase {
    match c {
        0 => TxPhase::Preparing,
        1 => TxPhase::Prepared,
        2 => TxPhase::Committing,
        3 => TxPhase::Committed,
        4 => TxPhase::Aborting,
        _ => TxPhase::Aborted,
    }
}

/// id maps: real 64-bit transaction ids / lock handles <-> small model ids
#[derive(Default)]
struct Ids {
    tx_real: Vec<u64>,      // model tx id -> real
    handle_real: Vec<u64>,  // model handle id -> real
}
impl Ids {
    fn tx(&self, m: u64) -> u64 {
        // an id that was never begun (or not yet): a real id no begin() will ever produce
        if m == GHOST_TX { GHOST_REAL } else { self.tx_real.get(m as usize).copied().unwrap_or(0x0F00_D000_0000 + m) }
    }
    fn tx_model(&self, real: u64) -> u64 {
        if real == GHOST_REAL {
            return GHOST_TX;
        }
        self.tx_real.iter().position(|x| *x == real).map_or(99, |p| p as u64)
    }
    fn handle(&self, m: u64) -> u64 {
        self.handle_real.get(m as usize).copied().unwrap_or(0xDEAD_0000 + m)
    }
    fn handle_model(&self, real: u64) -> u64 {
        self.handle_real.iter().position(|x| *x == real).map_or(99, |p| p as u64)
    }
}

type TxObs = Option<(u64, Vec<Option<V>>)>;
type CObs = (Vec<TxObs>, u64);
fn observe(c: &DistributedTxCoordinator, ids: &Ids, t: u64) -> CObs {
    let txs = (0..t)
        .map(|m| {
            ids.tx_real.get(m as usize).and_then(|real| c.get(*real)).map(|tx| {
                let vs = (0..NSHARD)
                    .map(|s| {
                        tx.votes.get(&(s as usize)).map(|v| match v {
                            PrepareVote::Yes { lock_handle, .. } => V::Yes(ids.handle_model(*lock_handle)),
                            _ => V::No,
                        })
                    })
                    .collect();
                (phase_code(tx.phase), vs)
            })
        })
        .collect();
    (txs, c.lock_manager().active_lock_count() as u64)
}
fn cobs_coq(o: &CObs) -> String {
    format!(
        "({}, {})",
        list(o.0.iter().map(|t| opt(t.as_ref().map(|(p, vs)| format!("({}, {})", p, list(vs.iter().map(|v| opt(v.map(|x| x.coq()))))))))),
        o.1
    )
}

fn entry_coq(e: &TxWalEntry, ids: &Ids) -> String {
    match e {
        TxWalEntry::TxBegin { tx_id, participants } => format!("TBegin {} {}", ids.tx_model(*tx_id), list(participants.iter().map(|p| n(*p as u64)))),
        TxWalEntry::PrepareVote { tx_id, shard, vote } => format!(
            "TVote {} {} {}",
            ids.tx_model(*tx_id),
            shard,
            match vote {
                PrepareVoteKind::Yes { lock_handle } => V::Yes(ids.handle_model(*lock_handle)).coq(),
                _ => V::No.coq(),
            }
        ),
        TxWalEntry::PhaseChange { tx_id, from, to } => format!("TPhase {} {} {}", ids.tx_model(*tx_id), phase_code(*from), phase_code(*to)),
        TxWalEntry::TxComplete { tx_id, outcome } => format!("TComplete {} {}", ids.tx_model(*tx_id), b(matches!(outcome, TxOutcome::Committed))),
        TxWalEntry::LockRelease { tx_id, lock_handle } => format!("TLockRelease {} {}", ids.tx_model(*tx_id), ids.handle_model(*lock_handle)),
        TxWalEntry::AllLocksReleased { tx_id } => format!("TAllReleased {}", ids.tx_model(*tx_id)),
        TxWalEntry::AbortIntent { tx_id, shards, .. } => format!("TAbortIntent {} 0 {}", ids.tx_model(*tx_id), list(shards.iter().map(|p| n(*p as u64)))),
        _ => "TAllReleased 98".into(),
    }
}

/// every record the steps of this case can write (built from the step list and the id maps,
/// NOT from the log file), with its real payload bytes
fn table(ids: &Ids, all_steps: &[Step]) -> String {
    let mut rows = vec![];
    let mut seen = std::collections::BTreeSet::new();
    let mut push = |e: TxWalEntry, rows: &mut Vec<String>| {
        let term = entry_coq(&e, ids);
        if seen.insert(term.clone()) {
            rows.push(format!("({}, {})", term, bytes(&bitcode::serialize(&e).unwrap())));
        }
    };
    let mut handles_of: BTreeMap<u64, Vec<u64>> = BTreeMap::new();
    for s in all_steps {
        match s {
            Step::Begin(t, ps) => push(TxWalEntry::TxBegin { tx_id: ids.tx(*t), participants: ps.iter().map(|p| *p as usize).collect() }, &mut rows),
            Step::Vote(t, sh, v) => {
                let vote = match v {
                    V::Yes(h) => {
                        handles_of.entry(*t).or_default().push(*h);
                        PrepareVoteKind::Yes { lock_handle: ids.handle(*h) }
                    }
                    V::No => PrepareVoteKind::No,
                };
                push(TxWalEntry::PrepareVote { tx_id: ids.tx(*t), shard: *sh as usize, vote }, &mut rows);
            }
            _ => {}
        }
    }
    let mut txs: Vec<u64> = (0..ids.tx_real.len() as u64).collect();
    txs.push(GHOST_TX);
    for t in txs {
        let real = ids.tx(t);
        push(TxWalEntry::PhaseChange { tx_id: real, from: TxPhase::Preparing, to: TxPhase::Prepared }, &mut rows);
        push(TxWalEntry::PhaseChange { tx_id: real, from: TxPhase::Prepared, to: TxPhase::Committing }, &mut rows);
        for from in [0u64, 1, 2, 4] {
            push(TxWalEntry::PhaseChange { tx_id: real, from: phase_of(from), to: TxPhase::Aborting }, &mut rows);
        }
        push(TxWalEntry::TxComplete { tx_id: real, outcome: TxOutcome::Committed }, &mut rows);
        push(TxWalEntry::TxComplete { tx_id: real, outcome: TxOutcome::Aborted }, &mut rows);
        push(TxWalEntry::AllLocksReleased { tx_id: real }, &mut rows);
        for h in handles_of.get(&t).cloned().unwrap_or_default() {
            push(TxWalEntry::LockRelease { tx_id: real, lock_handle: ids.handle(h) }, &mut rows);
        }
    }
    list(rows)
}

/// frames of a log file: (end offset, decoded entry) using the REAL deserializer
fn parse(bytes_: &[u8]) -> Vec<(u64, TxWalEntry)> {
    let mut out = vec![];
    let mut pos = 0usize;
    while pos + 8 <= bytes_.len() {
        let l = u32::from_le_bytes([bytes_[pos], bytes_[pos + 1], bytes_[pos + 2], bytes_[pos + 3]]) as usize;
        if pos + 8 + l > bytes_.len() {
            break;
        }
        match bitcode::deserialize::<TxWalEntry>(&bytes_[pos + 8..pos + 8 + l]) {
            Ok(e) => out.push(((pos + 8 + l) as u64, e)),
            Err(_) => break,
        }
        pos += 8 + l;
    }
    out
}

fn open(path: &Path) -> std::io::Result<DistributedTxCoordinator> {
    let wal = TxWal::open(path)?;
    Ok(DistributedTxCoordinator::new(ConsensusManager::default_config(), DistributedTxConfig::default()).with_wal(wal))
}
fn yes(real_handle: u64) -> PrepareVote {
    PrepareVote::Yes { lock_handle: real_handle, delta: DeltaVector::zero(0) }
}
fn res_code(r: &tensor_chain::Result<()>) -> Vec<u64> {
    match r {
        Ok(()) => vec![0],
        Err(e) => {
            let m = e.to_string();
            if m.contains("not found") { vec![1, 1] } else { vec![1, 2] }
        }
    }
}

/// apply one step to the real coordinator; fills in ids; returns the reply
fn apply(c: &DistributedTxCoordinator, s: &mut Step, ids: &mut Ids, wal: &Path, clock: &mut u64) -> Vec<u64> {
    match s {
        Step::Begin(t, ps) => {
            let parts: Vec<usize> = ps.iter().map(|p| *p as usize).collect();
            match c.begin(&"coord".to_string(), &parts) {
                Ok(tx) => {
                    assert_eq!(*t as usize, ids.tx_real.len());
                    ids.tx_real.push(tx.tx_id);
                    vec![0]
                }
                Err(_) => vec![1, 9],
            }
        }
        Step::Lock(h, t) => {
            assert_eq!(*h as usize, ids.handle_real.len());
            let real = c.lock_manager().try_lock(ids.tx(*t), &[format!("key-{h}")]).unwrap_or(0xDEAD_BEEF);
            ids.handle_real.push(real);
            vec![0]
        }
        Step::Vote(t, sh, v) => {
            let vote = match v {
                V::Yes(h) => yes(ids.handle(*h)),
                V::No => PrepareVote::No { reason: "no".into() },
            };
            match c.record_vote(ids.tx(*t), *sh as usize, vote) {
                Ok(None) => vec![2, 0],
                Ok(Some(p)) => vec![2, phase_code(p)],
                Err(VoteRecordError::TxNotFound(_)) => vec![1, 1],
                Err(VoteRecordError::WrongPhase { .. }) => vec![1, 2],
                Err(VoteRecordError::DuplicateVote { .. }) => vec![1, 3],
                #[allow(unreachable_patterns)]
                Err(_) => vec![1, 8],
            }
        }
        Step::Commit(t, order) => {
            let before = fs::metadata(wal).map(|m| m.len()).unwrap_or(0) as usize;
            let r = c.commit(ids.tx(*t));
            // the order in which the lock releases were logged (HashMap iteration order) is an input
            let after = fs::read(wal).unwrap_or_default();
            *order = parse(&after[before.min(after.len())..])
                .into_iter()
                .filter_map(|(_, e)| match e {
                    TxWalEntry::LockRelease { lock_handle, .. } => Some(ids.handle_model(lock_handle)),
                    _ => None,
                })
                .collect();
            res_code(&r)
        }
        Step::Abort(t) => res_code(&c.abort(ids.tx(*t), "harness")),
        Step::CompleteCommit(t) => res_code(&c.complete_commit(ids.tx(*t))),
        Step::CompleteAbort(t) => res_code(&c.complete_abort(ids.tx(*t))),
        Step::Timeouts(now, order) => {
            *clock = *now;
            verif_clock::set(Some(*clock));
            let before = fs::metadata(wal).map(|m| m.len()).unwrap_or(0) as usize;
            let mut out: Vec<u64> = c.cleanup_timeouts().into_iter().map(|r| ids.tx_model(r)).collect();
            // the order in which the sweep logged its aborts (HashMap iteration order) is an input
            let after = fs::read(wal).unwrap_or_default();
            *order = parse(&after[before.min(after.len())..])
                .into_iter()
                .filter_map(|(_, e)| match e {
                    TxWalEntry::TxComplete { tx_id, .. } => Some(ids.tx_model(tx_id)),
                    _ => None,
                })
                .collect();
            out.sort_unstable();
            let mut v = vec![3];
            v.extend(out);
            v
        }
        Step::Recover => match c.recover_from_wal() {
            Ok(st) => vec![4, st.pending_prepare as u64, st.pending_commit as u64, st.pending_abort as u64, st.lock_releases_recovered as u64],
            Err(_) => vec![1, 7],
        },
    }
}

type RObs = (Vec<u64>, CObs, Vec<Vec<u64>>, CObs, Vec<u64>);
fn robs_coq(o: &RObs) -> String {
    format!(
        "({}, {}, {}, {}, {})",
        list(o.0.iter().map(|x| n(*x))),
        cobs_coq(&o.1),
        list(o.2.iter().map(|r| list(r.iter().map(|x| n(*x))))),
        cobs_coq(&o.3),
        list(o.4.iter().map(|x| n(*x)))
    )
}
type AObs = (Vec<u64>, CObs, Vec<Vec<u64>>, CObs);
/// instance A (clock must already be `now`): recover, observe, drive every transaction to its
/// natural completion, observe again
fn inst_a(path: &Path, prefix: &[u8], ids: &Ids, t: u64) -> Option<AObs> {
    fs::write(path, prefix).unwrap();
    let a = open(path).ok()?;
    let st = a.recover_from_wal().ok()?;
    let stats = vec![st.pending_prepare as u64, st.pending_commit as u64, st.pending_abort as u64, st.lock_releases_recovered as u64];
    let o0 = observe(&a, ids, t);
    let mut probes = vec![];
    for m in 0..t {
        let real = ids.tx(m);
        let r = match a.get(real).map(|x| x.phase) {
            Some(TxPhase::Prepared) => res_code(&a.commit(real)),
            Some(TxPhase::Committing) => res_code(&a.complete_commit(real)),
            Some(_) => {
                // an abort that has begun is never turned into a commit: commit is refused, the abort completes
                let mut r = res_code(&a.commit(real));
                r.extend(res_code(&a.complete_abort(real)));
                r
            }
            None => {
                let mut r = res_code(&a.commit(real));
                r.extend(res_code(&a.abort(real, "probe")));
                r
            }
        };
        probes.push(r);
    }
    let o1 = observe(&a, ids, t);
    Some((stats, o0, probes, o1))
}
/// instance B, first half (clock = now): recover only
fn inst_b(path: &Path, prefix: &[u8]) -> Option<DistributedTxCoordinator> {
    fs::write(path, prefix).unwrap();
    let bco = open(path).ok()?;
    bco.recover_from_wal().ok()?;
    Some(bco)
}

/// a restart from an older SNAPSHOT of the coordinator (save_to_store at a step boundary) with the
/// log attached: statistics of recover_from_wal, the pending table, the handles whose key is locked
type SObs = (Vec<u64>, CObs, Vec<u64>);
fn sobs_coq(o: &SObs) -> String {
    format!("({}, {}, {})", list(o.0.iter().map(|x| n(*x))), cobs_coq(&o.1), list(o.2.iter().map(|x| n(*x))))
}
fn inst_c(path: &Path, prefix: &[u8], snap: &TensorStore, ids: &Ids, t: u64) -> Option<SObs> {
    fs::write(path, prefix).unwrap();
    let wal = TxWal::open(path).ok()?;
    let c = DistributedTxCoordinator::load_from_store("n", snap, ConsensusManager::default_config(), DistributedTxConfig::default()).ok()?.with_wal(wal);
    let st = c.recover_from_wal().ok()?;
    let stats = vec![st.pending_prepare as u64, st.pending_commit as u64, st.pending_abort as u64, st.lock_releases_recovered as u64];
    let locked: Vec<u64> = (0..ids.handle_real.len() as u64).filter(|h| c.lock_manager().is_locked(&format!("key-{h}"))).collect();
    Some((stats, observe(&c, ids, t), locked))
}

/// restart at every offset of `offsets`; three phases so that the process-global clock hook has
/// one value per phase while the restarts themselves run on several threads
#[allow(clippy::too_many_arguments, clippy::type_complexity)]
fn restart_all(scratch: &Path, fbytes: &[u8], offsets: &[u64], ids: &Ids, t: u64, now: u64, ends: &[u64], snaps: &[TensorStore]) -> (Vec<(u64, Option<RObs>)>, Vec<(u64, u64, Option<SObs>)>) {
    let nthreads = 12usize.min(offsets.len().max(1));
    let chunk = ((offsets.len() + nthreads - 1) / nthreads.max(1)).max(1);
    verif_clock::set(Some(now));
    let mut av: Vec<(u64, Option<AObs>)> = vec![];
    let mut bv: Vec<(u64, Option<DistributedTxCoordinator>)> = vec![];
    let mut cv: Vec<(u64, u64, Option<SObs>)> = vec![];
    std::thread::scope(|sc| {
        let mut hs = vec![];
        for (ti, part) in offsets.chunks(chunk).enumerate() {
            let path = scratch.with_extension(format!("a{ti}"));
            let pathb = scratch.with_extension(format!("b{ti}"));
            hs.push(sc.spawn(move || {
                let mut oa = vec![];
                let mut ob = vec![];
                let mut oc = vec![];
                for &k in part {
                    oa.push((k, inst_a(&path, &fbytes[..k as usize], ids, t)));
                    // instance C: the snapshot saved at the last step boundary before the crash and the
                    // one before it (a snapshot is saved now and then, the log is written at once)
                    let a = ends.iter().filter(|e| **e <= k).count();
                    oc.push((k, a as u64, inst_c(&path, &fbytes[..k as usize], &snaps[a], ids, t)));
                    if a >= 1 {
                        oc.push((k, a as u64 - 1, inst_c(&path, &fbytes[..k as usize], &snaps[a - 1], ids, t)));
                    }
                    // one file per B instance: they stay open until the sweep
                    let pb = pathb.with_extension(format!("b{ti}-{k}"));
                    ob.push((k, inst_b(&pb, &fbytes[..k as usize]), pb));
                }
                let _ = fs::remove_file(&path);
                (oa, ob, oc)
            }));
        }
        for h in hs {
            let (oa, ob, oc) = h.join().unwrap();
            av.extend(oa);
            cv.extend(oc);
            for (k, c, pb) in ob {
                let _ = fs::remove_file(&pb);
                bv.push((k, c));
            }
        }
    });
    // the timeout sweeper 6 s later (it writes nothing to the log)
    verif_clock::set(Some(now + 6000));
    let mut touts: BTreeMap<u64, Option<Vec<u64>>> = BTreeMap::new();
    for (k, c) in bv {
        touts.insert(k, c.map(|c| {
            let mut v: Vec<u64> = c.cleanup_timeouts().into_iter().map(|r| ids.tx_model(r)).collect();
            v.sort_unstable();
            v
        }));
    }
    verif_clock::set(Some(now));
    av.sort_by_key(|x| x.0);
    cv.sort_by_key(|x| (x.1, x.0));
    let rv = av
        .into_iter()
        .map(|(k, a)| {
            let ro = match (a, touts.remove(&k).flatten()) {
                (Some((stats, o0, probes, o1)), Some(tv)) => Some((stats, o0, probes, o1, tv)),
                _ => None,
            };
            (k, ro)
        })
        .collect();
    (rv, cv)
}

/// the oracle of Run.v on one crash point, only to label the evidence
fn oracle_label(recs: &[(u64, TxWalEntry)], ids: &Ids, k: u64, ro: &Option<RObs>, t: u64) -> Option<String> {
    let Some((_, (o0, locks0), probes, (o1, _), touts)) = ro else { return Some("recovery FAILED".into()) };
    if *locks0 != 0 {
        return Some(format!("{locks0} keys still locked after recovery"));
    }
    let surv: Vec<&TxWalEntry> = recs.iter().filter(|(e, _)| *e <= k).map(|(_, e)| e).collect();
    for m in 0..t {
        let real = ids.tx(m);
        let complete = surv.iter().any(|e| matches!(e, TxWalEntry::TxComplete { tx_id, .. } if *tx_id == real));
        let begun = surv.iter().any(|e| matches!(e, TxWalEntry::TxBegin { tx_id, .. } if *tx_id == real));
        let last_phase = surv.iter().rev().find_map(|e| match e {
            TxWalEntry::PhaseChange { tx_id, to, .. } if *tx_id == real => Some(*to),
            _ => None,
        });
        let here = &o0[m as usize];
        let pr = &probes[m as usize];
        if complete {
            if here.is_some() || !(pr.len() == 4 && pr[0] == 1 && pr[2] == 1) || touts.contains(&m) {
                return Some(format!("tx {m} has a logged outcome but came back (pending {here:?}, commit/abort replies {pr:?}, timed out {})", touts.contains(&m)));
            }
        } else if let Some(lp) = last_phase {
            // the last logged decision (Prepared / Committing / Aborting) is what comes back
            match here {
                None => return Some(format!("tx {m}: last logged phase {lp:?}, no outcome logged, but it did not come back")),
                Some((ph, _)) => {
                    if *ph != phase_code(lp) {
                        return Some(format!("tx {m}: last logged phase {lp:?} but it came back in phase {ph}"));
                    }
                    let want: Vec<u64> = if lp == TxPhase::Aborting { vec![1, 2, 0] } else { vec![0] };
                    if *pr != want || o1[m as usize].is_some() {
                        return Some(format!("tx {m} came back ({lp:?}) but could not be completed as decided: replies {pr:?}"));
                    }
                }
            }
        } else if begun && here.is_some() {
            return Some(format!("tx {m} was still collecting votes (no phase record) but came back: {here:?}"));
        }
    }
    None
}

/// the live part of the oracle (Run.v live_oracle), only to label the evidence: the timeout sweep
/// logs the abort of every id it reports before it returns; no completion call succeeds on a
/// transaction whose outcome is already in the log
fn live_label(recs: &[(u64, TxWalEntry)], ids: &Ids, steps: &[Step], outs: &[Vec<u64>], ends: &[u64], base: u64) -> Option<String> {
    let mut prev = base;
    for (i, s) in steps.iter().enumerate() {
        let done = |upto: u64, m: u64, aborted_only: bool| {
            let real = ids.tx(m);
            recs.iter().any(|(e, x)| *e <= upto && matches!(x, TxWalEntry::TxComplete { tx_id, outcome } if *tx_id == real && (!aborted_only || *outcome == TxOutcome::Aborted)))
        };
        match s {
            Step::Timeouts(..) => {
                for m in outs[i].iter().skip(1) {
                    if !done(ends[i], *m, true) {
                        return Some(format!("step {i}: cleanup_timeouts reported tx {m} (abort queued for broadcast, locks released) but its log has no TxComplete{{Aborted}} for it"));
                    }
                }
            }
            Step::Commit(m, _) | Step::Abort(m) | Step::CompleteCommit(m) | Step::CompleteAbort(m) => {
                if outs[i] == vec![0] && done(prev, *m, false) {
                    return Some(format!("step {i}: {s:?} returned Ok although the log already holds an outcome for tx {m}"));
                }
            }
            _ => {}
        }
        prev = ends[i];
    }
    None
}

struct GenOut {
    term: String,
    human: String,
    fail: Option<String>,
}
/// (length after open, final length, end offset after each step, (end offset, target phase) of every
/// PhaseChange record this generation appended) -> the crash point the next generation continues from
type Pick = Box<dyn FnMut(u64, u64, &[u64], &[(u64, u64)]) -> u64>;

#[allow(clippy::too_many_arguments)]
fn run_generation(c: DistributedTxCoordinator, wal: &Path, scratch: &Path, steps: &mut [Step], ids: &mut Ids, t: u64, clock: &mut u64, pick: &mut Pick, dist: &mut Dist, owners: &[(u64, u64)]) -> (GenOut, Vec<u8>, u64, Vec<(CObs, Vec<Step>)>) {
    let now0 = *clock;
    let base = fs::metadata(wal).map(|m| m.len()).unwrap_or(0);
    let mut lives = vec![observe(&c, ids, t)];
    let mut outs = vec![];
    let mut ends = vec![];
    // a snapshot of the coordinator (pending table + lock table) at every step boundary
    let save = |c: &DistributedTxCoordinator| {
        let st = TensorStore::new();
        let _ = c.save_to_store("n", &st);
        st
    };
    let mut snaps: Vec<TensorStore> = vec![save(&c)];
    for s in steps.iter_mut() {
        dist.hit(&format!("step.{}", format!("{s:?}").split('(').next().unwrap_or("?")));
        let out = apply(&c, s, ids, wal, clock);
        dist.hit(&format!("reply.{:?}", out.iter().take(2).collect::<Vec<_>>()));
        outs.push(out);
        lives.push(observe(&c, ids, t));
        ends.push(fs::metadata(wal).map(|m| m.len()).unwrap_or(0));
        snaps.push(save(&c));
    }
    drop(c);
    let fbytes = fs::read(wal).unwrap_or_default();
    let len = fbytes.len() as u64;
    let recs = parse(&fbytes);
    let mut runs: Vec<(u64, u64, u64, Option<RObs>)> = vec![];
    let mut fail = None;
    let offsets: Vec<u64> = (base..=len).collect();
    let (rv, cv) = restart_all(scratch, &fbytes, &offsets, ids, t, *clock, &ends, &snaps);
    // snapshot restarts: the oracle of Run.v (oracle_snap) only to label the evidence
    let mut sruns: Vec<(u64, u64, u64, u64, Option<SObs>)> = vec![];
    let mut sfail: Option<String> = None;
    for (k, b_, so) in cv {
        if sfail.is_none() {
            match &so {
                None => sfail = Some(format!("crash at byte {k} of {len}, coordinator loaded from the snapshot saved after {b_} steps: recovery FAILED")),
                Some((_, (o0, _), locked)) => {
                    for m in 0..t {
                        let real = ids.tx(m);
                        let complete = recs.iter().any(|(e, x)| *e <= k && matches!(x, TxWalEntry::TxComplete { tx_id, .. } if *tx_id == real));
                        if complete {
                            let held: Vec<u64> = owners.iter().filter(|(h, o)| *o == m && locked.contains(h)).map(|(h, _)| *h).collect();
                            if o0[m as usize].is_some() || !held.is_empty() {
                                sfail = Some(format!(
                                    "crash at byte {k} of {len}, coordinator loaded from the snapshot saved after {b_} steps, then recover_from_wal: tx {m} has a logged outcome but is pending {:?} and its lock handles {:?} are still locked",
                                    o0[m as usize], held
                                ));
                                break;
                            }
                        }
                    }
                }
            }
        }
        match sruns.last_mut() {
            Some((from, to, step, bb, o)) if *bb == b_ && *o == so && (*from == *to || k - *to == *step) => {
                *step = k - *to;
                *to = k;
            }
            _ => sruns.push((k, k, 1, b_, so)),
        }
    }
    for (k, ro) in rv {
        if fail.is_none() {
            if let Some(f) = oracle_label(&recs, ids, k, &ro, t) {
                fail = Some(format!("crash at byte {k} of {len}: {f}"));
            }
        }
        dist.hit(if ro.is_some() { "restart.ok" } else { "restart.err" });
        match runs.last_mut() {
            Some((from, to, step, o)) if *o == ro && (*from == *to || k - *to == *step) => {
                *step = k - *to;
                *to = k;
            }
            _ => runs.push((k, k, 1, ro)),
        }
    }
    let _ = fs::remove_file(scratch);
    if fail.is_none() {
        fail = live_label(&recs, ids, steps, &outs, &ends, base);
    }
    if fail.is_none() {
        // a recovery call on the live coordinator keeps every pending transaction as it is
        for (i, st) in steps.iter().enumerate() {
            if matches!(st, Step::Recover) && outs[i].first() == Some(&4) {
                for m in 0..t as usize {
                    if lives[i].0[m].is_some() && lives[i + 1].0[m] != lives[i].0[m] {
                        fail = Some(format!("step {i}: recover_from_wal() on the live coordinator changed pending tx {m} from {:?} to {:?}", lives[i].0[m], lives[i + 1].0[m]));
                    }
                }
            }
        }
    }
    if fail.is_none() {
        fail = sfail;
    }
    let phase_ends: Vec<(u64, u64)> = recs
        .iter()
        .filter(|(e, _)| *e > base)
        .filter_map(|(e, x)| match x {
            TxWalEntry::PhaseChange { to, .. } => Some((*e, phase_code(*to))),
            _ => None,
        })
        .collect();
    let chosen = pick(base, len, &ends, &phase_ends);
    let term = format!(
        "({}, {}, {}, {}, {}, {}, {}, {}, {}, {}, {})",
        now0,
        list(steps.iter().map(|s| s.coq())),
        list(outs.iter().map(|o| list(o.iter().map(|x| n(*x))))),
        list(lives.iter().map(cobs_coq)),
        list(ends.iter().map(|e| n(*e))),
        base,
        bytes(&fbytes),
        list(recs.iter().map(|(e, x)| format!("({}, {})", e, entry_coq(x, ids)))),
        list(runs.iter().map(|(a, z, st, o)| format!("({}, {}, {}, {})", a, z, st, opt(o.as_ref().map(robs_coq))))),
        chosen,
        list(sruns.iter().map(|(a, z, st, bb, o)| format!("({}, {}, {}, {}, {})", a, z, st, bb, opt(o.as_ref().map(sobs_coq)))))
    );
    let human = format!("clock={} steps={:?} replies={:?} base={} len={} chosen_crash={} final_pending={:?}", now0, steps, outs, base, len, chosen, lives.last().unwrap());
    (GenOut { term, human, fail }, fbytes, chosen, vec![])
}

fn pick_end() -> Pick {
    Box::new(|_b, len, _e, _p| len)
}
fn pick_back(back: u64) -> Pick {
    Box::new(move |b, len, _e, _p| len.saturating_sub(back).max(b))
}
/// inside the one-record window behind the first PhaseChange record to `to` (extra bytes of the next
/// record survive as a torn tail); the end of the log when there is no such record
fn pick_window(to: u64, extra: u64) -> Pick {
    Box::new(move |_b, len, _e, p| p.iter().find(|(_, t)| *t == to).map_or(len, |(e, _)| (*e + extra).min(len)))
}
fn pick_random(mut r: Rng) -> Pick {
    Box::new(move |b, len, ends, phases| {
        if len == b {
            return len;
        }
        // half of the time, when a decision was logged: inside the window right behind its phase record
        if !phases.is_empty() && r.chance(1, 2) {
            let (e, _) = *r.pick(phases);
            return (e + r.below(9)).min(len).max(b);
        }
        match r.below(4) {
            0 => len,
            1 => r.range(b, len),
            2 => {
                let e = if ends.is_empty() { b } else { *r.pick(ends) };
                (e + r.below(9)).min(len).max(b)
            }
            _ => len - 1 - r.below((len - b).min(6)),
        }
    })
}

struct Ctx<'a> {
    args: &'a Args,
    dist: Dist,
    w: CaseWriter,
    counter: usize,
}

/// gens: per generation the steps (tx / handle ids are pre-assigned in order of Begin / Lock)
fn run_case(cx: &mut Ctx, label: &str, mut gens: Vec<Vec<Step>>, mut picks: Vec<Pick>, clock_gaps: Vec<u64>) {
    cx.counter += 1;
    let dir = cx.args.out.join("scratch");
    fs::create_dir_all(&dir).unwrap();
    let wal = dir.join(format!("c{}.wal", cx.counter));
    let scratch = dir.join(format!("crash{}.wal", cx.counter));
    let _ = fs::remove_file(&wal);
    let t = gens.iter().flatten().filter(|s| matches!(s, Step::Begin(..))).count() as u64;
    let mut ids = Ids::default();
    // (lock handle, transaction) of every lock taken in the case
    let owners: Vec<(u64, u64)> = gens.iter().flatten().filter_map(|s| if let Step::Lock(h, tx) = s { Some((*h, *tx)) } else { None }).collect();
    let mut clock: u64 = 1_000_000;
    let mut terms = vec![];
    let mut humans = vec![];
    let mut fail: Option<String> = None;
    for gi in 0..gens.len() {
        clock += clock_gaps.get(gi).copied().unwrap_or(0);
        verif_clock::set(Some(clock));
        let c = match open(&wal) {
            Ok(c) => c,
            Err(e) => {
                humans.push(format!("gen{}: cannot open: {e}", gi + 1));
                break;
            }
        };
        if gi > 0 && c.recover_from_wal().is_err() {
            humans.push(format!("gen{}: recover_from_wal failed", gi + 1));
            break;
        }
        let (out, fbytes, chosen, _) = run_generation(c, &wal, &scratch, &mut gens[gi], &mut ids, t, &mut clock, &mut picks[gi], &mut cx.dist, &owners);
        if fail.is_none() {
            if let Some(f) = &out.fail {
                fail = Some(format!("generation {}: {}", gi + 1, f));
            }
        }
        terms.push(out.term);
        humans.push(format!("gen{}: {}", gi + 1, out.human));
        fs::write(&wal, &fbytes[..chosen as usize]).unwrap();
        cx.dist.hit(&format!("generations.{}", gi + 1));
    }
    let _ = fs::remove_file(&wal);
    let all: Vec<Step> = gens.iter().flatten().cloned().collect();
    // the terms were printed with the ids known at the time; the table is built last (all ids known)
    let term = format!("({}, {}, {}, {})", table(&ids, &all), t, list(owners.iter().map(|(h, o)| format!("({h}, {o})"))), list(terms));
    let human = format!("{label}: {}{}", humans.join(" | "), fail.as_ref().map(|f| format!(" ORACLE-FALSE: {f}")).unwrap_or_default());
    cx.w.push(&term, &human, all.len() >= 3);
    verif_clock::set(None);
}

/// seeded scenario: 1..4 transactions over shards 0..2, votes in any order with duplicates and late
/// votes, decisions, occasional sweeps.  `decisive` scenarios close vote sets more often (with a
/// No vote half of the time: the coordinator then holds the transaction as Aborting in memory
/// only), and every later generation opens with calls aimed at the RESTORED transactions
/// (abort / commit / complete_* / a sweep after the timeout) before it goes on as usual
fn gen_scenario(r: &mut Rng, ngen: usize, next_tx: &mut u64, next_h: &mut u64, clock0: u64, decisive: bool) -> (Vec<Vec<Step>>, Vec<u64>) {
    let mut gens = vec![];
    let mut gaps = vec![];
    let mut live: Vec<(u64, Vec<u64>, Vec<u64>)> = vec![]; // (tx, participants, shards that voted) believed pending
    let mut clock = clock0;
    for gi in 0..ngen {
        let gap = if gi == 0 { 0 } else { *r.pick(&[0u64, 100, 3000]) };
        gaps.push(gap);
        clock += gap;
        let mut steps = vec![];
        if decisive && gi > 0 && !live.is_empty() {
            for _ in 0..r.range(1, 3) {
                let (t, _, _) = r.pick(&live).clone();
                steps.push(match r.below(6) {
                    0 | 1 => Step::Abort(t),
                    2 => Step::Commit(t, vec![]),
                    3 => Step::CompleteCommit(t),
                    4 => Step::CompleteAbort(t),
                    _ => {
                        clock += 6000;
                        Step::Timeouts(clock, vec![])
                    }
                });
            }
        }
        let nsteps = r.range(2, 9);
        for _ in 0..nsteps {
            let k = r.below(100);
            if (live.is_empty() && k < 70) || k < 18 {
                let mut ps: Vec<u64> = (0..3).filter(|_| r.chance(2, 3)).collect();
                if ps.is_empty() {
                    ps.push(r.below(3));
                }
                if decisive && ps.len() == 3 && r.chance(1, 2) {
                    ps.pop();
                }
                steps.push(Step::Begin(*next_tx, ps.clone()));
                live.push((*next_tx, ps, vec![]));
                *next_tx += 1;
            } else if k < 62 && !live.is_empty() {
                let li = r.below(live.len() as u64) as usize;
                let (t, ps, voted) = live[li].clone();
                let missing: Vec<u64> = ps.iter().copied().filter(|p| !voted.contains(p)).collect();
                let strays: Vec<u64> = (0..NSHARD).filter(|x| !ps.contains(x)).collect();
                let sh = if !strays.is_empty() && r.chance(1, 8) {
                    // a vote of a shard the transaction was not begun with
                    *r.pick(&strays)
                } else if decisive && !missing.is_empty() && r.chance(4, 5) {
                    *r.pick(&missing)
                } else if r.chance(5, 6) {
                    *r.pick(&ps)
                } else {
                    r.below(NSHARD)
                };
                let closing = missing.len() == 1 && missing[0] == sh;
                let no = if decisive && closing { r.chance(1, 2) } else { r.chance(1, 4) };
                if !no {
                    steps.push(Step::Lock(*next_h, t));
                    steps.push(Step::Vote(t, sh, V::Yes(*next_h)));
                    *next_h += 1;
                } else {
                    steps.push(Step::Vote(t, sh, V::No));
                }
                if !live[li].2.contains(&sh) {
                    live[li].2.push(sh);
                }
                // right after the vote set closed: the decision call, so that the every-byte crash
                // sweep of this generation runs through its two-record sequence
                if decisive && closing && r.chance(2, 3) {
                    steps.push(if no || r.chance(1, 3) { Step::Abort(t) } else { Step::Commit(t, vec![]) });
                }
            } else if k < 66 {
                steps.push(Step::Vote(GHOST_TX, r.below(3), V::No));
            } else if k < 80 && !live.is_empty() {
                let (t, _, _) = r.pick(&live).clone();
                steps.push(Step::Commit(t, vec![]));
            } else if k < 88 && !live.is_empty() {
                let (t, _, _) = r.pick(&live).clone();
                steps.push(Step::Abort(t));
            } else if k < 93 && !live.is_empty() {
                let (t, _, _) = r.pick(&live).clone();
                steps.push(if r.chance(1, 2) { Step::CompleteCommit(t) } else { Step::CompleteAbort(t) });
            } else if k < 96 {
                steps.push(Step::Recover);
            } else {
                clock += *r.pick(&[10u64, 2000, 6000]);
                steps.push(Step::Timeouts(clock, vec![]));
            }
        }
        gens.push(steps);
    }
    (gens, gaps)
}

fn main() {
    let args = Args::parse();
    if std::env::var("NVH_LOUD").is_err() { quiet_panics(); }
    let mut rng = Rng::new(args.seed);
    let mut cx = Ctx { args: &args, dist: Dist::default(), w: CaseWriter::new(&args.out, "gens"), counter: 0 };

    // ---------------- corpus ----------------
    // F-C13-latevote (DESIGN 5): begin [0,1]; Yes from 0; Yes from 1 -> Prepared; duplicate No from 0
    // (rejected live, logged); restart
    run_case(
        &mut cx,
        "corpus F-C13-latevote",
        vec![
            vec![Step::Begin(0, vec![0, 1]), Step::Lock(0, 0), Step::Vote(0, 0, V::Yes(0)), Step::Lock(1, 0), Step::Vote(0, 1, V::Yes(1)), Step::Vote(0, 0, V::No)],
            vec![Step::Commit(0, vec![])],
        ],
        vec![pick_end(), pick_end()],
        vec![0, 100],
    );
    // F-WAL-torn for the 2PC log: commit logged; tear; restart; new transaction prepared; restart
    run_case(
        &mut cx,
        "corpus F-WAL-torn",
        vec![
            vec![Step::Begin(0, vec![0]), Step::Lock(0, 0), Step::Vote(0, 0, V::Yes(0)), Step::Commit(0, vec![])],
            vec![Step::Begin(1, vec![1]), Step::Lock(1, 1), Step::Vote(1, 1, V::Yes(1))],
            vec![Step::Commit(1, vec![]), Step::Begin(2, vec![0, 2])],
        ],
        vec![pick_back(3), pick_back(2), pick_end()],
        vec![0, 100, 100],
    );
    // committing / aborting recovered and completed; a sweep after recovery
    run_case(
        &mut cx,
        "corpus decisions-and-sweeps",
        vec![
            vec![
                Step::Begin(0, vec![0, 1]), Step::Begin(1, vec![2]), Step::Lock(0, 0), Step::Vote(0, 0, V::Yes(0)), Step::Lock(1, 1), Step::Vote(1, 2, V::Yes(1)),
                Step::Lock(2, 0), Step::Vote(0, 1, V::Yes(2)), Step::Commit(0, vec![]), Step::Abort(1), Step::Begin(2, vec![0]), Step::Vote(2, 0, V::No),
            ],
            vec![Step::Timeouts(1_000_000 + 3000 + 6000, vec![]), Step::Begin(3, vec![1]), Step::Lock(3, 3), Step::Vote(3, 1, V::Yes(3))],
        ],
        vec![pick_back(40), pick_end()],
        vec![0, 3000],
    );

    // a duplicate vote (other lock handle / other answer) while the transaction is still collecting
    // votes: rejected live (DuplicateVote) but logged; then the last vote arrives (Prepared); restart
    run_case(
        &mut cx,
        "corpus duplicate-vote-while-preparing",
        vec![
            vec![
                Step::Begin(0, vec![0, 1]), Step::Lock(0, 0), Step::Vote(0, 0, V::Yes(0)), Step::Lock(1, 0), Step::Vote(0, 0, V::Yes(1)),
                Step::Vote(0, 0, V::No), Step::Lock(2, 0), Step::Vote(0, 1, V::Yes(2)),
            ],
            vec![Step::Commit(0, vec![])],
        ],
        vec![pick_end(), pick_end()],
        vec![0, 100],
    );
    // a further recovery call while a transaction is still collecting votes; the remaining vote
    // arrives (Prepared); crash at every byte; restart; commit; restart
    run_case(
        &mut cx,
        "corpus recovery-call-mid-vote",
        vec![
            vec![Step::Begin(0, vec![0]), Step::Lock(0, 0), Step::Vote(0, 0, V::Yes(0)), Step::Commit(0, vec![])],
            vec![Step::Begin(1, vec![0, 1]), Step::Lock(1, 1), Step::Vote(1, 0, V::Yes(1)), Step::Recover, Step::Lock(2, 1), Step::Vote(1, 1, V::Yes(2))],
            vec![Step::Recover, Step::Commit(1, vec![]), Step::Recover],
        ],
        vec![pick_end(), pick_end(), pick_end()],
        vec![0, 100, 100],
    );
    // recovery calls on a live coordinator with prepared / aborted / completed transactions around
    run_case(
        &mut cx,
        "corpus recovery-calls-live",
        vec![vec![
            Step::Begin(0, vec![0, 1]), Step::Lock(0, 0), Step::Vote(0, 0, V::Yes(0)), Step::Recover, Step::Lock(1, 0), Step::Vote(0, 1, V::Yes(1)),
            Step::Recover, Step::Begin(1, vec![2]), Step::Lock(2, 1), Step::Vote(1, 2, V::Yes(2)), Step::Abort(1), Step::Recover, Step::Commit(0, vec![]), Step::Recover,
        ]],
        vec![pick_end()],
        vec![0],
    );

    // votes of shards the transaction was not begun with, arriving while it is still collecting
    // votes (logged like every vote before it is looked at): a stray Yes, then both participants
    // Yes -> Prepared with three votes; a stray No, then both participants Yes -> Aborting in
    // memory; restart at every byte: what comes back holds the votes the live coordinator held
    run_case(
        &mut cx,
        "corpus stray-votes-of-non-participants",
        vec![
            vec![
                Step::Begin(0, vec![0, 1]), Step::Lock(0, 0), Step::Vote(0, 2, V::Yes(0)), Step::Lock(1, 0), Step::Vote(0, 0, V::Yes(1)), Step::Lock(2, 0), Step::Vote(0, 1, V::Yes(2)),
                Step::Begin(1, vec![0, 1]), Step::Vote(1, 3, V::No), Step::Lock(3, 1), Step::Vote(1, 0, V::Yes(3)), Step::Lock(4, 1), Step::Vote(1, 1, V::Yes(4)),
            ],
            vec![Step::Commit(0, vec![]), Step::Commit(1, vec![]), Step::Abort(1)],
        ],
        vec![pick_end(), pick_end()],
        vec![0, 100],
    );

    // ---- decisions made on RESTORED transactions, crashes inside the two-record abort / commit sequences ----
    // a No vote closes the vote set: the coordinator holds the transaction as Aborting in memory only;
    // abort() then logs Aborting -> Aborting + TxComplete; crash in the one-record window between
    // them (and at every other byte); the restarted coordinator must hold it as Aborting, refuse
    // commit, complete the abort; third incarnation: nothing left
    run_case(
        &mut cx,
        "corpus abort-of-in-memory-aborting",
        vec![
            vec![Step::Begin(0, vec![0, 1]), Step::Lock(0, 0), Step::Vote(0, 0, V::Yes(0)), Step::Vote(0, 1, V::No), Step::Abort(0)],
            vec![Step::Commit(0, vec![]), Step::CompleteAbort(0)],
            vec![Step::Commit(0, vec![]), Step::Abort(0)],
        ],
        vec![pick_window(4, 3), pick_end(), pick_end()],
        vec![0, 100, 100],
    );
    // the same window reached through the sweeper: the in-memory-Aborting transaction times out
    run_case(
        &mut cx,
        "corpus sweep-of-in-memory-aborting",
        vec![
            vec![Step::Begin(0, vec![0]), Step::Begin(1, vec![1, 2]), Step::Lock(0, 1), Step::Vote(1, 1, V::Yes(0)), Step::Vote(1, 2, V::No), Step::Timeouts(1_000_000 + 6000, vec![])],
            vec![Step::Commit(1, vec![]), Step::CompleteAbort(1), Step::Commit(0, vec![])],
        ],
        vec![pick_window(4, 0), pick_end()],
        vec![0, 100],
    );
    // crash 1 inside commit() between Prepared -> Committing and TxComplete{Committed}; the restarted
    // coordinator is asked to ABORT the restored Committing transaction: refused (the decision is
    // COMMIT), nothing is logged; every later incarnation still holds it as Committing and completes it
    run_case(
        &mut cx,
        "corpus abort-of-restored-committing",
        vec![
            vec![Step::Begin(0, vec![0]), Step::Lock(0, 0), Step::Vote(0, 0, V::Yes(0)), Step::Commit(0, vec![])],
            vec![Step::Abort(0), Step::Begin(1, vec![1])],
            vec![Step::CompleteCommit(0), Step::Commit(0, vec![]), Step::Recover, Step::CompleteCommit(0)],
        ],
        vec![pick_window(2, 5), pick_end(), pick_end()],
        vec![0, 100, 100],
    );
    // ... and the other way round: crash 1 inside abort() of a Prepared transaction; the restarted
    // coordinator must not commit it; the abort is completed; crash; nothing left
    run_case(
        &mut cx,
        "corpus abort-window-then-commit-attempt",
        vec![
            vec![Step::Begin(0, vec![0, 2]), Step::Lock(0, 0), Step::Vote(0, 0, V::Yes(0)), Step::Lock(1, 0), Step::Vote(0, 2, V::Yes(1)), Step::Abort(0)],
            vec![Step::Commit(0, vec![]), Step::Abort(0)],
            vec![Step::Commit(0, vec![]), Step::CompleteAbort(0)],
        ],
        vec![pick_window(4, 0), pick_back(4), pick_end()],
        vec![0, 100, 100],
    );
    // a prepared transaction comes back, times out in the restarted coordinator (its abort goes out
    // to the participants): the sweep must log it; after the next restart it cannot be committed
    run_case(
        &mut cx,
        "corpus timeout-of-restored-prepared",
        vec![
            vec![Step::Begin(0, vec![0]), Step::Lock(0, 0), Step::Vote(0, 0, V::Yes(0)), Step::Begin(1, vec![1, 2]), Step::Lock(1, 1), Step::Vote(1, 1, V::Yes(1))],
            vec![Step::Timeouts(1_000_000 + 100 + 6000, vec![])],
            vec![Step::Commit(0, vec![]), Step::Abort(0), Step::Commit(1, vec![])],
        ],
        vec![pick_end(), pick_end(), pick_end()],
        vec![0, 100, 100],
    );
    // a sweep in the FIRST incarnation over prepared, still-voting and in-memory-aborting transactions
    run_case(
        &mut cx,
        "corpus timeout-live",
        vec![
            vec![
                Step::Begin(0, vec![0]), Step::Lock(0, 0), Step::Vote(0, 0, V::Yes(0)), Step::Begin(1, vec![0, 1]), Step::Lock(1, 1), Step::Vote(1, 0, V::Yes(1)),
                Step::Begin(2, vec![2]), Step::Vote(2, 2, V::No), Step::Timeouts(1_000_000 + 5001, vec![]), Step::Commit(0, vec![]),
            ],
            vec![Step::Commit(0, vec![]), Step::Commit(1, vec![]), Step::CompleteAbort(2)],
        ],
        vec![pick_back(9), pick_end()],
        vec![0, 100],
    );

    // complete_commit / complete_abort write nothing: a transaction restored as Committing and finished
    // with complete_commit is back as Committing after the next restart (its completion was never
    // logged -- only commit() writes TxComplete{Committed}); abort() refuses it and the sweeper skips
    // it, it is completed (again) by complete_commit only
    run_case(
        &mut cx,
        "corpus restored-committing-survives-abort",
        vec![
            vec![Step::Begin(0, vec![0]), Step::Lock(0, 0), Step::Vote(0, 0, V::Yes(0)), Step::Commit(0, vec![])],
            vec![Step::Commit(0, vec![]), Step::CompleteCommit(0), Step::CompleteCommit(0)],
            vec![Step::Abort(0), Step::CompleteCommit(0)],
        ],
        vec![pick_window(2, 0), pick_end(), pick_end()],
        vec![0, 100, 100],
    );
    run_case(
        &mut cx,
        "corpus restored-committing-survives-sweep",
        vec![
            vec![Step::Begin(0, vec![0]), Step::Lock(0, 0), Step::Vote(0, 0, V::Yes(0)), Step::Commit(0, vec![])],
            vec![Step::CompleteCommit(0)],
            vec![Step::Timeouts(1_000_000 + 200 + 6000, vec![]), Step::CompleteCommit(0)],
        ],
        vec![pick_window(2, 4), pick_end(), pick_end()],
        vec![0, 100, 100],
    );

    // the coordinator is reloaded from an OLDER snapshot (pending table + lock table) with the log
    // attached: transactions the log completed since -- aborted with YES-vote locks and a lock that
    // never reached a vote, swept by the timeout, committed -- must not be pending and must hold no
    // lock after recover_from_wal (crash at every byte, snapshot of the last two step boundaries)
    run_case(
        &mut cx,
        "corpus completed-since-the-snapshot",
        vec![
            vec![
                Step::Begin(0, vec![0, 1]), Step::Lock(0, 0), Step::Vote(0, 0, V::Yes(0)), Step::Lock(1, 0), Step::Vote(0, 1, V::Yes(1)), Step::Lock(2, 0), Step::Abort(0),
                Step::Begin(1, vec![2]), Step::Lock(3, 1), Step::Vote(1, 2, V::Yes(3)), Step::Timeouts(1_000_000 + 6000, vec![]),
                Step::Begin(2, vec![0]), Step::Lock(4, 2), Step::Vote(2, 0, V::Yes(4)), Step::Commit(2, vec![]),
            ],
            vec![Step::Commit(0, vec![]), Step::Commit(1, vec![]), Step::Begin(3, vec![1]), Step::Lock(5, 3), Step::Vote(3, 1, V::Yes(5)), Step::Abort(3)],
        ],
        vec![pick_end(), pick_end()],
        vec![0, 100],
    );
    // repeated recover_from_wal() calls on a restarted coordinator while further transactions are
    // collecting votes: they stay, their outstanding votes are accepted, abort releases their locks
    run_case(
        &mut cx,
        "corpus recovery-calls-with-transactions-mid-vote",
        vec![
            vec![Step::Begin(0, vec![0]), Step::Lock(0, 0), Step::Vote(0, 0, V::Yes(0))],
            vec![
                Step::Begin(1, vec![0, 1]), Step::Lock(1, 1), Step::Vote(1, 0, V::Yes(1)), Step::Recover, Step::Lock(2, 1), Step::Vote(1, 1, V::Yes(2)),
                Step::Begin(2, vec![2]), Step::Lock(3, 2), Step::Recover, Step::Abort(2), Step::Begin(3, vec![1]), Step::Lock(4, 3), Step::Recover, Step::Timeouts(1_000_000 + 100 + 6000, vec![]),
            ],
        ],
        vec![pick_end(), pick_end()],
        vec![0, 100],
    );

    // ---------------- seeded ----------------
    let ncases = args.budget(24, 600);
    for ci in 0..ncases {
        let ngen = rng.range(1, 3) as usize;
        let mut next_tx = 0;
        let mut next_h = 0;
        let decisive = ci % 2 == 1;
        let ngen = if decisive { ngen.max(2) } else { ngen };
        let (gens, gaps) = gen_scenario(&mut rng, ngen, &mut next_tx, &mut next_h, 1_000_000, decisive);
        cx.dist.hit(if decisive { "case.decisive" } else { "case.plain" });
        let picks: Vec<Pick> = (0..ngen).map(|_| pick_random(rng.fork())).collect();
        cx.dist.hit(&format!("case.generations.{ngen}"));
        run_case(&mut cx, &format!("seed{} #{}", args.seed, ci), gens, picks, gaps);
    }
    // ---------------- implementation-only stream: log rotation (known finding class) ----------------
    let mut hits = Hits::default();
    {
        let dir = args.out.join("scratch");
        fs::create_dir_all(&dir).unwrap();
        let wal = dir.join("rotate.wal");
        for i in 0..5 {
            let _ = fs::remove_file(dir.join(format!("rotate.wal.{i}")));
        }
        let _ = fs::remove_file(&wal);
        let cfg = tensor_chain::raft_wal::WalConfig { max_size_bytes: 150, ..tensor_chain::raft_wal::WalConfig::default() };
        verif_clock::set(Some(2_000_000));
        if let Ok(w) = TxWal::open_with_config(&wal, cfg.clone()) {
            let c = DistributedTxCoordinator::new(ConsensusManager::default_config(), DistributedTxConfig::default()).with_wal(w);
            if let Ok(tx0) = c.begin(&"coord".to_string(), &[0]) {
                let prepared = matches!(c.record_vote(tx0.tx_id, 0, yes(0xABC)), Ok(Some(TxPhase::Prepared)));
                // more transactions push the log past its size limit
                for _ in 0..4 {
                    let _ = c.begin(&"coord".to_string(), &[1, 2]);
                }
                drop(c);
                if prepared {
                    if let Ok(w2) = TxWal::open_with_config(&wal, cfg) {
                        let c2 = DistributedTxCoordinator::new(ConsensusManager::default_config(), DistributedTxConfig::default()).with_wal(w2);
                        if c2.recover_from_wal().is_ok() {
                            cx.dist.hit("rotation.probe");
                            if c2.get(tx0.tx_id).is_none() {
                                hits.push(
                                    "wal-rotation",
                                    "TxWal max_size_bytes=150: a transaction logged as Prepared (all votes in, no outcome), then four more begins; after restart recover_from_wal does not bring the prepared transaction back (the log was rotated to .1 and recovery reads only the live file; reachable with the default config only past 1 GiB)",
                                    json!({"config": "raft_wal::WalConfig{max_size_bytes:150, ..default}", "steps": "begin [0]; vote Yes -> Prepared; begin x4; restart; recover_from_wal", "prepared_tx_recovered": false}),
                                );
                            }
                        }
                    }
                }
            }
        }
        verif_clock::set(None);
    }
    // ---------------- implementation-only stream: one very large record ----------------
    // a ~17 MiB AbortIntent record (long reason), then a transaction that becomes Prepared; restart
    {
        let dir = args.out.join("scratch");
        fs::create_dir_all(&dir).unwrap();
        let wal = dir.join("large.wal");
        let _ = fs::remove_file(&wal);
        verif_clock::set(Some(3_000_000));
        let mut r2 = rng.fork();
        let reason: String = (0..17 * 1024 * 1024 / 8).flat_map(|_| r2.next().to_le_bytes()).map(|x| (b'a' + x % 26) as char).collect();
        if let Ok(mut w) = TxWal::open(&wal) {
            let a1 = w.append(&TxWalEntry::AbortIntent { tx_id: 424_242, reason, shards: vec![0] }).is_ok();
            let c = DistributedTxCoordinator::new(ConsensusManager::default_config(), DistributedTxConfig::default()).with_wal(w);
            if let Ok(tx0) = c.begin(&"coord".to_string(), &[0]) {
                let prepared = matches!(c.record_vote(tx0.tx_id, 0, yes(0xABD)), Ok(Some(TxPhase::Prepared)));
                drop(c);
                cx.dist.hit("large_record.probe");
                let back = open(&wal).ok().and_then(|c2| c2.recover_from_wal().ok().map(|_| c2.get(tx0.tx_id).map(|t| phase_code(t.phase))));
                if a1 && prepared && back != Some(Some(1)) {
                    hits.push(
                        "large-record",
                        &format!("a 17 MiB AbortIntent record, then begin [0]; vote Yes -> Prepared; restart + recover_from_wal: the prepared transaction is {}", match back { None => "unknown: recovery FAILED".to_string(), Some(None) => "gone".to_string(), Some(Some(p)) => format!("in phase {p}") }),
                        json!({"steps": "TxWal.append(AbortIntent with a 17 MiB reason); begin [0]; vote Yes; restart; recover_from_wal"}),
                    );
                }
            }
        }
        verif_clock::set(None);
        let _ = fs::remove_file(&wal);
    }
    let _ = fs::remove_dir_all(args.out.join("scratch"));
    write_meta(
        &args.out,
        json!({
            "property": "C13", "seed": args.seed, "tier": args.tier,
            "kinds": [cx.w.summary()],
            "distribution": cx.dist.json(),
            "hits": hits.0,
            "nontrivial_rule": "a case with at least 3 coordinator calls; the coordinator is restarted from EVERY byte offset of what each generation appended to the real 2PC log",
        }),
    );
}
