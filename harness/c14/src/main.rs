//! C14 correspondence harness: drives the real `Vault` (tensor_vault) over its own TensorStore + GraphEngine.
//! Case kinds (Gallina terms for NV.C14.Run):
//!   hist : (policy, ops, answers)     -> check_hist   (oracle: no allow without a live grant; model = impl)
//!   scan : (what, location)           -> check_scan   (every place a secret value / name is readable)
//!   att  : attenuation table points   -> check_att
use graph_engine::{GraphEngine, PropertyValue};
use nvh_common::*;
use std::collections::HashMap;
use std::sync::Arc;
use std::time::Duration;
use tensor_store::TensorStore;
use tensor_vault::{AttenuationPolicy, Permission, Vault, VaultConfig, VaultError};

// ------------------------------------------------------------------------------------ naming
struct Names {
    ents: Vec<String>,    // 0 = root, 1..=ni identities, then groups
    secrets: Vec<String>, // secret id -> name
    values: Vec<String>,  // value id -> value
    vid: HashMap<String, u64>,
}
impl Names {
    fn ent(&self, e: u64) -> &str {
        &self.ents[e as usize]
    }
    fn sec(&self, s: u64) -> &str {
        &self.secrets[s as usize]
    }
}
const SPICE: [&str; 10] = ["", "é", "密钥", "ß∂", "🔑", " sp ace ", "*x", "a*b/c", "?[x]", "%2A."];
fn mk_names(r: &mut Rng, ni: u64, ng: u64, ns: u64, tag: u64) -> Names {
    let mut ents = vec![Vault::ROOT.to_string()];
    for i in 1..=ni {
        ents.push(format!("user:u{i}"));
    }
    for j in 0..ng {
        ents.push(format!("team:t{j}"));
    }
    let secrets = (0..ns)
        .map(|s| {
            let spice = SPICE[r.below(SPICE.len() as u64) as usize];
            // hostile alphabet: glob characters, slashes, unicode, blanks, names that look like patterns
            // (the marker keeps every name unique and long enough to search for; no name ENDS in '*')
            match r.below(5) {
                0 => format!("ns{}/NAME{}x{}{}", s % 2, tag, s, spice),
                1 => format!("NA*ME{}x{}{}.", tag, s, spice),
                2 => format!("*/NAME{}x{}{}.", tag, s, spice),
                3 => format!(" NAME{}x{}{} ", tag, s, spice),
                _ => format!("NAME{}x{}{}.", tag, s, spice),
            }
        })
        .collect();
    let mut secrets: Vec<String> = secrets;
    // names that differ ONLY in leading / trailing whitespace are different secrets
    if ns >= 2 && r.chance(1, 3) {
        let base = secrets[0].trim().to_string();
        secrets[0] = base.clone();
        secrets[1] = match r.below(4) {
            0 => format!(" {base}"),
            1 => format!("{base}\n"),
            2 => format!("\u{a0}{base}"),
            _ => format!("\t{base}  "),
        };
    }
    Names { ents, secrets, values: vec![], vid: HashMap::new() }
}
fn new_value(r: &mut Rng, nm: &mut Names, tag: u64) -> u64 {
    let id = nm.values.len() as u64;
    let core = format!("VAL{}q{}", tag, id);
    let len_class = r.below(20);
    let v = match len_class {
        0 => {
            // one-character values cannot be searched for meaningfully; keep them unique through the id table only
            let c = char::from_u32(0x4e00 + (id as u32 % 2000)).unwrap();
            c.to_string()
        }
        1 => format!("{}{}", core, "Z".repeat(3000)),
        2 => format!("{}{}", core, SPICE[r.below(6) as usize].repeat(5)),
        _ => format!("{}{}", core, SPICE[r.below(6) as usize]),
    };
    nm.vid.insert(v.clone(), id);
    nm.values.push(v);
    id
}

// ------------------------------------------------------------------------------------ vault
const MASTER: &[u8] = b"correct horse battery staple";
struct Ctx {
    cfg: VaultConfig,
    vault: Vault,
    store: TensorStore,
    graph: Arc<GraphEngine>,
}
fn mk_vault(pol: (u64, u64, u64)) -> Ctx {
    let store = TensorStore::new();
    let graph = Arc::new(GraphEngine::with_store(store.clone()));
    let mut cfg = VaultConfig::default();
    cfg.argon2_memory_cost = 8;
    cfg.argon2_time_cost = 1;
    cfg.argon2_parallelism = 1;
    cfg.salt = Some([7u8; 16]);
    cfg.attenuation = AttenuationPolicy { admin_limit: pol.0 as usize, write_limit: pol.1 as usize, horizon: pol.2 as usize };
    let vault = Vault::new(MASTER, graph.clone(), store.clone(), cfg.clone()).unwrap();
    Ctx { cfg, vault, store, graph }
}
fn node(g: &GraphEngine, key: &str) -> u64 {
    if let Ok(ns) = g.find_nodes_by_property("entity_key", &PropertyValue::String(key.to_string())) {
        if let Some(n) = ns.first() {
            return n.id;
        }
    }
    let mut p = HashMap::new();
    p.insert("entity_key".to_string(), PropertyValue::String(key.to_string()));
    g.create_node("VaultEntity", p).unwrap()
}
fn lvl_of(l: u64) -> Permission {
    match l {
        1 => Permission::Read,
        2 => Permission::Write,
        _ => Permission::Admin,
    }
}
fn lvl_code(p: Permission) -> u64 {
    match p {
        Permission::Read => 1,
        Permission::Write => 2,
        Permission::Admin => 3,
    }
}
fn err_code(e: &VaultError) -> u64 {
    match e {
        VaultError::AccessDenied(_) => 1,
        VaultError::InsufficientPermission(_) => 2,
        VaultError::NotFound(_) => 3,
        VaultError::GraphError(_) => 4,
        VaultError::SecretExpired(_) => 5,
        _ => 90,
    }
}

// ------------------------------------------------------------------------------------ ops
#[derive(Clone, Debug)]
enum Op {
    Set(u64, u64, u64),
    Get(u64, u64),
    List(u64),
    ListExact(u64, u64),
    Rotate(u64, u64, u64),
    Delete(u64, u64),
    Grant(u64, u64, u64, u64, Option<u64>),
    Revoke(u64, u64, u64),
    Delegate(u64, u64, Vec<u64>, u64, Option<u64>),
    Sealed(u64, u64, u64),
    RevokeDeleg(u64, u64),
    RevokeCascade(u64, u64),
    Restart,
    Perm(u64, u64),
    Member(u64, u64),
    Unmember(u64, u64),
    Tick(u64),
}
fn ttl_coq(t: &Option<u64>) -> String {
    opt(t.map(n))
}
impl Op {
    fn coq(&self) -> String {
        match self {
            Op::Set(r, s, v) => format!("OSet {r} {s} {v}"),
            Op::Get(r, s) => format!("OGet {r} {s}"),
            Op::List(r) => format!("OList {r}"),
            Op::ListExact(r, s) => format!("OListExact {r} {s}"),
            Op::Rotate(r, s, v) => format!("ORotate {r} {s} {v}"),
            Op::Delete(r, s) => format!("ODelete {r} {s}"),
            Op::Grant(r, e, s, l, t) => format!("OGrant {r} {e} {s} {l} {}", ttl_coq(t)),
            Op::Revoke(r, e, s) => format!("ORevoke {r} {e} {s}"),
            Op::Delegate(p, c, ss, l, t) => format!("ODelegate {p} {c} {} {l} {}", list(ss.iter().map(|x| n(*x))), ttl_coq(t)),
            Op::Sealed(d, r, s) => format!("OSealed {d} {r} {s}"),
            Op::RevokeDeleg(p, c) => format!("ORevokeDeleg {p} {c}"),
            Op::RevokeCascade(p, c) => format!("ORevokeCascade {p} {c}"),
            Op::Restart => "ORestart".to_string(),
            Op::Perm(r, s) => format!("OPerm {r} {s}"),
            Op::Member(a, b) => format!("OMember {a} {b}"),
            Op::Unmember(a, b) => format!("OUnmember {a} {b}"),
            Op::Tick(d) => format!("OTick {d}"),
        }
    }
}
/// model TTL d -> real duration: 0 = already expired at the next call; 1 = 20 ms (used only right before a
/// Tick, which sleeps 120 ms); anything else = one hour (never expires within a history)
fn real_ttl(d: u64) -> Duration {
    match d {
        0 => Duration::from_nanos(0),
        1 => Duration::from_millis(20),
        _ => Duration::from_secs(3600),
    }
}
const LONG: u64 = 1_000_000_000;

struct Out {
    answers: Vec<String>,
    errors: Vec<String>,
    allows: u64,
    denies: u64,
}
fn run_ops(c: &mut Ctx, nm: &Names, ops: &[Op], dist: &mut Dist) -> Out {
    let mut out = Out { answers: vec![], errors: vec![], allows: 0, denies: 0 };
    let mut edge_ids: HashMap<(u64, u64), Vec<u64>> = HashMap::new();
    for op in ops {
        let v = &c.vault;
        let mut code_of = |r: Result<(), VaultError>, out: &mut Out| -> u64 {
            match r {
                Ok(()) => {
                    out.allows += 1;
                    0
                }
                Err(e) => {
                    out.denies += 1;
                    out.errors.push(e.to_string());
                    err_code(&e)
                }
            }
        };
        let a = match op {
            Op::Set(r, s, val) => format!("ACode {}", code_of(v.set(nm.ent(*r), nm.sec(*s), &nm.values[*val as usize]), &mut out)),
            Op::Get(r, s) => match v.get(nm.ent(*r), nm.sec(*s)) {
                Ok(x) => {
                    out.allows += 1;
                    format!("AVal 0 (Some {})", nm.vid.get(&x).copied().unwrap_or(999_999))
                }
                Err(e) => {
                    out.denies += 1;
                    out.errors.push(e.to_string());
                    format!("AVal {} None", err_code(&e))
                }
            },
            Op::List(r) => match v.list(nm.ent(*r), "*") {
                Ok(l) => {
                    let mut ids: Vec<u64> = l.iter().map(|k| nm.secrets.iter().position(|x| x == k).map(|p| p as u64).unwrap_or(999_999)).collect();
                    ids.sort();
                    format!("AList {}", list(ids.iter().map(|x| n(*x))))
                }
                Err(e) => {
                    out.errors.push(e.to_string());
                    format!("ACode {}", err_code(&e))
                }
            },
            Op::ListExact(r, s) => match v.list(nm.ent(*r), nm.sec(*s)) {
                Ok(l) => {
                    let mut ids: Vec<u64> = l.iter().map(|k| nm.secrets.iter().position(|x| x == k).map(|p| p as u64).unwrap_or(999_999)).collect();
                    ids.sort();
                    format!("AList {}", list(ids.iter().map(|x| n(*x))))
                }
                Err(e) => {
                    out.errors.push(e.to_string());
                    format!("ACode {}", err_code(&e))
                }
            },
            Op::Rotate(r, s, val) => format!("ACode {}", code_of(v.rotate(nm.ent(*r), nm.sec(*s), &nm.values[*val as usize]), &mut out)),
            Op::Delete(r, s) => format!("ACode {}", code_of(v.delete(nm.ent(*r), nm.sec(*s)), &mut out)),
            Op::Grant(r, e, s, l, t) => {
                let res = match t {
                    None => v.grant_with_permission(nm.ent(*r), nm.ent(*e), nm.sec(*s), lvl_of(*l)),
                    Some(d) => v.grant_with_ttl(nm.ent(*r), nm.ent(*e), nm.sec(*s), lvl_of(*l), real_ttl(*d)),
                };
                format!("ACode {}", code_of(res, &mut out))
            }
            Op::Revoke(r, e, s) => format!("ACode {}", code_of(v.revoke(nm.ent(*r), nm.ent(*e), nm.sec(*s)), &mut out)),
            Op::Delegate(p, ch, ss, l, t) => {
                let names: Vec<&str> = ss.iter().map(|x| nm.sec(*x)).collect();
                let res = v.delegate(nm.ent(*p), nm.ent(*ch), &names, lvl_of(*l), t.map(real_ttl)).map(|_| ());
                format!("ACode {}", code_of(res, &mut out))
            }
            Op::Sealed(d, r, s) => {
                let l = {
                    c.vault.seal().unwrap();
                    if *d > 0 {
                        std::thread::sleep(Duration::from_millis(120));
                    }
                    let l = c.vault.get_permission(nm.ent(*r), nm.sec(*s)).map(lvl_code).unwrap_or(0);
                    c.vault.unseal(MASTER).unwrap();
                    l
                };
                format!("ALevel {}", opt(Some(n(l))))
            }
            Op::RevokeDeleg(p, ch) => {
                let res = v.revoke_delegation(nm.ent(*p), nm.ent(*ch)).map(|_| ());
                format!("ACode {}", code_of(res, &mut out))
            }
            Op::RevokeCascade(p, ch) => {
                let res = v.revoke_delegation_cascading(nm.ent(*p), nm.ent(*ch)).map(|_| ());
                format!("ACode {}", code_of(res, &mut out))
            }
            Op::Restart => {
                // drop the vault, build a new one over the same store and graph (persisted TTL tracker,
                // delegation records ... are reloaded)
                let cfg = c.cfg.clone();
                c.vault = Vault::new(MASTER, c.graph.clone(), c.store.clone(), cfg).unwrap();
                "ACode 0".to_string()
            }
            Op::Perm(r, s) => format!("ALevel {}", opt(Some(n(v.get_permission(nm.ent(*r), nm.sec(*s)).map(lvl_code).unwrap_or(0))))),
            Op::Member(a, b) => {
                let (x, y) = (node(&c.graph, nm.ent(*a)), node(&c.graph, nm.ent(*b)));
                let id = c.graph.create_edge(x, y, "MEMBER", HashMap::new(), true).unwrap();
                edge_ids.entry((*a, *b)).or_default().push(id);
                "ACode 0".to_string()
            }
            Op::Unmember(a, b) => {
                for id in edge_ids.remove(&(*a, *b)).unwrap_or_default() {
                    let _ = c.graph.delete_edge(id);
                }
                "ACode 0".to_string()
            }
            Op::Tick(d) => {
                if *d > 0 {
                    std::thread::sleep(Duration::from_millis(120));
                }
                "ACode 0".to_string()
            }
        };
        dist.hit(match op {
            Op::Set(..) => "op.set",
            Op::Get(..) => "op.get",
            Op::List(..) => "op.list",
            Op::ListExact(..) => "op.list_exact",
            Op::Rotate(..) => "op.rotate",
            Op::Delete(..) => "op.delete",
            Op::Grant(_, _, _, _, None) => "op.grant",
            Op::Grant(..) => "op.grant_with_ttl",
            Op::Revoke(..) => "op.revoke",
            Op::Delegate(..) => "op.delegate",
            Op::Sealed(..) => "op.sealed_window",
            Op::RevokeDeleg(..) => "op.revoke_delegation",
            Op::RevokeCascade(..) => "op.revoke_delegation_cascading",
            Op::Restart => "op.restart",
            Op::Perm(..) => "op.get_permission",
            Op::Member(..) => "op.member_add",
            Op::Unmember(..) => "op.member_remove",
            Op::Tick(..) => "op.tick",
        });
        out.answers.push(a);
    }
    out
}

fn gen_ops(r: &mut Rng, nm: &mut Names, ni: u64, ng: u64, ns: u64, len: usize, tag: u64) -> Vec<Op> {
    let ne = 1 + ni + ng;
    let mut ops = vec![];
    // delegation forest bookkeeping so that a child never gets two parents (DelegationManager looks parents up
    // through DashMap iteration: two parents would make the implementation itself nondeterministic)
    let mut parent_of: HashMap<u64, u64> = HashMap::new();
    let mut last_pair: Option<(u64, u64)> = None;
    // a few secrets exist from the start so that most calls are about existing secrets
    for s in 0..ns {
        if r.chance(3, 4) {
            let v = new_value(r, nm, tag);
            ops.push(Op::Set(0, s, v));
        }
    }
    let who = |r: &mut Rng| if r.chance(1, 5) { 0 } else { r.range(1, ni) };
    let anyent = |r: &mut Rng| r.range(1, ne - 1);
    for _ in 0..len {
        let k = r.below(100);
        let s = r.below(ns);
        let op = if k < 8 {
            let v = new_value(r, nm, tag);
            Op::Set(who(r), s, v)
        } else if k < 24 {
            Op::Get(who(r), s)
        } else if k < 27 {
            Op::List(who(r))
        } else if k < 30 {
            Op::ListExact(who(r), s)
        } else if k < 38 {
            let v = new_value(r, nm, tag);
            Op::Rotate(who(r), s, v)
        } else if k < 42 {
            Op::Delete(who(r), s)
        } else if k < 60 {
            let req = if r.chance(3, 5) { 0 } else { r.range(1, ni) };
            let ttl = match r.below(6) {
                0 | 1 => Some(0),
                2 => Some(LONG),
                _ => None,
            };
            // often the same (identity, secret) pair again, with another level and deadline
            let (e, sx) = match (&last_pair, r.chance(1, 3)) {
                (Some(p), true) => *p,
                _ => (anyent(r), s),
            };
            last_pair = Some((e, sx));
            Op::Grant(req, e, sx, r.range(1, 3), ttl)
        } else if k < 66 {
            let req = if r.chance(3, 5) { 0 } else { r.range(1, ni) };
            match (&last_pair, r.chance(1, 2)) {
                (Some((e, sx)), true) => {
                    // revoke the pair that was (re)granted last, then let that identity try every level
                    let (e, sx) = (*e, *sx);
                    ops.push(Op::Revoke(req, e, sx));
                    ops.push(Op::Perm(e, sx));
                    if e <= ni {
                        let v = new_value(r, nm, tag);
                        ops.push(Op::Get(e, sx));
                        ops.push(Op::Rotate(e, sx, v));
                        ops.push(Op::Grant(e, e, sx, 1, None));
                    }
                    continue;
                }
                _ => Op::Revoke(req, anyent(r), s),
            }
        } else if k < 68 {
            Op::Sealed(0, r.range(0, ni), s)
        } else if k < 76 {
            let p = if r.chance(1, 4) { 0 } else { r.range(1, ni) };
            let ch = r.range(1, ni);
            // keep the forest property: skip a delegation that would give `ch` a second parent
            if let Some(pp) = parent_of.get(&ch) {
                if *pp != p {
                    ops.push(Op::Perm(ch, s));
                    continue;
                }
            }
            if p != ch {
                // the record is only created when the call succeeds; being conservative here is harmless
                parent_of.entry(ch).or_insert(p);
            }
            // one or two secrets: reachable and unreachable ones mix by chance
            let mut ss = vec![s];
            if r.chance(1, 2) {
                let s2 = r.below(ns);
                if s2 != s {
                    ss.push(s2);
                }
            }
            let lv = r.range(1, 3);
            let tt = if r.chance(1, 4) { Some(0) } else { None };
            ops.push(Op::Delegate(p, ch, ss.clone(), lv, tt));
            for sx in &ss {
                ops.push(Op::Perm(ch, *sx));
            }
            if r.chance(1, 3) {
                // re-delegate the same secrets at another level, then revoke the delegation: nothing may survive
                let lv2 = r.range(1, 3);
                ops.push(Op::Delegate(p, ch, ss.clone(), lv2, None));
                ops.push(if r.chance(1, 2) { Op::RevokeDeleg(p, ch) } else { Op::RevokeCascade(p, ch) });
                let v = new_value(r, nm, tag);
                ops.push(Op::Perm(ch, ss[0]));
                ops.push(Op::Get(ch, ss[0]));
                ops.push(Op::Rotate(ch, ss[0], v));
                ops.push(Op::RevokeDeleg(p, ch));
                continue;
            }
            // deepen the chain / close a cycle / delegate to oneself: the calls DelegationManager refuses
            match r.below(4) {
                0 => {
                    ops.push(Op::Delegate(ch, ch, ss.clone(), 1, None));
                    ops.push(Op::Perm(ch, ss[0]));
                }
                1 if p != 0 && parent_of.get(&p).map_or(true, |x| *x == ch) => {
                    parent_of.entry(p).or_insert(ch);
                    ops.push(Op::Delegate(ch, p, ss.clone(), 1, None));
                    ops.push(Op::Perm(p, ss[0]));
                    ops.push(Op::Get(p, ss[0]));
                }
                2 => {
                    // a grandchild nobody delegated to yet
                    if let Some(gc) = (1..=ni).find(|x| *x != ch && *x != p && !parent_of.contains_key(x)) {
                        parent_of.insert(gc, ch);
                        ops.push(Op::Delegate(ch, gc, ss.clone(), 1, None));
                        ops.push(Op::Perm(gc, ss[0]));
                        ops.push(Op::Get(gc, ss[0]));
                    }
                }
                _ => {}
            }
            continue;
        } else if k < 80 {
            Op::Perm(r.range(1, ni), s)
        } else if k < 94 {
            // membership: identity -> group, group -> group (cycles allowed)
            let a = if r.chance(2, 3) { r.range(1, ni) } else { r.range(ni + 1, ne - 1) };
            let b = r.range(ni + 1, ne - 1);
            Op::Member(a, b)
        } else {
            let a = r.range(1, ne - 1);
            let b = r.range(ni + 1, ne - 1);
            Op::Unmember(a, b)
        };
        ops.push(op);
    }
    ops
}

// ------------------------------------------------------------------------------------ scanning
fn find(hay: &[u8], needle: &[u8]) -> bool {
    !needle.is_empty() && needle.len() <= hay.len() && hay.windows(needle.len()).any(|w| w == needle)
}
const B64: &[u8; 64] = b"ABCDEFGHIJKLMNOPQRSTUVWXYZabcdefghijklmnopqrstuvwxyz0123456789+/";
fn b64(data: &[u8]) -> Vec<u8> {
    let mut out = vec![];
    for ch in data.chunks(3) {
        let b = [ch[0], *ch.get(1).unwrap_or(&0), *ch.get(2).unwrap_or(&0)];
        let v = ((b[0] as u32) << 16) | ((b[1] as u32) << 8) | b[2] as u32;
        out.push(B64[(v >> 18) as usize & 63]);
        out.push(B64[(v >> 12) as usize & 63]);
        if ch.len() > 1 {
            out.push(B64[(v >> 6) as usize & 63]);
        }
        if ch.len() > 2 {
            out.push(B64[v as usize & 63]);
        }
    }
    out
}
/// the encodings under which `s` would be "readable": raw UTF-8, hex (both cases), base64 at the three alignments
/// (only the characters that do not depend on the neighbouring bytes)
fn needles(s: &str) -> Vec<Vec<u8>> {
    let raw = s.as_bytes().to_vec();
    let mut v = vec![raw.clone(), hex(&raw).into_bytes(), hex(&raw).to_uppercase().into_bytes()];
    if raw.len() >= 6 {
        for off in 0..3usize {
            let mut padded = vec![0u8; off];
            padded.extend_from_slice(&raw);
            let enc = b64(&padded);
            let skip = if off == 0 { 0 } else { 4 };
            let keep = (padded.len() / 3) * 4;
            if keep > skip + 4 {
                v.push(enc[skip..keep].to_vec());
            }
        }
    }
    v
}
fn location(key: &str) -> u64 {
    if key.starts_with("vault_secret:") {
        2
    } else if key == "_vault_ttl_grants" {
        3
    } else if key.starts_with("_vdel:") {
        4
    } else if key.starts_with("_vk:") {
        1
    } else if key.starts_with("_va:") {
        5
    } else {
        8
    }
}

fn main() {
    let args = Args::parse();
    quiet_panics();
    let mut rng = Rng::new(args.seed);
    let mut dist = Dist::default();
    let mut hits = Hits::default();
    let mut hist = CaseWriter::new(&args.out, "hist");
    let mut scan = CaseWriter::new(&args.out, "scan");
    let mut att = CaseWriter::new(&args.out, "att");

    let policies: [(u64, u64, u64); 5] = [(1, 2, 10), (1, 2, 3), (2, 3, 4), (0, 1, 2), (1, 1, 1)];

    let mut run_history = |tagn: u64, pol: (u64, u64, u64), nm: Names, ops: Vec<Op>, human: &str, hist: &mut CaseWriter, scan: &mut CaseWriter, dist: &mut Dist, hits: &mut Hits| {
        let mut c = mk_vault(pol);
        let out = run_ops(&mut c, &nm, &ops, dist);
        dist.add("answers.allow", out.allows);
        dist.add("answers.deny", out.denies);
        let term = format!(
            "(Pol {} {} {}, {}, {})",
            pol.0,
            pol.1,
            pol.2,
            list(ops.iter().map(|o| o.coq())),
            list(out.answers.iter().cloned())
        );
        hist.push(&term, &format!("{human} policy={pol:?} ops={ops:?}"), out.allows >= 2 && out.denies >= 1);
        // ---- at-rest scan of the store image, the audit log and the error strings
        let image = c.store.snapshot_bytes().unwrap();
        let audit = c.vault.audit_recent(100_000).map(|a| format!("{a:?}")).unwrap_or_default();
        let errs = out.errors.join("\n");
        let keys = c.store.scan("");
        let mut per_key: Vec<(String, Vec<u8>)> = vec![];
        let mut found: Vec<(u64, u64, String)> = vec![];
        let mut check = |what: u64, s: &str, found: &mut Vec<(u64, u64, String)>, per_key: &mut Vec<(String, Vec<u8>)>| {
            if s.chars().count() < 4 {
                return; // too short to tell from coincidence
            }
            for nd in needles(s) {
                if find(&image, &nd) {
                    // locate: which store key holds it
                    if per_key.is_empty() {
                        for k in &keys {
                            if let Ok(d) = c.store.get(k) {
                                let one = TensorStore::new();
                                one.put(k, d).unwrap();
                                per_key.push((k.clone(), one.snapshot_bytes().unwrap()));
                            }
                        }
                    }
                    let mut located = false;
                    for (k, img) in per_key.iter() {
                        if find(img, &nd) {
                            found.push((what, location(k), format!("{} in store key {:?}", if what == 0 { "VALUE" } else { "name" }, k)));
                            located = true;
                        }
                    }
                    if !located {
                        found.push((what, 8, "in the store image (key not located)".into()));
                    }
                }
                if what == 0 && find(audit.as_bytes(), &nd) {
                    found.push((0, 5, "VALUE in an audit record".into()));
                }
                if what == 0 && find(errs.as_bytes(), &nd) {
                    found.push((0, 6, "VALUE in an error string".into()));
                }
            }
        };
        for v in &nm.values {
            check(0, v, &mut found, &mut per_key);
        }
        for s in &nm.secrets {
            check(1, s, &mut found, &mut per_key);
        }
        dist.add("scan.values_searched", nm.values.len() as u64);
        dist.add("scan.names_searched", nm.secrets.len() as u64);
        found.sort();
        found.dedup_by(|a, b| a.0 == b.0 && a.1 == b.1);
        for (what, loc, desc) in found {
            dist.hit(&format!("scan.found.what{what}.loc{loc}"));
            let mut how = format!("{human} policy={pol:?} ops={ops:?}");
            how.truncate(1800);
            scan.push(&format!("({what}, {loc})"), &format!("history {tagn}: {desc}; after {how}"), true);
            let _ = &hits;
        }
    };

    // ---- corpus first
    {
        // F-C14-ttl: grant_with_ttl(u1, s0, Write, 20 ms); wait 120 ms; rotate(u1, s0, ..)
        let mut nm = mk_names(&mut rng, 2, 1, 1, 900);
        nm.secrets[0] = "s1".into();
        let v0 = new_value(&mut rng, &mut nm, 900);
        let v1 = new_value(&mut rng, &mut nm, 900);
        let ops = vec![Op::Set(0, 0, v0), Op::Grant(0, 1, 0, 2, Some(1)), Op::Tick(1), Op::Rotate(1, 0, v1), Op::Get(0, 0), Op::Get(1, 0)];
        run_history(900, (1, 2, 10), nm, ops, "corpus F-C14-ttl", &mut hist, &mut scan, &mut dist, &mut hits);
        // the same with an immediately expired grant and every guarded call
        let mut nm = mk_names(&mut rng, 2, 1, 1, 901);
        let v0 = new_value(&mut rng, &mut nm, 901);
        let v1 = new_value(&mut rng, &mut nm, 901);
        let ops = vec![
            Op::Set(0, 0, v0),
            Op::Grant(0, 1, 0, 3, Some(0)),
            Op::Perm(1, 0),
            Op::Grant(0, 1, 0, 3, Some(0)),
            Op::Rotate(1, 0, v1),
            Op::Grant(0, 1, 0, 3, Some(0)),
            Op::Grant(1, 2, 0, 3, None),
            Op::Grant(0, 1, 0, 3, Some(0)),
            Op::Delegate(1, 2, vec![0], 1, None),
            Op::Grant(0, 1, 0, 3, Some(0)),
            Op::Delete(1, 0),
        ];
        run_history(901, (1, 2, 10), nm, ops, "corpus expired grant before every guarded call", &mut hist, &mut scan, &mut dist, &mut hits);
        // F-C14-name: set("prod/XSECRETNAMEX", ..), TTL grant, delegation; scan
        let mut nm = mk_names(&mut rng, 2, 1, 1, 902);
        nm.secrets[0] = "prod/XSECRETNAMEX".into();
        let v0 = new_value(&mut rng, &mut nm, 902);
        let ops = vec![Op::Set(0, 0, v0), Op::Grant(0, 1, 0, 2, Some(LONG)), Op::Delegate(1, 2, vec![0], 1, None), Op::Get(2, 0)];
        run_history(902, (1, 2, 10), nm, ops, "corpus F-C14-name", &mut hist, &mut scan, &mut dist, &mut hits);
        // membership alone; attenuation along a chain; revoke / delete remove at once
        let mut nm = mk_names(&mut rng, 2, 3, 2, 903);
        let v0 = new_value(&mut rng, &mut nm, 903);
        let v1 = new_value(&mut rng, &mut nm, 903);
        let ops = vec![
            Op::Set(0, 0, v0),
            Op::Member(1, 3),
            Op::Get(1, 0),
            Op::Perm(1, 0),
            Op::Grant(0, 3, 0, 3, None),
            Op::Perm(1, 0),
            Op::Member(3, 4),
            Op::Member(4, 5),
            Op::Grant(0, 5, 0, 3, None),
            Op::Revoke(0, 3, 0),
            Op::Perm(1, 0),
            Op::Get(1, 0),
            Op::Rotate(1, 0, v1),
            Op::Delete(0, 0),
            Op::Get(1, 0),
            Op::Set(0, 0, v1),
            Op::Get(1, 0),
        ];
        run_history(903, (1, 2, 3), nm, ops, "corpus membership/attenuation/revoke/delete", &mut hist, &mut scan, &mut dist, &mut hits);
    }

    {
        // seeded C14-1 shape: two TTL grants to one pair, higher level + shorter deadline first
        let mut nm = mk_names(&mut rng, 2, 1, 1, 904);
        let v0 = new_value(&mut rng, &mut nm, 904);
        let v1 = new_value(&mut rng, &mut nm, 904);
        let ops = vec![
            Op::Set(0, 0, v0),
            Op::Grant(0, 1, 0, 3, Some(1)),
            Op::Grant(0, 1, 0, 1, Some(LONG)),
            Op::Tick(1),
            Op::Perm(1, 0),
            Op::Rotate(1, 0, v1),
            Op::Grant(1, 2, 0, 3, None),
            Op::Get(1, 0),
        ];
        run_history(904, (1, 2, 10), nm, ops, "corpus two TTL grants to one pair (Admin 20 ms, then Read 1 h), wait", &mut hist, &mut scan, &mut dist, &mut hits);
        let mut nm = mk_names(&mut rng, 2, 1, 1, 905);
        let v0 = new_value(&mut rng, &mut nm, 905);
        let v1 = new_value(&mut rng, &mut nm, 905);
        let ops = vec![Op::Set(0, 0, v0), Op::Grant(0, 1, 0, 3, Some(0)), Op::Grant(0, 1, 0, 1, Some(LONG)), Op::Rotate(1, 0, v1), Op::Perm(1, 0), Op::Delete(1, 0)];
        run_history(905, (1, 2, 10), nm, ops, "corpus two TTL grants to one pair (Admin expired at once, then Read 1 h)", &mut hist, &mut scan, &mut dist, &mut hits);
        // seeded C14-2 shape: delegate naming one secret the parent reaches and one it does not
        let mut nm = mk_names(&mut rng, 3, 1, 2, 906);
        let v0 = new_value(&mut rng, &mut nm, 906);
        let v1 = new_value(&mut rng, &mut nm, 906);
        let v2 = new_value(&mut rng, &mut nm, 906);
        let ops = vec![
            Op::Set(0, 0, v0),
            Op::Set(0, 1, v1),
            Op::Grant(0, 1, 0, 2, None),
            Op::Delegate(1, 2, vec![0, 1], 2, None),
            Op::Perm(2, 1),
            Op::Rotate(2, 1, v2),
            Op::Delegate(1, 2, vec![1, 0], 2, None),
            Op::Get(2, 1),
            Op::Delegate(1, 2, vec![0], 2, None),
            Op::Get(2, 0),
        ];
        run_history(906, (1, 2, 10), nm, ops, "corpus delegate with a reachable and an unreachable secret", &mut hist, &mut scan, &mut dist, &mut hits);
        // seeded C14-3 shape: names over a hostile alphabet, every audited call
        let mut nm = mk_names(&mut rng, 2, 1, 3, 907);
        nm.secrets[0] = "pro*d/XSTARNAME907*x".into();
        nm.secrets[1] = "*XGLOBNAME907".into();
        nm.secrets[2] = "a/b/../XDOTS907 ".into();
        let vs: Vec<u64> = (0..4).map(|_| new_value(&mut rng, &mut nm, 907)).collect();
        let mut ops = vec![];
        for s in 0..3u64 {
            ops.extend([Op::Set(0, s, vs[s as usize]), Op::Grant(0, 1, s, 2, None), Op::Get(1, s), Op::Rotate(1, s, vs[3]), Op::ListExact(1, s), Op::Revoke(0, 1, s), Op::Get(1, s)]);
        }
        ops.push(Op::List(0));
        ops.push(Op::Delete(0, 1));
        run_history(907, (1, 2, 10), nm, ops, "corpus hostile secret names", &mut hist, &mut scan, &mut dist, &mut hits);
        // seal / unseal with a TTL grant expiring while sealed (side finding of the mutation round)
        let mut nm = mk_names(&mut rng, 2, 1, 1, 908);
        let v0 = new_value(&mut rng, &mut nm, 908);
        let ops = vec![Op::Set(0, 0, v0), Op::Grant(0, 1, 0, 1, Some(1)), Op::Sealed(1, 1, 0), Op::Get(1, 0), Op::Perm(1, 0), Op::Get(0, 0)];
        run_history(908, (1, 2, 10), nm, ops, "corpus grant_with_ttl(20 ms); seal; wait; get_permission while sealed; unseal; get", &mut hist, &mut scan, &mut dist, &mut hits);
        let mut nm = mk_names(&mut rng, 2, 1, 1, 909);
        let v0 = new_value(&mut rng, &mut nm, 909);
        let ops = vec![Op::Set(0, 0, v0), Op::Grant(0, 1, 0, 2, Some(0)), Op::Sealed(0, 2, 0), Op::Rotate(1, 0, v0), Op::Sealed(0, 0, 0), Op::Get(1, 0)];
        run_history(909, (1, 2, 10), nm, ops, "corpus expired grant, sealed window, then use", &mut hist, &mut scan, &mut dist, &mut hits);
    }

    {
        // seeded C14-r2-1 shape: several access edges for one (identity, secret) pair, then ONE revoke, then
        // accesses at every level -- grants are never upserted, so the pair holds one edge per grant call
        let variants: [(&str, Vec<(u64, Option<u64>)>); 5] = [
            ("Read then Write", vec![(1, None), (2, None)]),
            ("Write then Read", vec![(2, None), (1, None)]),
            ("Admin twice", vec![(3, None), (3, None)]),
            ("permanent Read + 1 h Write", vec![(1, None), (2, Some(LONG))]),
            ("1 h Admin + permanent Read + permanent Write", vec![(3, Some(LONG)), (1, None), (2, None)]),
        ];
        for (vi, (what, gl)) in variants.iter().enumerate() {
            let tag = 910 + vi as u64;
            let mut nm = mk_names(&mut rng, 2, 1, 1, tag);
            let v0 = new_value(&mut rng, &mut nm, tag);
            let v1 = new_value(&mut rng, &mut nm, tag);
            let v2 = new_value(&mut rng, &mut nm, tag);
            let mut ops = vec![Op::Set(0, 0, v0)];
            for (l, t) in gl {
                ops.push(Op::Grant(0, 1, 0, *l, *t));
            }
            ops.extend([
                Op::Perm(1, 0),
                Op::Revoke(0, 1, 0),
                Op::Perm(1, 0),
                Op::Get(1, 0),
                Op::ListExact(1, 0),
                Op::List(1),
                Op::Rotate(1, 0, v1),
                Op::Set(1, 0, v2),
                Op::Grant(1, 2, 0, 1, None),
                Op::Delegate(1, 2, vec![0], 1, None),
                Op::Revoke(1, 2, 0),
                Op::Delete(1, 0),
                Op::Get(0, 0),
            ]);
            run_history(tag, (1, 2, 10), nm, ops, &format!("corpus repeated grants ({what}) to one pair, one revoke, then every access"), &mut hist, &mut scan, &mut dist, &mut hits);
        }
        // the same through a group: two edges group -> secret, revoke the group's grant, the member tries
        let mut nm = mk_names(&mut rng, 2, 1, 1, 915);
        let v0 = new_value(&mut rng, &mut nm, 915);
        let v1 = new_value(&mut rng, &mut nm, 915);
        let ops = vec![
            Op::Set(0, 0, v0),
            Op::Member(1, 3),
            Op::Grant(0, 3, 0, 2, None),
            Op::Grant(0, 3, 0, 3, None),
            Op::Perm(1, 0),
            Op::Revoke(0, 3, 0),
            Op::Perm(1, 0),
            Op::Get(1, 0),
            Op::Rotate(1, 0, v1),
        ];
        run_history(915, (2, 3, 10), nm, ops, "corpus repeated grants to a group, one revoke, member access", &mut hist, &mut scan, &mut dist, &mut hits);
    }

    {
        // seeded C14-r3-3 shape: delegations that DelegationManager refuses (depth limit 3, cycle, self) must
        // not change anybody's access: chain root-granted u1 -> u2 -> u3 -> u4, then u4 -> u5 (depth 4)
        let mut nm = mk_names(&mut rng, 5, 1, 2, 916);
        let v0 = new_value(&mut rng, &mut nm, 916);
        let v1 = new_value(&mut rng, &mut nm, 916);
        let v2 = new_value(&mut rng, &mut nm, 916);
        let mut ops = vec![
            Op::Set(0, 0, v0),
            Op::Set(0, 1, v1),
            Op::Grant(0, 1, 0, 3, None),
            Op::Grant(0, 1, 1, 3, None),
            Op::Delegate(1, 2, vec![0, 1], 2, None),
            Op::Delegate(2, 3, vec![0], 2, None),
            Op::Delegate(3, 4, vec![0], 1, None),
            Op::Delegate(4, 5, vec![0], 1, None), // depth 4 > 3: refused
            Op::Perm(5, 0),
            Op::Get(5, 0),
            Op::ListExact(5, 0),
            Op::Delegate(2, 2, vec![1], 2, None), // self: refused
            Op::Perm(2, 1),
            Op::Revoke(0, 1, 0),                  // u1 loses its own grant on secret 0 ...
            Op::Perm(1, 0),
            Op::Delegate(3, 1, vec![0], 2, None), // ... and must not get it back from its descendant (cycle): refused
            Op::Perm(1, 0),
            Op::Get(1, 0),
            Op::Rotate(1, 0, v2),
            Op::Delegate(4, 5, vec![0], 1, Some(LONG)),
            Op::Perm(5, 0),
        ];
        for e in 1..=5u64 {
            for sx in 0..2u64 {
                ops.push(Op::Perm(e, sx));
            }
        }
        run_history(916, (3, 3, 10), nm, ops, "corpus refused delegations (depth limit, self, cycle) change nobody's access", &mut hist, &mut scan, &mut dist, &mut hits);
    }

    {
        // seeded C14-r3-2 shape: list / exact list for a member whose only grant lies beyond the horizon, or is
        // attenuated: the filter behind list must use the vault's own attenuation policy
        for (pi, pol) in [(1u64, 2u64, 2u64), (0, 1, 2), (1, 1, 1), (1, 2, 3)].iter().enumerate() {
            let tag = 920 + pi as u64;
            let mut nm = mk_names(&mut rng, 2, 3, 2, tag);
            let v0 = new_value(&mut rng, &mut nm, tag);
            let v1 = new_value(&mut rng, &mut nm, tag);
            let ops = vec![
                Op::Set(0, 0, v0),
                Op::Set(0, 1, v1),
                Op::Member(1, 3),
                Op::Member(3, 4),
                Op::Member(4, 5),
                Op::Grant(0, 5, 0, 3, None), // 4 hops from u1
                Op::Grant(0, 4, 1, 3, None), // 3 hops from u1
                Op::List(1),
                Op::ListExact(1, 0),
                Op::ListExact(1, 1),
                Op::Perm(1, 0),
                Op::Perm(1, 1),
                Op::Get(1, 0),
                Op::Get(1, 1),
                Op::Grant(0, 3, 0, 1, None), // 2 hops
                Op::List(1),
                Op::ListExact(1, 0),
                Op::List(2),
                Op::ListExact(2, 0),
            ];
            run_history(tag, *pol, nm, ops, "corpus list for a member with grants at and beyond the horizon", &mut hist, &mut scan, &mut dist, &mut hits);
        }
    }

    {
        // seeded C14-r4-1 shape: delegate at one level, re-delegate at another, revoke_delegation, child tries
        for (vi, (l1, l2)) in [(1u64, 2u64), (2, 1), (3, 1), (2, 2)].iter().enumerate() {
            let tag = 930 + vi as u64;
            let mut nm = mk_names(&mut rng, 3, 1, 2, tag);
            let v0 = new_value(&mut rng, &mut nm, tag);
            let v1 = new_value(&mut rng, &mut nm, tag);
            let v2 = new_value(&mut rng, &mut nm, tag);
            let ops = vec![
                Op::Set(0, 0, v0),
                Op::Set(0, 1, v1),
                Op::Grant(0, 1, 0, 3, None),
                Op::Grant(0, 1, 1, 3, None),
                Op::Delegate(1, 2, vec![0, 1], *l1, None),
                Op::Delegate(1, 2, vec![0, 1], *l2, None),
                Op::Perm(2, 0),
                Op::RevokeDeleg(1, 2),
                Op::Perm(2, 0),
                Op::Perm(2, 1),
                Op::Get(2, 0),
                Op::Get(2, 1),
                Op::Rotate(2, 0, v2),
                Op::ListExact(2, 1),
                Op::RevokeDeleg(1, 2),
                Op::RevokeDeleg(2, 3),
                Op::Delegate(0, 3, vec![0], 2, Some(LONG)),
                Op::RevokeDeleg(0, 3),
                Op::Get(3, 0),
            ];
            run_history(tag, (3, 3, 10), nm, ops, "corpus delegate, re-delegate at another level, revoke_delegation, then every access", &mut hist, &mut scan, &mut dist, &mut hits);
        }
        // cascading revoke over a subtree whose delegations were re-issued at other levels (up and down)
        for (vi, (l1, l2, l3)) in [(2u64, 1u64, 1u64), (1, 2, 1), (3, 1, 2)].iter().enumerate() {
            let tag = 935 + vi as u64;
            let mut nm = mk_names(&mut rng, 4, 1, 1, tag);
            let v0 = new_value(&mut rng, &mut nm, tag);
            let mut ops = vec![
                Op::Set(0, 0, v0),
                Op::Grant(0, 1, 0, 3, None),
                Op::Delegate(1, 2, vec![0], *l1, None),
                Op::Delegate(2, 3, vec![0], *l3, None),
                Op::Delegate(1, 2, vec![0], *l2, None), // same parent/child, changed level
                Op::Delegate(2, 3, vec![0], 1, None),
                Op::Delegate(3, 4, vec![0], 1, None),
                Op::RevokeCascade(1, 2),
            ];
            for e in 1..=4u64 {
                ops.push(Op::Perm(e, 0));
                ops.push(Op::Get(e, 0));
            }
            ops.push(Op::RevokeCascade(1, 2));
            ops.push(Op::RevokeDeleg(2, 3));
            run_history(tag, (3, 3, 10), nm, ops, "corpus re-delegations at other levels, cascading revoke, probes for the whole subtree", &mut hist, &mut scan, &mut dist, &mut hits);
        }
        // seeded C14-r4-2 shape: two secrets whose names differ only in surrounding whitespace (space, tab, newline,
        // NBSP), or are whitespace-only
        for (vi, (base, other)) in [("XALIAS940", " XALIAS940"), ("XALIAS940", "XALIAS940\n"), ("XALIAS940", "\tXALIAS940 "), ("XALIAS940", "\u{a0}XALIAS940\u{a0}"), (" ", "\t\n"), ("\u{a0}", "  ")].iter().enumerate() {
            let tag = 940 + vi as u64;
            let mut nm = mk_names(&mut rng, 2, 1, 2, tag);
            nm.secrets[0] = (*base).into();
            nm.secrets[1] = (*other).into();
            let v0 = new_value(&mut rng, &mut nm, tag);
            let v1 = new_value(&mut rng, &mut nm, tag);
            let v2 = new_value(&mut rng, &mut nm, tag);
            let ops = vec![
                Op::Set(0, 0, v0),
                Op::Get(0, 1),
                Op::Grant(0, 1, 0, 2, None),
                Op::Perm(1, 1),
                Op::Get(1, 1),
                Op::ListExact(1, 1),
                Op::Set(0, 1, v1),
                Op::Get(0, 0),
                Op::Get(0, 1),
                Op::Rotate(1, 1, v2),
                Op::Get(1, 0),
                Op::List(1),
                Op::Grant(0, 2, 1, 1, None),
                Op::Get(2, 0),
                Op::Delete(0, 1),
                Op::Get(1, 0),
            ];
            run_history(tag, (1, 2, 10), nm, ops, "corpus secret names differing only in surrounding whitespace", &mut hist, &mut scan, &mut dist, &mut hits);
        }
        // seeded C14-r4-3 shape: granting needs ADMIN whatever level is granted
        let mut nm = mk_names(&mut rng, 4, 1, 1, 945);
        let v0 = new_value(&mut rng, &mut nm, 945);
        let ops = vec![
            Op::Set(0, 0, v0),
            Op::Grant(0, 1, 0, 2, None),
            Op::Grant(0, 2, 0, 1, None),
            Op::Grant(1, 3, 0, 2, None),
            Op::Grant(1, 3, 0, 1, None),
            Op::Grant(2, 4, 0, 1, None),
            Op::Grant(1, 3, 0, 1, Some(LONG)),
            Op::Perm(3, 0),
            Op::Perm(4, 0),
            Op::Get(3, 0),
            Op::Get(4, 0),
            Op::Revoke(1, 2, 0),
            Op::Revoke(2, 1, 0),
            Op::Get(2, 0),
            Op::Get(1, 0),
        ];
        run_history(945, (1, 2, 10), nm, ops, "corpus grants and revokes attempted with Write / Read only", &mut hist, &mut scan, &mut dist, &mut hits);
    }

    {
        // seeded C14-r5-1 shape: delegation DIAMOND with different secrets per branch, cascading revoke at the top
        let mut nm = mk_names(&mut rng, 5, 1, 2, 950);
        let v0 = new_value(&mut rng, &mut nm, 950);
        let v1 = new_value(&mut rng, &mut nm, 950);
        let mut ops = vec![
            Op::Set(0, 0, v0),
            Op::Set(0, 1, v1),
            Op::Grant(0, 1, 0, 3, None),
            Op::Grant(0, 1, 1, 3, None),
            Op::Delegate(1, 2, vec![0, 1], 1, None),
            Op::Delegate(2, 3, vec![0], 1, None),
            Op::Delegate(2, 4, vec![1], 1, None),
            Op::Delegate(3, 5, vec![0], 1, None),
            Op::Delegate(4, 5, vec![1], 1, None),
            Op::Perm(5, 0),
            Op::Perm(5, 1),
            Op::RevokeCascade(1, 2),
        ];
        for e in 2..=5u64 {
            for sx in 0..2u64 {
                ops.push(Op::Perm(e, sx));
                ops.push(Op::Get(e, sx));
            }
        }
        ops.push(Op::ListExact(5, 0));
        ops.push(Op::ListExact(5, 1));
        run_history(950, (3, 3, 10), nm, ops, "corpus delegation diamond (different secrets per branch), cascading revoke", &mut hist, &mut scan, &mut dist, &mut hits);
        // seeded C14-r5-2 shape: WRITE (and Read) grants at 2, 3, 4 hops under every small policy
        for (pi, pol) in [(1u64, 2u64, 10u64), (1, 1, 10), (0, 1, 3), (2, 2, 4)].iter().enumerate() {
            let tag = 951 + pi as u64;
            let mut nm = mk_names(&mut rng, 2, 3, 3, tag);
            let vs: Vec<u64> = (0..5).map(|_| new_value(&mut rng, &mut nm, tag)).collect();
            let ops = vec![
                Op::Set(0, 0, vs[0]),
                Op::Set(0, 1, vs[1]),
                Op::Set(0, 2, vs[2]),
                Op::Member(1, 3),
                Op::Member(3, 4),
                Op::Member(4, 5),
                Op::Grant(0, 3, 0, 2, None), // Write at 2 hops
                Op::Grant(0, 4, 1, 2, None), // Write at 3 hops
                Op::Grant(0, 5, 2, 2, None), // Write at 4 hops
                Op::Perm(1, 0),
                Op::Perm(1, 1),
                Op::Perm(1, 2),
                Op::Rotate(1, 0, vs[3]),
                Op::Rotate(1, 1, vs[3]),
                Op::Rotate(1, 2, vs[4]),
                Op::Set(1, 1, vs[4]),
                Op::Get(1, 2),
                Op::Delegate(1, 2, vec![1], 2, None),
                Op::Perm(2, 1),
            ];
            run_history(tag, *pol, nm, ops, "corpus Write grants at 2, 3 and 4 hops", &mut hist, &mut scan, &mut dist, &mut hits);
        }
        // seeded C14-r5-3 shape: an OVERDUE tracker entry is persisted (root's grant does not sweep), the vault restarts
        let mut nm = mk_names(&mut rng, 3, 1, 1, 956);
        let v0 = new_value(&mut rng, &mut nm, 956);
        let v1 = new_value(&mut rng, &mut nm, 956);
        let ops = vec![
            Op::Set(0, 0, v0),
            Op::Grant(0, 1, 0, 2, Some(1)),     // 20 ms
            Op::Tick(1),                        // 120 ms: overdue, nobody swept yet
            Op::Grant(0, 2, 0, 1, Some(LONG)),  // by root: no sweep; the tracker (overdue entry included) is persisted
            Op::Restart,
            Op::Perm(1, 0),
            Op::Get(1, 0),
            Op::Rotate(1, 0, v1),
            Op::Get(2, 0),
            Op::Restart,
            Op::Get(1, 0),
            Op::Get(2, 0),
        ];
        run_history(956, (1, 2, 10), nm, ops, "corpus overdue TTL entry persisted, vault restarted", &mut hist, &mut scan, &mut dist, &mut hits);
    }

    // ---- random long mixed histories
    let nh = args.budget(70, 2500);
    for h in 0..nh {
        let ni = rng.range(3, 5);
        let ng = rng.range(1, 3);
        let ns = rng.range(2, 4);
        let pol = *rng.pick(&policies);
        let tag = 1000 + h as u64;
        let mut nm = mk_names(&mut rng, ni, ng, ns, tag);
        let len = rng.range(20, 60) as usize;
        let ops = gen_ops(&mut rng, &mut nm, ni, ng, ns, len, tag);
        dist.hit(&format!("hist.len.{}", (ops.len() / 20) * 20));
        dist.hit(&format!("hist.policy.{}_{}_{}", pol.0, pol.1, pol.2));
        run_history(tag, pol, nm, ops, "random", &mut hist, &mut scan, &mut dist, &mut hits);
    }

    // ---- attenuation table
    let na = args.budget(400, 20000);
    for i in 0..na {
        let (a, w, h) = if i % 3 == 0 { *rng.pick(&policies) } else { (rng.below(5), rng.below(6), rng.below(8)) };
        let l = rng.range(1, 3);
        let k = rng.below(10);
        let pol = AttenuationPolicy { admin_limit: a as usize, write_limit: w as usize, horizon: h as usize };
        let r = pol.attenuate(lvl_of(l), k as usize).map(lvl_code).unwrap_or(0);
        att.push(&format!("({a}, {w}, {h}, {l}, {k}, {r})"), &format!("attenuate({a},{w},{h}) level {l} hops {k} = {r}"), r != l);
    }

    write_meta(
        &args.out,
        json!({
            "property": "C14", "seed": args.seed, "tier": args.tier,
            "kinds": [hist.summary(), scan.summary(), att.summary()],
            "distribution": dist.json(),
            "hits": hits.0,
            "nontrivial_rule": "hist: at least two allowed and one denied call; scan: every case (a place where a secret value or name is readable); att: the level changed or vanished",
        }),
    );
}
